#!/usr/bin/env python3
"""Translator: regenerates the tabular / constant part of the Lean model from /repo's Rust sources.

Output: lean/Compass/Gen/Units.lean and lean/Compass/Gen/Consts.lean (written only when the text
changes, so lake's cache stays warm).  Every extractor is an anchored regular expression over the
exact shape that exists in the source today; if a shape no longer matches the translator fails
loudly (exit 2) and the caller treats that like a broken proof (the tie to the source is gone).

The emitted files import nothing but Compass.Model.Num so that they link into the driver executable.
"""
import os
import re
import sys
from fractions import Fraction

import gen_fns

REPO = os.environ.get("VERIF_REPO", "/repo")
CORE = os.path.join(REPO, "rust/routee-compass-core/src")
APP = os.path.join(REPO, "rust/routee-compass/src")
PT = os.path.join(REPO, "rust/routee-compass-powertrain/src")
HERE = os.path.dirname(os.path.abspath(__file__))
OUT = os.path.join(os.path.dirname(HERE), "lean", "Compass", "Gen")


class TranslateError(Exception):
    pass


def read(path):
    with open(path) as f:
        return f.read()


def strip_tests(src):
    i = src.find("#[cfg(test)]")
    return src if i < 0 else src[:i]


def lname(variant):
    return variant[0].lower() + variant[1:]


def dec_to_frac(lit):
    """decimal literal text -> (n, d) exact, reduced; both must be exactly representable doubles."""
    lit = lit.replace("_", "")
    if lit.endswith("f64"):
        lit = lit[:-3]
    if not re.fullmatch(r"\d+(\.\d*)?([eE][-+]?\d+)?", lit):
        raise TranslateError(f"unsupported numeric literal {lit!r}")
    fr = Fraction(lit if not lit.endswith(".") else lit + "0")
    n, d = fr.numerator, fr.denominator
    if n >= 2 ** 53:
        raise TranslateError(f"literal {lit} numerator not exactly representable as a double")
    # d is 2^a*5^b; exactly representable when 5^b < 2^53
    dd = d
    while dd % 2 == 0:
        dd //= 2
    if dd >= 2 ** 53:
        raise TranslateError(f"literal {lit} denominator not exactly representable as a double")
    return n, d


def enum_variants(src, enum_name):
    m = re.search(r"pub enum " + enum_name + r"\s*\{(.*?)\n\}", src, re.S)
    if not m:
        raise TranslateError(f"enum {enum_name} not found")
    body = re.sub(r"#\[[^\]]*\]", "", m.group(1))
    body = re.sub(r"//[^\n]*", "", body)
    vs = [v.strip() for v in body.split(",") if v.strip()]
    for v in vs:
        if not re.fullmatch(r"[A-Z]\w*", v):
            raise TranslateError(f"enum {enum_name}: unexpected variant text {v!r}")
    return vs


def convert_table(src, enum_name):
    """parse `pub fn convert(&self, value: &X, target: &Enum) -> X { use Enum as S; match (self, target) {...} }`"""
    src = strip_tests(src)
    vs = enum_variants(src, enum_name)
    m = re.search(r"pub fn convert\(\s*&self,\s*value: &\w+,\s*target: &" + enum_name + r",?\s*\) -> \w+ \{\s*"
                  r"use " + enum_name + r" as (\w+);\s*match \(self, target\) \{(.*?)\n\s*\}\s*\n\s*\}", src, re.S)
    if not m:
        raise TranslateError(f"{enum_name}::convert: function shape not recognised")
    alias, body = m.group(1), m.group(2)
    table = {}
    body = re.sub(r"//[^\n]*", "", body)
    arm_re = re.compile(r"\(\s*" + alias + r"::(\w+)\s*,\s*" + alias + r"::(\w+)\s*\)\s*=>\s*\*value(?:\s*([*/])\s*([\d._]+))?\s*,")
    rest = arm_re.sub("", body)
    if rest.strip():
        raise TranslateError(f"{enum_name}::convert: arm(s) not recognised: {rest.strip()[:120]!r}")
    for mm in arm_re.finditer(body):
        s, t, op, lit = mm.groups()
        if s not in vs or t not in vs:
            raise TranslateError(f"{enum_name}::convert: unknown variant in arm {mm.group(0)!r}")
        if (s, t) in table:
            raise TranslateError(f"{enum_name}::convert: duplicate arm for {(s, t)} (first match wins in Rust)")
        if op is None:
            table[(s, t)] = ("id",)
        else:
            n, d = dec_to_frac(lit)
            table[(s, t)] = ("mul" if op == "*" else "div", n, d, lit)
    for s in vs:
        for t in vs:
            if (s, t) not in table:
                raise TranslateError(f"{enum_name}::convert: no arm for {(s, t)}")
    return vs, table


def simple_map(src, enum_name, fn_name, target_enum):
    """parse `pub fn fn_name(&self) -> Target { use ..; match self { A::X => T::Y, ... } }`"""
    src = strip_tests(src)
    m = re.search(r"pub fn " + fn_name + r"\(&self\) -> " + target_enum + r" \{(.*?)\n    \}", src, re.S)
    if not m:
        raise TranslateError(f"{enum_name}::{fn_name}: function shape not recognised")
    body = m.group(1)
    res = {}
    for mm in re.finditer(r"\w+::(\w+) => \w+::(\w+),", body):
        res[mm.group(1)] = mm.group(2)
    vs = enum_variants(src, enum_name)
    for v in vs:
        if v not in res:
            raise TranslateError(f"{enum_name}::{fn_name}: no arm for {v}")
    return res


def snake(variant):
    """serde rename_all = "snake_case" """
    out = ""
    for i, ch in enumerate(variant):
        if ch.isupper() and i > 0:
            out += "_"
        out += ch.lower()
    return out


def emit_enum(name, vs):
    out = [f"inductive {name} where"]
    for v in vs:
        out.append(f"  | {lname(v)}")
    out.append("  deriving DecidableEq, Repr, Inhabited")
    out.append("")
    out.append(f"def {name}.all : List {name} := [" + ", ".join("." + lname(v) for v in vs) + "]")
    out.append("")
    out.append(f"def {name}.ofNat? : Nat → Option {name}")
    for i, v in enumerate(vs):
        out.append(f"  | {i} => some .{lname(v)}")
    out.append("  | _ => none")
    out.append("")
    out.append(f"def {name}.toNat : {name} → Nat")
    for i, v in enumerate(vs):
        out.append(f"  | .{lname(v)} => {i}")
    out.append("")
    out.append(f"/-- serde (snake_case) name -/")
    out.append(f"def {name}.name : {name} → String")
    for v in vs:
        out.append(f"  | .{lname(v)} => \"{snake(v)}\"")
    out.append("")
    out.append(f"def {name}.ofName? (s : String) : Option {name} :=")
    out.append(f"  {name}.all.find? (fun u => u.name == s)")
    out.append("")
    return out


def emit_factor_table(name, vs, table):
    out = [f"/-- `{name}::convert` as it stands in the source: source unit, target unit ↦ factor -/",
           f"def {name}.factor : {name} → {name} → Factor"]
    for s in vs:
        for t in vs:
            e = table[(s, t)]
            if e[0] == "id":
                rhs = ".id"
            else:
                rhs = f".{e[0]} {e[1]} {e[2]}  -- {e[3]}"
            out.append(f"  | .{lname(s)}, .{lname(t)} => {rhs}")
    out.append("")
    return out


def gen_units():
    U = os.path.join(CORE, "model/unit")
    fams = [("DistanceUnit", "distance_unit.rs"), ("TimeUnit", "time_unit.rs"), ("SpeedUnit", "speed_unit.rs"),
            ("EnergyUnit", "energy_unit.rs"), ("GradeUnit", "grade_unit.rs"), ("WeightUnit", "weight_unit.rs")]
    out = ["-- GENERATED by tools/gen_model.py from /repo/rust/routee-compass-core/src/model/unit/*.rs — do not edit",
           "import Compass.Model.Num", "", "namespace Compass", ""]
    rust_names = {}
    for name, fn in fams:
        vs, table = convert_table(read(os.path.join(U, fn)), name)
        rust_names[name] = vs
        out += emit_enum(name, vs)
        out += emit_factor_table(name, vs, table)
    # energy rate unit: enum + associated units
    eru_src = read(os.path.join(U, "energy_rate_unit.rs"))
    eru = enum_variants(strip_tests(eru_src), "EnergyRateUnit")
    rust_names["EnergyRateUnit"] = eru
    out += emit_enum("EnergyRateUnit", eru)
    for fn, tgt in [("associated_distance_unit", "DistanceUnit"), ("associated_energy_unit", "EnergyUnit")]:
        mp = simple_map(eru_src, "EnergyRateUnit", fn, tgt)
        lean_fn = "associatedDistanceUnit" if "distance" in fn else "associatedEnergyUnit"
        out.append(f"def EnergyRateUnit.{lean_fn} : EnergyRateUnit → {tgt}")
        for v in eru:
            if mp[v] not in rust_names[tgt]:
                raise TranslateError(f"EnergyRateUnit::{fn}: unknown target {mp[v]}")
            out.append(f"  | .{lname(v)} => .{lname(mp[v])}")
        out.append("")
    su_src = read(os.path.join(U, "speed_unit.rs"))
    for fn, tgt in [("associated_time_unit", "TimeUnit"), ("associated_distance_unit", "DistanceUnit")]:
        mp = simple_map(su_src, "SpeedUnit", fn, tgt)
        lean_fn = "associatedTimeUnit" if "time" in fn else "associatedDistanceUnit"
        out.append(f"def SpeedUnit.{lean_fn} : SpeedUnit → {tgt}")
        for v in rust_names["SpeedUnit"]:
            if mp[v] not in rust_names[tgt]:
                raise TranslateError(f"SpeedUnit::{fn}: unknown target {mp[v]}")
            out.append(f"  | .{lname(v)} => .{lname(mp[v])}")
        out.append("")
    # max_american_highway_speed
    m = re.search(r"pub fn max_american_highway_speed\(&self\) -> Speed \{(.*?)\n    \}", strip_tests(su_src), re.S)
    if not m:
        raise TranslateError("SpeedUnit::max_american_highway_speed not recognised")
    mp = {mm.group(1): mm.group(2) for mm in re.finditer(r"S::(\w+) => Speed::new\(([\d._]+)\),", m.group(1))}
    out.append("def SpeedUnit.maxAmericanHighwaySpeed : SpeedUnit → Nat × Nat")
    for v in rust_names["SpeedUnit"]:
        if v not in mp:
            raise TranslateError(f"max_american_highway_speed: no arm for {v}")
        n, d = dec_to_frac(mp[v])
        out.append(f"  | .{lname(v)} => ({n}, {d})  -- {mp[v]}")
    out.append("")
    # From<(DistanceUnit, TimeUnit)> for SpeedUnit: `(D::X, T::Y) => S::Z,` or `=> todo!(),` (the call panics)
    m = re.search(r"impl From<\(DistanceUnit, TimeUnit\)> for SpeedUnit \{(.*?)\n\}", strip_tests(su_src), re.S)
    if not m:
        raise TranslateError("From<(DistanceUnit, TimeUnit)> for SpeedUnit not recognised")
    arms = {}
    for mm in re.finditer(r"\(D::(\w+), T::(\w+)\) => (todo!\(\)|S::(\w+)),", m.group(1)):
        arms[(mm.group(1), mm.group(2))] = mm.group(4)
    out.append("/-- `SpeedUnit::from((distance_unit, time_unit))`; `none` is an arm that is `todo!()` (the call panics) -/")
    out.append("def SpeedUnit.ofDistanceTime? : DistanceUnit → TimeUnit → Option SpeedUnit")
    for dv in rust_names["DistanceUnit"]:
        for tv in rust_names["TimeUnit"]:
            if (dv, tv) not in arms:
                raise TranslateError(f"From<(DistanceUnit, TimeUnit)> for SpeedUnit: no arm for {(dv, tv)}")
            tgt = arms[(dv, tv)]
            if tgt is None:
                out.append(f"  | .{lname(dv)}, .{lname(tv)} => none")
            else:
                if tgt not in rust_names["SpeedUnit"]:
                    raise TranslateError(f"From<(DistanceUnit, TimeUnit)> for SpeedUnit: unknown target {tgt}")
                out.append(f"  | .{lname(dv)}, .{lname(tv)} => some .{lname(tgt)}")
    out.append("")
    # base units
    b = strip_tests(read(os.path.join(U, "builders.rs")))
    for const, enum, lean in [("BASE_DISTANCE_UNIT", "DistanceUnit", "baseDistanceUnit"),
                              ("BASE_TIME_UNIT", "TimeUnit", "baseTimeUnit"),
                              ("BASE_SPEED_UNIT", "SpeedUnit", "baseSpeedUnit")]:
        m = re.search(r"pub const " + const + r": " + enum + r" = " + enum + r"::(\w+);", b)
        if not m or m.group(1) not in rust_names[enum]:
            raise TranslateError(f"{const} not recognised")
        out.append(f"def {lean} : {enum} := .{lname(m.group(1))}")
    out.append("")
    # shape guard of `create_energy` (the Lean model in Model/Units.lean mirrors these lines); the bodies of
    # `create_time` / `create_speed` are translated whole by tools/gen_fns.py and tied by C09.gen_create_*_eq
    guards = [
        r"let rate_distance_unit = energy_rate_unit\.associated_distance_unit\(\);\s*let energy_unit = energy_rate_unit\.associated_energy_unit\(\);\s*let calc_distance = distance_unit\.convert\(distance, &rate_distance_unit\);\s*let energy = \(\*energy_rate, calc_distance\)\.into\(\);",
    ]
    for g in guards:
        if not re.search(g, b):
            raise TranslateError("builders.rs: constructor body no longer has the modelled shape: " + g[:60])
    out.append("end Compass")
    out.append("")
    return "\n".join(out)


def gen_consts():
    out = ["-- GENERATED by tools/gen_model.py from /repo sources — do not edit",
           "import Compass.Model.Num", "", "namespace Compass", ""]
    # cost floor
    s = read(os.path.join(CORE, "model/unit/internal_float.rs"))
    m = re.search(r"pub const MIN: InternalFloat = InternalFloat\(OrderedFloat\(([\d._eE+-]+(?:f64)?)\)\);", s)
    if not m:
        raise TranslateError("InternalFloat::MIN not recognised")
    n, d = dec_to_frac(m.group(1))
    out.append(f"/-- `InternalFloat::MIN` = `Cost::MIN_COST`: {m.group(1)} -/")
    out.append(f"def minCostLit : Nat × Nat := ({n}, {d})")
    out.append("")
    c = read(os.path.join(CORE, "model/unit/cost.rs"))
    if not re.search(r"pub const MIN_COST: Cost = Cost\(InternalFloat::MIN\);", c):
        raise TranslateError("Cost::MIN_COST not recognised")
    # (the bodies of Cost::enforce_strictly_positive / enforce_non_negative are tied by the decision sites
    #  cost_strictly_positive / cost_non_negative and by the function translator, per property; a reshaped body
    #  no longer fails the translator as a whole)
    # turn classes
    t = strip_tests(read(os.path.join(CORE, "model/access/default/turn_delays/turn.rs")))
    turns = enum_variants(t, "Turn")
    out += emit_enum("Turn", turns)
    m = re.search(r"pub fn from_angle\(angle: i16\) -> Result<Self, AccessModelError> \{\s*match angle \{(.*?)\n            _ => Err", t, re.S)
    if not m:
        raise TranslateError("Turn::from_angle not recognised")
    rng = []
    for line in m.group(1).split("\n"):
        line = line.strip()
        if not line:
            continue
        mm = re.fullmatch(r"(-?\d+)\.\.=(-?\d+) => Ok\(Turn::(\w+)\),", line)
        if not mm or mm.group(3) not in turns:
            raise TranslateError(f"Turn::from_angle arm not recognised: {line!r}")
        rng.append((int(mm.group(1)), int(mm.group(2)), mm.group(3)))
    out.append("/-- the arms of `Turn::from_angle`, in source order: inclusive range ↦ class -/")
    out.append("def turnRanges : List (Int × Int × Turn) := [")
    out.append(",\n".join(f"  (({lo} : Int), ({hi} : Int), Turn.{lname(v)})" for lo, hi, v in rng))
    out.append("]")
    out.append("")
    # heading wrap
    h = strip_tests(read(os.path.join(CORE, "model/access/default/turn_delays/edge_heading.rs")))
    # the difference is taken in i32 (no overflow: the model computes on Int), wrapped once, and clamped
    # back into i16 — a clamped value is far outside [-180, 180], where Turn::from_angle refuses it, as
    # the model's table lookup does for the unclamped integer
    m = re.search(r"let angle = destination\.start_heading\(\) as i32 - self\.end_heading\(\) as i32;\s*let wrapped = if angle > (\d+) \{\s*angle - (\d+)\s*\} else if angle < -(\d+) \{\s*angle \+ (\d+)\s*\} else \{\s*angle\s*\};(?:\s*//[^\n]*)*\s*wrapped\.clamp\(i16::MIN as i32, i16::MAX as i32\) as i16", h)
    if not m:
        raise TranslateError("EdgeHeading::bearing_to_destination not recognised")
    out.append(f"def headingWrap : Int × Int × Int × Int := ({m.group(1)}, {m.group(2)}, {m.group(3)}, {m.group(4)})")
    out.append("")
    out.append("end Compass")
    out.append("")
    return "\n".join(out)


# ---------------------------------------------------------------------------------------------------
# decision sites: the relational operator the source uses at a named comparison, regenerated on every
# run into Compass/Gen/Decisions.lean.  Each site is tied to the hand-written model by a theorem
# `src_<site>` in the Props file of the property that relies on it ("the model's function decides by
# the operator the source has there"), so that `<` turned into `<=` in the Rust source breaks that
# proof obligation whether or not a generated case lands on the tie.  A site that is no longer
# recognised (the line was reshaped) is emitted as `Rel.unknown`: only the theorems that cite it stop
# checking, the translator as a whole does not fail.
OPS = {"<": "lt", "<=": "le", ">": "gt", ">=": "ge", "==": "eq", "!=": "ne"}
FLIP = {"lt": "gt", "le": "ge", "gt": "lt", "ge": "le", "eq": "eq", "ne": "ne"}
OP_RE = r"(<=|>=|==|!=|<|>)"

# (site, file, scope (fn name or None), lhs regex, rhs regex)
SITES = [
    ("relax_improves", CORE + "/algorithm/search/a_star/a_star_algorithm.rs", None, r"tentative_gscore", r"existing_gscore"),
    ("term_solution_size", CORE + "/model/termination/termination_model.rs", "terminate_search", r"solution_size", r"\*limit"),
    ("term_iterations", CORE + "/model/termination/termination_model.rs", "terminate_search", r"iteration \+ 1", r"\*limit"),
    ("term_runtime", CORE + "/model/termination/termination_model.rs", "terminate_search", r"dur", r"\*limit"),
    ("term_frequency", CORE + "/model/termination/termination_model.rs", "terminate_search", r"iteration % frequency", r"0"),
    ("cost_strictly_positive", CORE + "/model/unit/cost.rs", "enforce_strictly_positive", r"cost", r"Cost::ZERO"),
    ("cost_non_negative", CORE + "/model/unit/cost.rs", "enforce_non_negative", r"cost", r"Cost::ZERO"),
    ("ksp_exact", CORE + "/algorithm/search/ksp/ksp_termination_criteria.rs", "terminate_search", r"solution_size", r"k"),
    ("ksp_max_iteration", CORE + "/algorithm/search/ksp/ksp_termination_criteria.rs", "terminate_search", r"\*max as usize", r"k"),
    ("ksp_factor", CORE + "/algorithm/search/ksp/ksp_termination_criteria.rs", "terminate_search", r"\(\*factor as usize\)\.saturating_mul\(solution_size\)", r"k"),
    ("vertex_match_tolerance", APP + "/plugin/input/default/vertex_rtree/plugin.rs", None, r"&distance", r"tolerance_distance"),
    ("edge_match_tolerance", APP + "/plugin/input/default/edge_rtree/edge_rtree_input_plugin.rs", None, r"distance", r"tolerance"),
    ("phev_battery_left", PT + "/routee/vehicle/default/phev.rs", None, r"battery_soc_percent", r"0\.0"),
    ("energy_rate_floor", PT + "/routee/prediction/prediction_model_ops.rs", None, r"energy_rate", r"minimum_energy_rate"),
    ("custom_u64_negative", CORE + "/model/state/custom_feature_format.rs", None, r"value", r"&StateVar::ZERO"),
    ("scc_largest", CORE + "/algorithm/component/scc.rs", None, r"component\.len\(\)", r"largest_component\.len\(\)"),
    ("speed_from_str_negative", CORE + "/model/unit/speed.rs", None, r"value", r"0\.0"),
    ("loader_src_in_range", CORE + "/model/network/graph_loader.rs", None, r"e\.src_vertex_id\.0", r"vertices\.len\(\)"),
    ("loader_dst_in_range", CORE + "/model/network/graph_loader.rs", None, r"e\.dst_vertex_id\.0", r"vertices\.len\(\)"),
    ("max_speed_fold", CORE + "/model/traversal/default/speed_traversal_engine.rs", None, r"acc_max", r"\*row"),
    ("interp_round_half", PT + "/routee/prediction/interpolation/interp.rs", None, r"diff", r"0\.5"),
    ("find_nearest_loop", PT + "/routee/prediction/interpolation/utils.rs", None, r"low", r"high"),
    ("find_nearest_mid", PT + "/routee/prediction/interpolation/utils.rs", None, r"arr\[mid\]", r"target"),
    ("heading_wrap_high", CORE + "/model/access/default/turn_delays/edge_heading.rs", None, r"angle", r"180"),
    ("heading_wrap_low", CORE + "/model/access/default/turn_delays/edge_heading.rs", None, r"angle", r"-180"),
]

INTERP = PT + "/routee/prediction/interpolation/interp.rs"
_ARM = {"1d": r"re:Self::Interp1D\(interp\) => \{(.*?)Self::Interp2D\(interp\) =>",
        "2d": r"re:Self::Interp2D\(interp\) => \{(.*?)Self::Interp3D\(interp\) =>",
        "3d": r"re:Self::Interp3D\(interp\) => \{(.*?)Self::InterpND\(interp\) =>",
        "nd": r"re:fn validate_inputs.*?Self::InterpND\(interp\) => \{(.*?)_ => \(\),"}
for _arm, _axes in [("1d", [("x", 0)]), ("2d", [("x", 0), ("y", 1)]), ("3d", [("x", 0), ("y", 1), ("z", 2)])]:
    for _ax, _i in _axes:
        SITES.append((f"in_grid_{_arm}_{_ax}_low", INTERP, _ARM[_arm], rf"interp\.{_ax}\[0\]", rf"point\[{_i}\]"))
        SITES.append((f"in_grid_{_arm}_{_ax}_high", INTERP, _ARM[_arm], rf"&point\[{_i}\]", rf"interp\.{_ax}\.last\(\)\.unwrap\(\)"))
SITES.append(("in_grid_nd_low", INTERP, _ARM["nd"], r"interp\.grid\[i\]\[0\]", r"point\[i\]"))
SITES.append(("in_grid_nd_high", INTERP, _ARM["nd"], r"&point\[i\]", r"interp\.grid\[i\]\.last\(\)\.unwrap\(\)"))

for _dim, _axes in [("1D", ["x"]), ("2D", ["x", "y"]), ("3D", ["x", "y", "z"])]:
    for _ax in _axes:
        SITES.append((f"sorted_{_dim.lower()}_{_ax}", INTERP, rf"re:impl InterpValidate for Interp{_dim} \{{(.*?)\nimpl ",
                      rf"self\.{_ax}\.windows\(2\)\.all\(\|w\| w\[0\]", r"w\[1\]"))
SITES.append(("sorted_nd", INTERP, r"re:impl InterpValidate for InterpND \{(.*?)\nimpl ",
              r"self\.grid\[i\]\.windows\(2\)\.all\(\|w\| w\[0\]", r"w\[1\]"))


def fn_scope(src, name):
    """text of `fn name(...) ... { body }` by brace matching; None when absent"""
    m = re.search(r"\bfn " + re.escape(name) + r"\b", src)
    if not m:
        return None
    i = src.find("{", m.end())
    # skip a `where`-less signature: the first `{` after the parameter list's closing `)`
    depth, j = 0, i
    while j < len(src):
        if src[j] == "{":
            depth += 1
        elif src[j] == "}":
            depth -= 1
            if depth == 0:
                return src[i:j + 1]
        j += 1
    return None


def strip_comments(src):
    return re.sub(r"//[^\n]*", "", src)


def site_rel(path, scope, lhs, rhs):
    try:
        src = strip_comments(strip_tests(read(path)))
    except OSError:
        return "unknown", "file not found"
    if scope and scope.startswith("re:"):
        m = re.search(scope[3:], src, re.S)
        if not m:
            return "unknown", "scope not found"
        src = m.group(1)
    elif scope:
        src = fn_scope(src, scope)
        if src is None:
            return "unknown", f"fn {scope} not found"
    B = r"(?<![\w.\])&*])"      # the operand starts here …
    E = r"(?![\w.\[(])"         # … and ends here (not a prefix of a longer path / call / index)
    found = []
    for m in re.finditer(B + lhs + E + r"\s*" + OP_RE + r"\s*" + B + rhs + E, src):
        found.append(OPS[m.group(1)])
    for m in re.finditer(B + rhs + E + r"\s*" + OP_RE + r"\s*" + B + lhs + E, src):
        found.append(FLIP[OPS[m.group(1)]])
    if len(found) != 1:
        return "unknown", f"{len(found)} matches"
    return found[0], ""


def gen_decisions():
    out = ["-- GENERATED by tools/gen_model.py from /repo sources — do not edit",
           "", "namespace Compass", "namespace Src", "",
           "/-- the relational operator the Rust source has at a named comparison (`lhs OP rhs`, normalised to",
           "the operand order of the site table in tools/gen_model.py); `unknown`: the line was not recognised -/",
           "inductive Rel where", "  | lt | le | gt | ge | eq | ne | unknown",
           "  deriving DecidableEq, Repr, Inhabited", "",
           "/-- the comparison on natural numbers (`usize` / `u64` operands); `none` for an unrecognised site -/",
           "def Rel.nat : Rel → Nat → Nat → Option Bool",
           "  | .lt, a, b => some (decide (a < b))", "  | .le, a, b => some (decide (a ≤ b))",
           "  | .gt, a, b => some (decide (b < a))", "  | .ge, a, b => some (decide (b ≤ a))",
           "  | .eq, a, b => some (a == b)", "  | .ne, a, b => some (a != b)", "  | .unknown, _, _ => none", "",
           "/-- the comparison on integers (`i16` / `i32` / `i64` operands) -/",
           "def Rel.int : Rel → Int → Int → Option Bool",
           "  | .lt, a, b => some (decide (a < b))", "  | .le, a, b => some (decide (a ≤ b))",
           "  | .gt, a, b => some (decide (b < a))", "  | .ge, a, b => some (decide (b ≤ a))",
           "  | .eq, a, b => some (a == b)", "  | .ne, a, b => some (a != b)", "  | .unknown, _, _ => none", "",
           "/-- the comparison in the model's number type (`f64` operands): only the order relations -/",
           "def Rel.num {α : Type} [LT α] [LE α] [DecidableLT α] [DecidableLE α] : Rel → α → α → Option Bool",
           "  | .lt, a, b => some (decide (a < b))", "  | .le, a, b => some (decide (a ≤ b))",
           "  | .gt, a, b => some (decide (b < a))", "  | .ge, a, b => some (decide (b ≤ a))",
           "  | _, _, _ => none", ""]
    notes = []
    for name, path, scope, lhs, rhs in SITES:
        rel, why = site_rel(path, scope, lhs, rhs)
        rp = os.path.relpath(path, REPO)
        out.append(f"/-- `{rp}`" + (f", fn `{scope}`" if scope and not scope.startswith("re:") else (", inside one match arm" if scope else "")) + f": `{lhs} OP {rhs}` (regular expressions) -/")
        out.append(f"def {name} : Rel := .{rel}")
        if rel == "unknown":
            notes.append(f"{name} ({why})")
    out += ["", "end Src", "end Compass", ""]
    return "\n".join(out), notes


def write_if_changed(path, text):
    os.makedirs(os.path.dirname(path), exist_ok=True)
    if os.path.exists(path) and read(path) == text:
        return False
    with open(path, "w") as f:
        f.write(text)
    return True


def main():
    try:
        units = gen_units()
        consts = gen_consts()
        decisions, unknown_sites = gen_decisions()
    except (TranslateError, OSError) as e:
        print(f"TRANSLATOR-FAILED: {e}")
        return 2
    ch1 = write_if_changed(os.path.join(OUT, "Units.lean"), units)
    ch2 = write_if_changed(os.path.join(OUT, "Consts.lean"), consts)
    ch3 = write_if_changed(os.path.join(OUT, "Decisions.lean"), decisions)
    print(f"translator ok (Units.lean {'rewritten' if ch1 else 'unchanged'}, Consts.lean {'rewritten' if ch2 else 'unchanged'}, "
          f"Decisions.lean {'rewritten' if ch3 else 'unchanged'}: {len(SITES) - len(unknown_sites)} of {len(SITES)} decision sites recognised"
          + (f"; NOT recognised: {', '.join(unknown_sites)}" if unknown_sites else "") + ")")
    # function bodies (Gen/Fns<prop>.lean): a function that is not recognised is skipped, never a failure of the run
    gen_fns.main(REPO, write_if_changed)
    return 0


if __name__ == "__main__":
    sys.exit(main())
