#!/usr/bin/env python3
"""Regenerate seeded/RESULTS.md and the table of DESIGN.md §10.5 from seeded/<name>/meta.json and
seeded/results.json (name -> {"result": ..., "fires": ...}, maintained by hand after each run)."""
import json, os, re
root = os.path.dirname(os.path.dirname(os.path.abspath(__file__)))
res = json.load(open(os.path.join(root, "seeded", "results.json")))
rows = []
for name in sorted(os.listdir(os.path.join(root, "seeded"))):
    mp = os.path.join(root, "seeded", name, "meta.json")
    if not os.path.exists(mp):
        continue
    m = json.load(open(mp))
    r = res.get(name, {"result": "not yet run", "fires": ""})
    clip = lambda s: (s[:260]).replace("|", "/").replace("\n", " ")
    rows.append(f"| {name} | {clip(m.get('summary',''))} | {clip(m.get('needs',''))[:200]} | {r['result']} | {r['fires']} |")
head = open(os.path.join(root, "seeded", "RESULTS.md")).read().split("| seeded/<name> |")[0]
table = "| seeded/<name> | what was changed | needs | result | what fires |\n|---|---|---|---|---|\n" + "\n".join(rows) + "\n"
open(os.path.join(root, "seeded", "RESULTS.md"), "w").write(head + table)
d = open(os.path.join(root, "DESIGN.md")).read()
i = d.index("| seeded/<name> | what was changed")
j = i
lines = d[i:].split("\n")
k = 0
while k < len(lines) and lines[k].startswith("|"):
    k += 1
d = d[:i] + table + "\n".join(lines[k:])
open(os.path.join(root, "DESIGN.md"), "w").write(d)
print(len(rows), "rows")
