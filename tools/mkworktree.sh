#!/bin/sh
# scratch worktree of /verif for parallel work on one property: tools/mkworktree.sh C11
set -e
id="$1"
dir="/tmp/vw/$id"
mkdir -p /tmp/vw
git -C /verif worktree add -q "$dir" -b "wip/$id"
mkdir -p "$dir/lean" "$dir/harness"
cp -a /verif/lean/.lake "$dir/lean/.lake"
cp -a /verif/harness/target "$dir/harness/target"
cp /verif/harness/Cargo.lock "$dir/harness/Cargo.lock" 2>/dev/null || cp /repo/rust/Cargo.lock "$dir/harness/Cargo.lock"
echo "$dir"
