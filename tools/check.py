#!/usr/bin/env python3
"""Orchestrator of one property check (DESIGN.md §2.5).

  python3 tools/check.py C09 [--tier quick|thorough] [--seed N] [--replay FILE]

 1. translator: regenerate lean/Compass/Gen/*.lean from /repo's working tree
 2. lake build Compass.Props.<id> and the driver; audit `#print axioms` of every theorem of the
    property file; scan the Lean tree for sorry/admit/axiom/native_decide/...
 3. cargo build --release of the harness against /repo's working tree (hooks feature on)
 4. cvh <id>: generated + corpus cases through the real code; driver: same cases through the model;
    line-by-line diff (correspondence, bit-exact on doubles)
 5. direct oracle failures reported by cvh (the real code violates the property on a concrete case)
 6. if a proof / the translator / the correspondence broke and 5 found nothing: widen the search
 7. classify against known_findings.txt; print KNOWN-FINDING / VIOLATION lines
 8. write evidence/<id>.json
Exit 0 iff no unlisted violation.
"""
import fcntl
import json
import os
import re
import subprocess
import sys
import time

VERIF = os.path.dirname(os.path.dirname(os.path.abspath(__file__)))
LEAN = os.path.join(VERIF, "lean")
HARNESS = os.path.join(VERIF, "harness")
WORK = os.path.join(VERIF, "work")
EVID = os.path.join(VERIF, "evidence")
CVH = os.path.join(HARNESS, "target", "release", "cvh")
DRIVER = os.path.join(LEAN, ".lake", "build", "bin", "driver")
ALLOWED_AXIOMS = {"propext", "Classical.choice", "Quot.sound"}
FORBIDDEN = re.compile(r"\bsorry\b|\badmit\b|^\s*axiom\s|native_decide|bv_decide|implemented_by|\bunsafe\s|maxHeartbeats 0")

ENV = dict(os.environ)
ENV["CARGO_NET_OFFLINE"] = "true"

TRUSTED_BASE = [
    "Lean 4.33.0 kernel; Mathlib v4.33.0 as installed",
    "axioms allowed in property theorems: propext, Classical.choice, Quot.sound (audited by #print axioms on every run)",
    "tools/gen_model.py (regex translator of tables, constants and the relational operators at named comparison sites) and tools/gen_fns.py (tokenizer / parser / Lean printer for the bodies of the pure decision functions; conventions in its header); both cross-checked by the bit-exact correspondence run",
    "harness/ (cvh: generators, canonicalisation, oracle) and lean/Driver.lean + Compass/Drv (line protocol glue)",
    "correspondence is differential testing of 'the code is the model' on generated cases, not a proof",
    "IEEE rounding/overflow/NaN of f64/f32 are outside every theorem (theorems are over ordered fields)",
    "third-party crates (priority-queue, rstar, rayon, serde_json, csv, flate2, ...) assumed to behave as documented",
]


def sh(cmd, cwd=None, timeout=None, env=None, stdin=None):
    t0 = time.time()
    try:
        p = subprocess.run(cmd, cwd=cwd, env=env or ENV, stdin=stdin, stdout=subprocess.PIPE,
                           stderr=subprocess.STDOUT, timeout=timeout, text=True, errors="replace")
        return p.returncode, p.stdout, time.time() - t0
    except subprocess.TimeoutExpired as e:
        out = e.stdout if isinstance(e.stdout, str) else (e.stdout or b"").decode(errors="replace")
        return 124, out + "\nTIMEOUT", time.time() - t0


class Lock:
    """serialise the build steps when several checks run at once"""

    def __init__(self, name):
        os.makedirs(WORK, exist_ok=True)
        self.path = os.path.join(WORK, "." + name + ".lock")

    def __enter__(self):
        self.f = open(self.path, "w")
        fcntl.flock(self.f, fcntl.LOCK_EX)

    def __exit__(self, *a):
        fcntl.flock(self.f, fcntl.LOCK_UN)
        self.f.close()


def theorem_names(prop):
    """theorem names declared in the property file(s), fully qualified"""
    names = []
    path = os.path.join(LEAN, "Compass", "Props", prop + ".lean")
    ns = []
    for line in open(path):
        m = re.match(r"namespace\s+(\S+)", line)
        if m:
            ns.append(m.group(1))
            continue
        m = re.match(r"end\s+(\S+)", line)
        if m and ns and ns[-1] == m.group(1):
            ns.pop()
            continue
        m = re.match(r"(?:@\[[^\]]*\]\s*)?(?:private\s+|protected\s+)?theorem\s+([^\s:({\[]+)", line)
        if m:
            names.append(".".join(ns + [m.group(1)]))
    return names


def failing_theorems(prop, errs):
    """names of the theorems of Props/<prop>.lean that enclose the reported error positions"""
    path = os.path.join(LEAN, "Compass", "Props", prop + ".lean")
    starts = []
    try:
        for i, line in enumerate(open(path), 1):
            m = re.match(r"(?:@\[[^\]]*\]\s*)?(?:private\s+|protected\s+)?(?:theorem|lemma|example|def|instance)\s*([^\s:({\[]*)", line)
            if m:
                starts.append((i, m.group(1) or "example"))
    except OSError:
        return []
    out = []
    for e in errs:
        m = re.match(r"error: \S*Props/" + prop + r"\.lean:(\d+):", e)
        if not m:
            continue
        ln = int(m.group(1))
        name = None
        for i, n in starts:
            if i <= ln:
                name = n
            else:
                break
        if name and name not in out:
            out.append(name)
    return out


def scan_forbidden():
    hits = []
    for root, _, files in os.walk(os.path.join(LEAN, "Compass")):
        for fn in files:
            if not fn.endswith(".lean"):
                continue
            p = os.path.join(root, fn)
            in_block = False
            for i, line in enumerate(open(p), 1):
                s = line
                # drop block comments (coarse) and line comments
                if in_block:
                    if "-/" in s:
                        s = s.split("-/", 1)[1]
                        in_block = False
                    else:
                        continue
                while "/-" in s:
                    a, b = s.split("/-", 1)
                    if "-/" in b:
                        s = a + b.split("-/", 1)[1]
                    else:
                        s = a
                        in_block = True
                        break
                s = s.split("--", 1)[0]
                if FORBIDDEN.search(s):
                    hits.append(f"{os.path.relpath(p, LEAN)}:{i}: {line.strip()}")
    for fn in ["Driver.lean"]:
        pass
    return hits


def lean_stage(prop, tier, log):
    """returns dict(ok, translator_ok, build_ok, theorems, axioms, problems[])"""
    res = {"translator_ok": True, "build_ok": True, "driver_ok": True, "problems": [], "theorems": [], "axioms": {}}
    with Lock("lean"):
        rc, out, dt = sh([sys.executable, os.path.join(VERIF, "tools", "gen_model.py")], cwd=VERIF)
        log.append(f"[translator {dt:.1f}s] {out.strip()}")
        if rc != 0:
            res["translator_ok"] = False
            res["problems"].append("translator: " + out.strip())
        rc, out, dt = sh(["lake", "build", "driver"], cwd=LEAN, timeout=3000)
        log.append(f"[lake build driver {dt:.1f}s rc={rc}]")
        if rc != 0:
            res["driver_ok"] = False
            res["problems"].append("model/driver does not build: " + tail(out, 30))
        rc, out, dt = sh(["lake", "build", f"Compass.Props.{prop}"], cwd=LEAN, timeout=3000)
        log.append(f"[lake build Compass.Props.{prop} {dt:.1f}s rc={rc}]")
        if rc != 0:
            res["build_ok"] = False
            errs = [l for l in out.splitlines() if l.startswith("error:")]
            failing = failing_theorems(prop, errs)
            res["failing_theorems"] = failing
            res["problems"].append("proof obligations no longer check: "
                                   + (("theorem(s) " + ", ".join(failing[:12]) + " — ") if failing else "")
                                   + " | ".join(errs[:8]))
            res["build_log"] = tail(out, 80)
    names = theorem_names(prop)
    res["theorems"] = names
    if res["build_ok"]:
        audit = os.path.join(WORK, f"Audit_{prop}.lean")
        with open(audit, "w") as f:
            f.write(f"import Compass.Props.{prop}\n")
            for n in names:
                f.write(f"#print axioms {n}\n")
        rc, out, dt = sh(["lake", "env", "lean", audit], cwd=LEAN, timeout=1200)
        log.append(f"[axiom audit {dt:.1f}s rc={rc}]")
        if rc != 0:
            res["problems"].append("axiom audit failed: " + tail(out, 20))
        cur = None
        text = out.replace("\n  ", " ")
        for m in re.finditer(r"'(\S+)' (does not depend on any axioms|depends on axioms: \[([^\]]*)\])", text):
            nm = m.group(1)
            ax = set() if m.group(3) is None else {a.strip() for a in m.group(3).split(",") if a.strip()}
            res["axioms"][nm] = sorted(ax)
        for n in names:
            if n not in res["axioms"]:
                res["problems"].append(f"theorem {n}: no axiom report")
            else:
                bad = set(res["axioms"][n]) - ALLOWED_AXIOMS
                if bad:
                    res["problems"].append(f"theorem {n} depends on disallowed axioms {sorted(bad)}")
        if tier == "thorough":
            rc, out, dt = sh(["lake", "env", "leanchecker", f"Compass.Props.{prop}"], cwd=LEAN, timeout=3000)
            log.append(f"[leanchecker {dt:.1f}s rc={rc}]")
            res["leanchecker"] = rc
            if rc != 0:
                res["problems"].append("leanchecker rejected the compiled module: " + tail(out, 20))
    hits = scan_forbidden()
    if hits:
        res["problems"].append("forbidden constructs in Lean sources: " + "; ".join(hits[:5]))
    res["ok"] = not res["problems"]
    return res


def tail(s, n):
    return "\n".join(s.strip().splitlines()[-n:])


def harness_build(log):
    with Lock("cargo"):
        lock = os.path.join(HARNESS, "Cargo.lock")
        if not os.path.exists(lock):
            import shutil
            shutil.copy("/repo/rust/Cargo.lock", lock)
        rc, out, dt = sh(["cargo", "build", "--release", "--offline"], cwd=HARNESS, timeout=3000)
        log.append(f"[cargo build harness {dt:.1f}s rc={rc}]")
        if rc != 0:
            return False, tail(out, 40)
    return True, ""


# properties whose statement says that a search ENDS (no path iff unreachable; limits bound the work; KSP ends):
# an input on which the real search does not return is a failing input of these
HANG_VIOLATES = {"C05", "C10", "C13"}


def run_cases(prop, tier, seed, outdir, only=None, timeout=3000):
    """runs implementation and model; returns dict"""
    os.makedirs(outdir, exist_ok=True)
    for fn in ["cases.txt", "impl.txt", "oracle.txt", "stats.json", "model.txt"]:
        try:
            os.remove(os.path.join(outdir, fn))
        except FileNotFoundError:
            pass
    cmd = [CVH, prop, "--seed", str(seed), "--tier", tier, "--out", outdir]
    if only is not None:
        cmd += ["--only", str(only)]
    rc, out, dt = sh(cmd, cwd=VERIF, timeout=timeout)
    r = {"cvh_rc": rc, "cvh_out": tail(out, 20), "cvh_s": dt}
    hang = os.path.join(outdir, "hang.json")
    if rc == 3 and os.path.exists(hang):
        # the harness's watchdog: a call of the real search did not return (the input is in the file)
        try:
            r["hang"] = json.load(open(hang))
        except Exception:
            r["hang"] = {"kind": "a call of the real search did not return", "file": hang}
        os.remove(hang)
    if rc != 0 or not os.path.exists(os.path.join(outdir, "cases.txt")):
        r["error"] = f"harness run failed rc={rc}: {tail(out, 20)}"
        return r
    with open(os.path.join(outdir, "cases.txt")) as fin, open(os.path.join(outdir, "model.txt"), "w") as fout:
        t0 = time.time()
        p = subprocess.run([DRIVER, prop], stdin=fin, stdout=fout, stderr=subprocess.PIPE, timeout=timeout)
        r["driver_s"] = time.time() - t0
        if p.returncode != 0:
            r["error"] = f"driver failed rc={p.returncode}: {p.stderr.decode(errors='replace')[-2000:]}"
            return r
    cases = open(os.path.join(outdir, "cases.txt")).read().splitlines()
    impl = open(os.path.join(outdir, "impl.txt")).read().splitlines()
    model = open(os.path.join(outdir, "model.txt")).read().splitlines()
    r["stats"] = json.load(open(os.path.join(outdir, "stats.json")))
    r["n"] = len(cases)
    mism = []
    if not (len(cases) == len(impl) == len(model)):
        r["error"] = f"line counts differ: cases {len(cases)} impl {len(impl)} model {len(model)}"
        return r
    for c, a, b in zip(cases, impl, model):
        if a != b:
            idx = c.split(" ", 1)[0]
            mism.append({"index": int(idx), "case": c, "impl": a, "model": b})
    r["mismatches"] = mism
    orc = []
    for line in open(os.path.join(outdir, "oracle.txt")).read().splitlines():
        parts = line.split(" ", 2)
        orc.append({"index": int(parts[0]), "key": parts[1], "msg": parts[2] if len(parts) > 2 else ""})
    r["oracle"] = orc
    r["case_by_index"] = {int(c.split(" ", 1)[0]): c for c in cases}
    return r


def load_known(prop):
    known, fixed = [], []
    p = os.path.join(VERIF, "known_findings.txt")
    if os.path.exists(p):
        for line in open(p):
            line = line.strip()
            if not line or line.startswith("#"):
                continue
            m = re.match(r"known: property=(\S+) key=(\S+) (.*)", line)
            if m and m.group(1) == prop:
                known.append({"key": m.group(2), "text": m.group(3).lstrip("—- ").strip()})
            m = re.match(r"fixed: property=(\S+) (\S+) (.*)", line)
            if m and m.group(1) == prop:
                fixed.append({"commit": m.group(2), "text": m.group(3)})
    return known, fixed


def clip(s, n=4000):
    return s if len(s) <= n else s[:n] + "…"


def main():
    args = sys.argv[1:]
    if not args:
        print(__doc__)
        return 2
    prop = args[0]
    tier = os.environ.get("VERIF_TIER", "quick")
    seed = int(os.environ.get("VERIF_SEED", "20260926"))
    replay = None
    i = 1
    while i < len(args):
        if args[i] == "--tier":
            tier = args[i + 1]; i += 2
        elif args[i] == "--seed":
            seed = int(args[i + 1]); i += 2
        elif args[i] == "--replay":
            replay = args[i + 1]; i += 2
        else:
            print("unknown argument", args[i]); return 2
    if tier not in ("quick", "thorough"):
        tier = "quick"
    t0 = time.time()
    log = []
    os.makedirs(WORK, exist_ok=True)
    os.makedirs(EVID, exist_ok=True)
    replay_dir = os.path.join(WORK, "replays")
    os.makedirs(replay_dir, exist_ok=True)
    evidence_path = os.path.join(EVID, prop + ".json")

    only = None
    if replay:
        rp = json.load(open(replay))
        seed = rp.get("seed", seed)
        tier = rp.get("tier", tier)
        only = rp.get("index")
        print(f"replaying {replay}: property={prop} seed={seed} tier={tier} index={only}")

    lean = lean_stage(prop, tier, log)
    ok_h, herr = harness_build(log)
    violations = []      # (replay_path, suffix)
    known_lines = []
    run = None
    known, fixed = load_known(prop)
    outdir = os.path.join(WORK, prop)

    def write_replay(name, obj):
        path = os.path.join(replay_dir, f"{prop}_{name}.json")
        obj = dict(obj)
        obj.setdefault("property", prop)
        obj.setdefault("seed", seed)
        obj.setdefault("tier", tier)
        obj["how_to_replay"] = f"cd /verif && python3 tools/check.py {prop} --replay {path}"
        with open(path, "w") as f:
            json.dump(obj, f, indent=1)
        return path

    tie_broken = list(lean["problems"])
    hang_reported = False
    if not ok_h:
        tie_broken.append("harness does not build against /repo's working tree: " + herr)
    elif not lean["driver_ok"]:
        pass
    else:
        # the quick tier runs in about a minute on the unchanged tree: a run that is not back after twenty is a
        # search (or a child) that no longer ends — reported as a broken correspondence, not waited for
        run = run_cases(prop, tier, seed, outdir, only=only, timeout=1200 if tier == "quick" else 3000)
        if "error" in run:
            tie_broken.append("correspondence run failed: " + run["error"])
        if run.get("hang"):
            h = run["hang"]
            tie_broken.append(f"a call of the real search did not return (case #{h.get('index')}, waited {h.get('seconds_waited', 0):.0f} s)")
            if prop in HANG_VIOLATES:
                # the property itself says the search ends: the input is a failing input
                path = write_replay("oracle_search_does-not-return", {
                    "kind": "implementation violates the property on a concrete input: the search does not return",
                    "key": "search/does-not-return", **h, "broken_tie": list(tie_broken),
                })
                violations.append((path, ""))
                hang_reported = True

    unknown_oracle = []
    mism = []
    if run and "error" not in run:
        mism = run["mismatches"]
        seen_keys = {}
        for o in run["oracle"]:
            seen_keys.setdefault(o["key"], []).append(o)
        known_keys = {k["key"]: k for k in known}
        for key, items in seen_keys.items():
            if key in known_keys:
                known_lines.append(f"KNOWN-FINDING: property={prop} {known_keys[key]['text']} [key={key}, {len(items)} case(s) this run, e.g. #{items[0]['index']}: {clip(items[0]['msg'], 300)}]")
            else:
                unknown_oracle.append((key, items))
        if mism:
            tie_broken.append(f"correspondence: implementation and model differ on {len(mism)} of {run['n']} cases (first: #{mism[0]['index']})")

    # direct violations found by the oracle on the real code
    for key, items in unknown_oracle:
        it = items[0]
        path = write_replay("oracle_" + re.sub(r"[^A-Za-z0-9_.-]", "_", key), {
            "kind": "implementation violates the property on a concrete input",
            "key": key, "index": it["index"], "message": it["msg"],
            "case": clip(run["case_by_index"].get(it["index"], "")),
            "count_this_run": len(items),
            "broken_tie": tie_broken,
        })
        violations.append((path, ""))

    widened = None
    if tie_broken and not unknown_oracle and ok_h and lean["driver_ok"] and not replay and not hang_reported and not (run and run.get("hang")):
        # a proof / the translator / the correspondence broke but no concrete failing input yet: widen the search
        widened = {"seeds": 0, "cases": 0}
        budget = 240 if tier == "quick" else 1200
        tw = time.time()
        k = 0
        found = None
        while time.time() - tw < budget and k < 12 and not found:
            k += 1
            s2 = seed + 7919 * k
            r2 = run_cases(prop, "thorough" if k > 1 else tier, s2, os.path.join(WORK, prop + "_widen"), timeout=budget)
            widened["seeds"] += 1
            if "error" in r2:
                continue
            widened["cases"] += r2["n"]
            kk = {x["key"] for x in known}
            for o in r2["oracle"]:
                if o["key"] not in kk:
                    found = (s2, "thorough" if k > 1 else tier, o, r2["case_by_index"].get(o["index"], ""))
                    break
        if found:
            s2, t2, o, case = found
            path = write_replay("oracle_widened", {
                "kind": "implementation violates the property on a concrete input (found by widened search)",
                "seed": s2, "tier": t2, "key": o["key"], "index": o["index"], "message": o["msg"], "case": clip(case),
                "broken_tie": tie_broken,
            })
            violations.append((path, ""))
        else:
            first = mism[0] if mism else None
            path = write_replay("tie", {
                "kind": "the tie between model and code, or a proof obligation, no longer checks; no failing input found",
                "no_longer_checks": tie_broken,
                "lean_build_log": lean.get("build_log", ""),
                "first_disagreement": first and {k: clip(str(v)) for k, v in first.items()},
                "index": first and first["index"],
                "widened_search": widened,
            })
            violations.append((path, " no-failing-input-found"))
    elif tie_broken and not unknown_oracle and not hang_reported:
        path = write_replay("tie", {
            "kind": "the tie between model and code, or a proof obligation, no longer checks",
            "no_longer_checks": tie_broken, "lean_build_log": lean.get("build_log", ""),
            "first_disagreement": (mism[0] if mism else None),
            "search_that_did_not_return": (run or {}).get("hang") if run else None,
        })
        violations.append((path, " no-failing-input-found"))

    # evidence
    names = lean["theorems"]
    discharged = 0
    if lean["build_ok"]:
        discharged = sum(1 for n in names if n in lean["axioms"] and not (set(lean["axioms"][n]) - ALLOWED_AXIOMS))
    stats = (run or {}).get("stats", {}) if run else {}
    cov = {
        "obligations": len(names),
        "discharged": discharged,
        "checker_cmd": f"cd /verif/lean && lake build Compass.Props.{prop} && lake env lean ../work/Audit_{prop}.lean" + (f" && lake env leanchecker Compass.Props.{prop}" if tier == "thorough" else ""),
        "trusted_base": TRUSTED_BASE,
        "theorems": [{"name": n, "axioms": lean["axioms"].get(n)} for n in names],
        "leanchecker_rc": lean.get("leanchecker"),
        "translator_ok": lean["translator_ok"],
        "evaluations": stats.get("evaluations", 0),
        "distinct_nontrivial": stats.get("distinct_nontrivial", 0),
        "rule": stats.get("rule", ""),
        "samples": stats.get("samples", []) or ["(no cases ran)"],
        "distribution": stats.get("distribution", {}),
        "correspondence": {
            "cases_compared": (run or {}).get("n", 0) if run else 0,
            "disagreements": len(mism),
            "harness_s": (run or {}).get("cvh_s") if run else None,
            "driver_s": (run or {}).get("driver_s") if run else None,
        },
        "oracle_failures_known": sum(1 for _ in known_lines),
        "oracle_failures_unlisted": len(unknown_oracle),
        "widened_search": widened,
        "known_findings_listed": known,
        "fixed_findings_listed": fixed,
        "problems": tie_broken,
        "log": log,
    }
    ev = {
        "property_id": prop,
        "tier": tier,
        "seed": seed,
        "level": "proof",
        "coverage": cov,
        "assumptions": TRUSTED_BASE,
        "wall_s": round(time.time() - t0, 2),
        "violations": len(violations),
    }
    with open(evidence_path, "w") as f:
        json.dump(ev, f, indent=1)

    for l in log:
        print(l)
    print(f"{prop}: theorems {discharged}/{len(names)} discharged; correspondence {cov['correspondence']['cases_compared']} cases, {len(mism)} disagreements; oracle: {len(unknown_oracle)} unlisted key(s), {len(known_lines)} known; {ev['wall_s']}s")
    if replay and run and "error" not in run:
        for c in list(run["case_by_index"].values())[:3]:
            print("case :", clip(c, 2000))
        for l in open(os.path.join(outdir, "impl.txt")).read().splitlines()[:3]:
            print("impl :", clip(l, 2000))
        for l in open(os.path.join(outdir, "model.txt")).read().splitlines()[:3]:
            print("model:", clip(l, 2000))
        for o in run["oracle"][:5]:
            print("oracle:", o)
    for l in known_lines:
        print(l)
    for p in tie_broken:
        print("BROKEN:", clip(p, 1500))
    for path, suffix in violations:
        print(f"VIOLATION property={prop} replay={path}{suffix}")
    return 1 if violations else 0


if __name__ == "__main__":
    sys.exit(main())
