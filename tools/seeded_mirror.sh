#!/bin/sh
# Like tools/seeded.sh, but on a scratch mirror (/tmp/seedrun/{repo,verif}) so that /repo itself is not
# touched while other work builds against it: tools/seeded_mirror.sh <seeded-dir> [tier] [property-override]
set -u
dir=$(readlink -f "$1"); tier="${2:-quick}"
prop="${3:-$(python3 -c "import json,sys; print(json.load(open('$dir/meta.json'))['property'])")}"
M=/tmp/seedrun
mkdir -p $M
[ -d $M/repo ] || git -C /repo worktree add -q --detach $M/repo HEAD
(cd $M/repo && git checkout -q --detach $(git -C /repo rev-parse HEAD) && git checkout -- . )
rsync -a --delete --exclude .git --exclude work --exclude harness/target --exclude lean/.lake /verif/ $M/verif/
[ -d $M/verif/lean/.lake ] || cp -a /verif/lean/.lake $M/verif/lean/.lake
[ -d $M/verif/harness/target ] || cp -a /verif/harness/target $M/verif/harness/target
sed -i "s#/repo/rust#$M/repo/rust#g" $M/verif/harness/Cargo.toml
git -C $M/repo apply "$dir/patch.diff" || { echo "patch does not apply"; exit 2; }
(cd $M/verif && VERIF_REPO=$M/repo python3 tools/check.py "$prop" --tier "$tier" > "$M/seeded_$(basename $dir)_$prop.log" 2>&1; echo "exit=$?" >> "$M/seeded_$(basename $dir)_$prop.log")
(cd $M/repo && git checkout -- .)
grep -E "^C[0-9]+:|^VIOLATION|^BROKEN|^exit" "$M/seeded_$(basename $dir)_$prop.log" | cut -c1-260
