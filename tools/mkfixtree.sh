#!/bin/sh
# scratch pair for working on a repair of the Rust code together with its model:
#   tools/mkfixtree.sh C14  ->  /tmp/vw/C14 (worktree of /verif, branch wip/C14)
#                               /tmp/fx/C14 (worktree of /repo, branch vfix/C14, starting at /repo HEAD)
# the harness of the /verif worktree is pointed at the /repo worktree (Cargo.toml marked skip-worktree so
# the path change is never committed); run the check there with VERIF_REPO=/tmp/fx/<id>.
set -e
id="$1"
[ -d "/tmp/vw/$id" ] || sh /verif/tools/mkworktree.sh "$id" >/dev/null
mkdir -p /tmp/fx
[ -d "/tmp/fx/$id" ] || git -C /repo worktree add -q "/tmp/fx/$id" -b "vfix/$id" HEAD
cd "/tmp/vw/$id"
sed -i "s#/repo/rust#/tmp/fx/$id/rust#g" harness/Cargo.toml
git update-index --skip-worktree harness/Cargo.toml
echo "/tmp/vw/$id /tmp/fx/$id"
