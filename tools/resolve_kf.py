#!/usr/bin/env python3
"""resolve a merge conflict in known_findings.txt: keep our side, and from their side only the lines
of the given properties (the branch owner's): tools/resolve_kf.py C16 [C12 ...]"""
import sys
props = sys.argv[1:]
p = '/verif/known_findings.txt'
out = []; mode = None; ours = []; theirs = []
for l in open(p).read().split('\n'):
    if l.startswith('<<<<<<< '): mode = 'o'; ours = []; theirs = []; continue
    if l == '=======' and mode == 'o': mode = 't'; continue
    if l.startswith('>>>>>>> ') and mode == 't':
        mode = None
        mine = lambda x: any(f'property={q} ' in x for q in props)
        out += [x for x in ours if not mine(x)]
        out += [x for x in theirs if mine(x)]
        continue
    (ours if mode == 'o' else theirs if mode == 't' else out).append(l)
open(p, 'w').write('\n'.join(out))
