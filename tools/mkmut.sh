#!/bin/sh
# prepare a scratch worktree of /repo and the prompt files for a fresh mutation agent:
#   tools/mkmut.sh C02 c   ->  /tmp/mut/C02c (worktree), /tmp/mut/C02c.prop.txt, /tmp/mut/C02c.prompt.txt
# the agent gets ONLY the property text and the one-line summaries of earlier deliveries to avoid.
set -e
prop="$1"; suf="$2"; id="$prop$suf"
mkdir -p /tmp/mut
[ -d "/tmp/mut/$id" ] || git -C /repo worktree add -q --detach "/tmp/mut/$id" HEAD
python3 - "$prop" "$id" <<'PY'
import json, sys, os, glob
prop, id = sys.argv[1], sys.argv[2]
for l in open('/verif/properties.jsonl'):
    p = json.loads(l)
    if p['id'] == prop:
        open(f'/tmp/mut/{id}.prop.txt', 'w').write(json.dumps(p, indent=1))
avoid = []
for m in sorted(glob.glob(f'/verif/seeded/{prop}_*/meta.json')):
    avoid.append('- ' + json.load(open(m))['summary'])
t = open('/verif/tools/MUT_PROMPT.txt').read().replace('@ID@', id).replace('@PROP@', prop)
if avoid:
    t += "\nPrevious engineers already delivered these regressions for the same property; yours must be of a DIFFERENT kind (different file or mechanism, and preferably a different clause of the property):\n" + "\n".join(avoid) + "\n"
open(f'/tmp/mut/{id}.prompt.txt', 'w').write(t)
PY
echo "/tmp/mut/$id.prompt.txt"
