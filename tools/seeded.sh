#!/bin/sh
# run a property's check against a seeded change: tools/seeded.sh <seeded-dir> [tier] [property-override]
# applies <dir>/patch.diff to /repo, runs the check named in <dir>/meta.json, and always reverts /repo.
set -u
dir="$1"; tier="${2:-quick}"
prop="${3:-$(python3 -c "import json,sys; print(json.load(open('$dir/meta.json'))['property'])")}"
cd /verif
if ! git -C /repo diff --quiet; then echo "refusing: /repo has uncommitted changes"; exit 2; fi
git -C /repo apply "$dir/patch.diff" || { echo "patch does not apply"; exit 2; }
python3 tools/check.py "$prop" --tier "$tier" > "work/seeded_$(basename $dir).log" 2>&1
rc=$?
git -C /repo checkout -- .
python3 tools/gen_model.py > /dev/null
# restore the evidence file from a run on the unchanged tree
python3 tools/check.py "$prop" --tier quick > /dev/null 2>&1
grep -E "^C[0-9]+:|^VIOLATION|^BROKEN|^KNOWN" "work/seeded_$(basename $dir).log" | cut -c1-300
echo "exit=$rc"
exit 0
