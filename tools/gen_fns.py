#!/usr/bin/env python3
"""Function-level translator: the bodies of the small pure decision functions of /repo's Rust source
are re-translated on every run into Lean definitions (lean/Compass/Gen/Fns<prop>.lean, one file per owning property, generated, never
hand-edited).  For each one a theorem `gen_<fn>_eq` in the owning property file proves that the generated
definition equals the hand-written model function the property theorems are about; a source change to
such a function changes the generated definition and that proof stops checking.

Pipeline: tokenizer -> recursive-descent parser for a Rust *expression subset* -> printer to Lean 4 over
the model's number classes (Model/Num.lean).  The translator is in the trusted base, so it refuses rather
than guesses: anything outside the subset makes the one function "not recognised" (nothing is emitted for
it, only the theorems citing it fail to elaborate); the translator as a whole does not fail.

What the translation means (the conventions the printer applies, all visible in the generated text):
* the number newtypes (`Cost`, `StateVar`, `Distance`, `Time`, `Speed`, `f64`, ...) are one type `α`;
  their wrappers/unwrappers (`Cost::new(x)`, `StateVar(x)`, `.0`, `.as_f64()`), `*deref`, `&ref`,
  `.clone()`, `.to_owned()` are erased; `X::ZERO`/`X::ONE` are `zero`/`one`, a float literal is `Lit.lit n d`;
* `usize`/`u64`/`u32` are `Nat` (addition and multiplication are taken without overflow; subtraction is
  refused; `a % b`, `a / b` put the test `b = 0` in front: the result is `none`), `u64 as usize` is the
  identity (64-bit target), `a.saturating_mul(b)` is `min (a*b) (2^64-1)`; `Duration` is `Nat` (ns);
* a function that returns `Result<T, E>` (or has a partial operation) returns `Option T`: `none` is "no
  `Ok` value" (an `Err`, whose payload is dropped, or a panic);
* `xs.iter().fold(init, |acc, x| body)` / `try_fold` become an auxiliary recursive function over the list
  (`<fn>_fold<k>`), mutual with the function when the closure calls it;
* `match self { Enum::Variant {..} => .. }` becomes a match over the model's inductive type, through the
  variant table below (Rust field name -> position in the Lean constructor).

Substitutions that are NOT translations (stated here because the generated text shows only their result):
`externs` replaces named external calls by model parameters (the elapsed time of
`TerminationModel::terminate_search` — `Instant::now().duration_since(..)` and the hook's `verif_clock::elapsed` —
becomes the model's virtual clock `baseNs + perNs * iteration`), `drop` removes parameters the model does not have
(`start_time`), `+field` adds model-only constructor fields.  Float division is the field's (`x / 0 = 0`, no
`inf` / NaN) and comparisons are the order's (no NaN): a `gen_*_eq` theorem speaks for the code only where the
divisor is non-zero and the operands are numbers; unsigned counters are `Nat` (no wrap).
"""
import os
import re
from fractions import Fraction

HERE = os.path.dirname(os.path.abspath(__file__))
OUT_DIR = os.path.join(os.path.dirname(HERE), "lean", "Compass", "Gen")


class NotRecognised(Exception):
    pass


def refuse(msg):
    raise NotRecognised(msg)


# ---------------------------------------------------------------------------------------------------
# tokenizer
TOKEN_RE = re.compile(r"""
   (?P<ws>\s+)
 | (?P<lcomment>//[^\n]*)
 | (?P<bcomment>/\*.*?\*/)
 | (?P<str>b?"(?:[^"\\]|\\.)*")
 | (?P<life>'[A-Za-z_]\w*(?!'))
 | (?P<char>'(?:[^'\\]|\\.)')
 | (?P<float>\d[\d_]*\.\d[\d_]*(?:[eE][-+]?\d+)?(?:f64|f32)?|\d[\d_]*[eE][-+]?\d+(?:f64|f32)?|\d[\d_]*(?:f64|f32))
 | (?P<int>\d[\d_]*(?:usize|u64|u32|u16|u8|isize|i64|i32|i16|i8)?)
 | (?P<id>[A-Za-z_]\w*)
 | (?P<punct>::|=>|->|==|!=|<=|>=|&&|\|\||\.\.=|\.\.|\+=|-=|\*=|/=|[-+*/%<>=!&|.,;:(){}\[\]\#?@^~$])
""", re.X | re.S)


def tokenize(src):
    toks, i = [], 0
    while i < len(src):
        m = TOKEN_RE.match(src, i)
        if not m:
            refuse(f"tokenizer: unexpected character {src[i]!r}")
        i = m.end()
        k = m.lastgroup
        if k in ("ws", "lcomment", "bcomment"):
            continue
        toks.append((k, m.group(k)))
    return toks


# ---------------------------------------------------------------------------------------------------
# parser (types, patterns, expressions, blocks) — the subset only; everything else raises NotRecognised
BINOPS = [["||"], ["&&"], ["==", "!=", "<", ">", "<=", ">="], ["+", "-"], ["*", "/", "%"]]


class Parser:
    def __init__(self, toks, pos=0):
        self.t, self.p = toks, pos

    def peek(self, k=0):
        return self.t[self.p + k][1] if self.p + k < len(self.t) else None

    def kind(self, k=0):
        return self.t[self.p + k][0] if self.p + k < len(self.t) else None

    def next(self):
        if self.p >= len(self.t):
            refuse("parser: unexpected end of input")
        v = self.t[self.p][1]
        self.p += 1
        return v

    def eat(self, v):
        if self.peek() == v:
            self.p += 1
            return True
        return False

    def expect(self, v):
        if self.peek() != v:
            refuse(f"parser: expected {v!r}, found {self.peek()!r}")
        self.p += 1

    def ident(self):
        if self.kind() != "id":
            refuse(f"parser: expected an identifier, found {self.peek()!r}")
        return self.next()

    # --- types: (name, [args]); references and lifetimes erased
    def ty(self):
        if self.eat("&"):
            if self.kind() == "life":
                self.next()
            if self.peek() == "mut":
                refuse("type: &mut")
            return self.ty()
        if self.eat("("):
            ts = []
            while not self.eat(")"):
                ts.append(self.ty())
                if not self.eat(","):
                    self.expect(")")
                    break
            return ("(tuple)", ts)
        if self.eat("["):
            t = self.ty()
            self.expect("]")
            return ("(slice)", [t])
        if self.peek() in ("impl", "dyn", "fn"):
            refuse(f"type: {self.peek()}")
        name = self.ident()
        while self.eat("::"):
            name = self.ident()
        args = []
        if self.eat("<"):
            while True:
                if self.kind() == "life":
                    self.next()
                else:
                    args.append(self.ty())
                if self.eat(">"):
                    break
                self.expect(",")
        return (name, args)

    # --- patterns
    def pat(self):
        if self.eat("_"):
            return ("wild",)
        if self.eat("&"):
            return self.pat()
        if self.peek() in ("mut", "ref"):
            refuse(f"pattern: {self.peek()}")
        if self.eat("("):
            ps = []
            while not self.eat(")"):
                ps.append(self.pat())
                if not self.eat(","):
                    self.expect(")")
                    break
            return ("tuple", ps)
        if self.kind() == "int":
            return ("lit", self.next())
        if self.kind() != "id":
            refuse(f"pattern: unexpected {self.peek()!r}")
        segs = [self.ident()]
        while self.eat("::"):
            segs.append(self.ident())
        if self.eat("("):
            ps = []
            while not self.eat(")"):
                ps.append(self.pat())
                if not self.eat(","):
                    self.expect(")")
                    break
            return ("tstruct", segs, ps)
        if self.eat("{"):
            fs, rest = [], False
            while not self.eat("}"):
                if self.eat(".."):
                    rest = True
                else:
                    f = self.ident()
                    fs.append((f, self.pat() if self.eat(":") else ("bind", f)))
                if not self.eat(","):
                    self.expect("}")
                    break
            return ("struct", segs, fs, rest)
        if self.peek() in ("..", "..=", "@"):
            refuse("pattern: range / binding pattern")
        if len(segs) == 1 and (segs[0][0].islower() or segs[0][0] == "_"):
            return ("bind", segs[0])
        return ("path", segs)

    # --- expressions
    def expr(self):
        return self.binop(0)

    def binop(self, lvl):
        if lvl == len(BINOPS):
            return self.cast()
        l = self.binop(lvl + 1)
        while self.peek() in BINOPS[lvl]:
            op = self.next()
            r = self.binop(lvl + 1)
            l = ("binary", op, l, r)
            if lvl == 2:      # comparisons do not chain
                break
        return l

    def cast(self):
        e = self.unary()
        while self.eat("as"):
            e = ("cast", e, self.ty())
        return e

    def unary(self):
        if self.peek() in ("-", "!", "*", "&"):
            op = self.next()
            if op == "&" and self.peek() == "mut":
                refuse("expression: &mut")
            return ("unary", op, self.unary())
        return self.postfix()

    def args(self):
        xs = []
        while not self.eat(")"):
            xs.append(self.expr())
            if not self.eat(","):
                self.expect(")")
                break
        return xs

    def postfix(self):
        e = self.primary()
        while True:
            if self.eat("."):
                if self.kind() == "int":
                    e = ("field", e, self.next())
                    continue
                if self.kind() == "float":
                    refuse("expression: nested tuple field")
                name = self.ident()
                if name == "await":
                    refuse("expression: await")
                tf = []
                if self.peek() == "::":        # turbofish
                    self.next()
                    self.expect("<")
                    while True:
                        tf.append(self.ty())
                        if self.eat(">"):
                            break
                        self.expect(",")
                if self.eat("("):
                    e = ("mcall", e, name, self.args(), tf)
                else:
                    e = ("field", e, name)
            elif self.peek() == "(":
                self.next()
                e = ("call", e, self.args())
            elif self.eat("?"):
                e = ("try", e)
            elif self.peek() == "[":
                refuse("expression: indexing")
            else:
                return e

    def primary(self):
        k, v = self.kind(), self.peek()
        if k == "int":
            self.next()
            return ("int", v)
        if k == "float":
            self.next()
            return ("float", v)
        if k in ("str", "char", "life"):
            refuse("expression: string / char literal")
        if v in ("true", "false"):
            self.next()
            return ("bool", v == "true")
        if v == "(":
            self.next()
            xs = []
            trailing = False
            while not self.eat(")"):
                xs.append(self.expr())
                trailing = False
                if self.eat(","):
                    trailing = True
                else:
                    self.expect(")")
                    break
            if len(xs) == 1 and not trailing:
                return xs[0]
            return ("tuple", xs)
        if v == "|":
            self.next()
            ps = []
            while not self.eat("|"):
                ps.append(self.pat())
                if self.eat(":"):
                    self.ty()
                if not self.eat(","):
                    self.expect("|")
                    break
            return ("closure", ps, self.expr())
        if v == "if":
            return self.if_()
        if v == "match":
            return self.match_()
        if v == "{":
            return self.block()
        if v in ("return", "break", "continue", "loop", "while", "for", "move", "unsafe", "let"):
            refuse(f"expression: {v}")
        if k == "id":
            segs = [self.ident()]
            if self.peek() == "!":
                refuse(f"expression: macro {segs[0]}!")
            while self.peek() == "::":
                self.next()
                if self.peek() == "<":
                    refuse("expression: generic path")
                segs.append(self.ident())
            return ("path", segs)
        refuse(f"expression: unexpected {v!r}")

    def if_(self):
        self.expect("if")
        if self.peek() == "let":
            refuse("expression: if let")
        c = self.expr()
        a = self.block()
        if not self.eat("else"):
            refuse("expression: if without else")
        b = self.if_() if self.peek() == "if" else self.block()
        return ("if", c, a, b)

    def match_(self):
        self.expect("match")
        s = self.expr()
        self.expect("{")
        arms = []
        while not self.eat("}"):
            p = self.pat()
            if self.peek() == "|":
                refuse("match: alternative patterns")
            if self.peek() == "if":
                refuse("match: arm guard")
            self.expect("=>")
            e = self.expr()
            arms.append((p, e))
            if not self.eat(","):
                if e[0] != "block" and self.peek() != "}":
                    refuse("match: missing comma")
        return ("match", s, arms)

    def block(self):
        self.expect("{")
        stmts = []
        while True:
            attrs = []
            while self.peek() == "#":
                self.next()
                self.expect("[")
                depth, txt = 1, []
                while depth:
                    x = self.next()
                    depth += (x == "[") - (x == "]")
                    if depth:
                        txt.append(x)
                attrs.append(" ".join(txt))
            for a in attrs:
                if a != 'cfg ( feature = "verif" )':
                    refuse(f"block: attribute #[{a}]")
            if self.eat("}"):
                if attrs:
                    refuse("block: dangling attribute")
                return ("block", stmts, None)
            if self.eat("use"):
                segs = [self.ident()]
                while self.eat("::"):
                    segs.append(self.ident())
                alias = self.ident() if self.eat("as") else segs[-1]
                self.expect(";")
                stmts.append(("use", segs, alias))
                continue
            if self.eat("let"):
                p = self.pat()
                if self.eat(":"):
                    self.ty()
                self.expect("=")
                e = self.expr()
                if self.peek() == "else":
                    refuse("block: let else")
                self.expect(";")
                stmts.append(("let", p, e))
                continue
            e = self.expr()
            if self.eat("}"):
                return ("block", stmts, e)
            refuse("block: expression statement")


def canon(e):
    """canonical Rust-like text of an expression (to match the `externs` of a function's configuration)"""
    k = e[0]
    if k == "path":
        return "::".join(e[1])
    if k in ("int", "float"):
        return e[1]
    if k == "bool":
        return "true" if e[1] else "false"
    if k == "unary":
        return e[1] + canon(e[2])
    if k == "binary":
        return f"({canon(e[2])} {e[1]} {canon(e[3])})"
    if k == "field":
        return f"{canon(e[1])}.{e[2]}"
    if k == "mcall":
        return f"{canon(e[1])}.{e[2]}({', '.join(canon(a) for a in e[3])})"
    if k == "call":
        return f"{canon(e[1])}({', '.join(canon(a) for a in e[2])})"
    if k == "tuple":
        return "(" + ", ".join(canon(a) for a in e[1]) + ")"
    if k == "cast":
        return f"{canon(e[1])} as {e[2][0]}"
    return "?"


def pat_names(p, acc):
    """names bound by a closure pattern"""
    if p[0] == "bind":
        acc.add(p[1])
    elif p[0] == "tuple":
        for q in p[1]:
            pat_names(q, acc)


def free_names(e, acc):
    """single-segment paths occurring in an expression (an over-approximation of its free variables)"""
    if isinstance(e, tuple):
        if e and e[0] == "path" and len(e[1]) == 1:
            acc.add(e[1][0])
        for x in e[1:]:
            free_names(x, acc)
    elif isinstance(e, list):
        for x in e:
            free_names(x, acc)


# ---------------------------------------------------------------------------------------------------
# items: enum declarations and function items, found by token scanning
def skip_attrs(P):
    while P.peek() == "#":
        P.next()
        P.expect("[")
        depth = 1
        while depth:
            x = P.next()
            depth += (x == "[") - (x == "]")


def parse_enum(toks, name):
    """{variant: [(field name | position, type)]} in declaration order"""
    for i in range(len(toks) - 2):
        if toks[i][1] == "enum" and toks[i + 1][1] == name and toks[i + 2][1] == "{":
            P = Parser(toks, i + 3)
            out = {}
            while True:
                skip_attrs(P)
                if P.eat("}"):
                    return out
                v = P.ident()
                fields = []
                if P.eat("{"):
                    while True:
                        skip_attrs(P)
                        if P.eat("}"):
                            break
                        f = P.ident()
                        P.expect(":")
                        fields.append((f, P.ty()))
                        if not P.eat(","):
                            P.expect("}")
                            break
                elif P.eat("("):
                    n = 0
                    while not P.eat(")"):
                        fields.append((str(n), P.ty()))
                        n += 1
                        if not P.eat(","):
                            P.expect(")")
                            break
                if P.peek() == "=":
                    refuse(f"enum {name}: explicit discriminant")
                out[v] = fields
                if not P.eat(","):
                    P.expect("}")
                    return out
    refuse(f"enum {name} not found")


def find_fn(toks, impl, fn):
    """position of the token after `fn <name>` inside `impl <impl> { .. }` (or at top level when impl is None)"""
    depth, in_impl, i, found = 0, None, 0, []
    while i < len(toks):
        v = toks[i][1]
        if v == "{":
            depth += 1
        elif v == "}":
            depth -= 1
            if in_impl is not None and depth == in_impl:
                in_impl = None
        elif v == "impl" and depth == 0:
            j, hdr = i + 1, []
            while toks[j][1] != "{":
                hdr.append(toks[j][1])
                j += 1
            if hdr == [impl] or " ".join(hdr) == impl:
                in_impl = 0
            i = j
            continue
        elif v == "fn" and i + 1 < len(toks) and toks[i + 1][1] == fn:
            if (impl is None and depth == 0) or (impl is not None and in_impl is not None and depth == 1):
                found.append(i + 2)
        i += 1
    if len(found) != 1:
        refuse(f"{len(found)} definitions of fn {fn} found")
    return found[0]


def parse_fn(toks, impl, fn):
    P = Parser(toks, find_fn(toks, impl, fn))
    if P.peek() == "<":
        refuse("generic function")
    P.expect("(")
    params, has_self = [], False
    while not P.eat(")"):
        if P.peek() == "&" and P.peek(1) == "self":
            P.next(); P.next()
            has_self = True
        elif P.peek() == "self":
            P.next()
            has_self = True
        else:
            if P.peek() == "mut":
                refuse("mutable parameter")
            n = P.ident()
            P.expect(":")
            params.append((n, P.ty()))
        if not P.eat(","):
            P.expect(")")
            break
    ret = ("(tuple)", [])
    if P.eat("->"):
        ret = P.ty()
    if P.peek() == "where":
        refuse("where clause")
    body = P.block()
    return has_self, params, ret, body


# ---------------------------------------------------------------------------------------------------
# configuration: what the Rust names mean in the model
CORE = "rust/routee-compass-core/src"
PT = "rust/routee-compass-powertrain/src"
APP = "rust/routee-compass/src"

UNSIGNED = {"usize": 64, "u64": 64, "u32": 32, "u16": 16, "u8": 8}
SIGNED = {"isize": 64, "i64": 64, "i32": 32, "i16": 16, "i8": 8}
NUMTYPES = {"f64", "Cost", "StateVar", "Distance", "Time", "Speed", "Energy", "EnergyRate", "Grade", "Weight",
            "InternalFloat", "OrderedFloat"}
LEAN_KEYWORDS = {"fun", "from", "end", "at", "open", "in", "then", "else", "if", "with", "do", "let", "have", "show",
                 "by", "match", "def", "theorem", "where", "at", "instance", "class", "structure", "namespace",
                 "section", "variable", "import", "Type", "Prop", "Sort", "this", "calc", "using", "deriving", "mutual",
                 "xs_", "rest_", "acc_", "self_"}

# unit enums (generated in Gen/Units.lean, `convert` in Model/Units.lean)
UNITS = {"DistanceUnit", "TimeUnit", "SpeedUnit", "EnergyUnit", "GradeUnit", "WeightUnit"}
UNIT_CONSTS = {"BASE_DISTANCE_UNIT": ("baseDistanceUnit", "DistanceUnit"), "BASE_TIME_UNIT": ("baseTimeUnit", "TimeUnit"),
               "BASE_SPEED_UNIT": ("baseSpeedUnit", "SpeedUnit")}
# identifier newtypes over usize (`EdgeId(pub usize)`): Nat, compared only
IDTYPES = {"EdgeId", "VertexId"}
# structs that the model represents by one of their fields: a value of the struct *is* that field
# (fields: Rust field -> (projection applied to the Lean value, Rust type); fields not listed are not representable)
STRUCTS = {
    "Edge": dict(lean="Nat", fields={"edge_id": ("", ("EdgeId", []))}),
    # the model's `Int × Option Int`: (arrival heading, optional departure heading)
    # `VehicleParams α` of Model/Instance.lean; `number_of_axles` is held as the number `number_of_axles as f64`
    "VehicleParameters": dict(lean="(VehicleParams α)", poly=True, imp="Compass.Model.Instance",
                              file=APP + "/app/compass/config/frontier_model/vehicle_restrictions/vehicle_parameters.rs",
                              fields={"height": (".height", ("(tuple)", [("Distance", []), ("DistanceUnit", [])])),
                                      "width": (".width", ("(tuple)", [("Distance", []), ("DistanceUnit", [])])),
                                      "total_length": (".totalLength", ("(tuple)", [("Distance", []), ("DistanceUnit", [])])),
                                      "trailer_length": (".trailerLength", ("(tuple)", [("Distance", []), ("DistanceUnit", [])])),
                                      "total_weight": (".totalWeight", ("(tuple)", [("Weight", []), ("WeightUnit", [])])),
                                      "number_of_axles": (None, ("u8", []))}),
    "EdgeHeading": dict(lean="(Int × Option Int)", file=CORE + "/model/access/default/turn_delays/edge_heading.rs",
                        fields={"arrival_heading": (".1", ("i16", [])), "departure_heading": (".2", ("Option", [("i16", [])]))}),
}


# Rust enum -> the model's inductive type.  variants: Rust variant -> (Lean constructor, positional arguments);
# an argument is a Rust field name (tuple variants: "0", "1", …) or "+name:type" for an argument only the
# model's constructor has (bound under that name; see the function's `externs`).
ENUMS = {
    "TerminationModel": dict(lean="TermM", poly=False, imp="Compass.Model.Instance", file=CORE + "/model/termination/termination_model.rs", variants={
        "QueryRuntimeLimit": ("runtime", ["limit", "frequency", "+baseNs:Duration", "+perNs:Duration"]),
        "SolutionSizeLimit": ("size", ["limit"]),
        "IterationsLimit": ("iters", ["limit"]),
        "Combined": ("combined", ["models"])}),
    "KspTerminationCriteria": dict(lean="KspTerm", poly=False, imp="Compass.Model.Ksp", file=CORE + "/algorithm/search/ksp/ksp_termination_criteria.rs", variants={
        "Exact": ("exact", []),
        "MaxIteration": ("maxIteration", ["max"]),
        "Factor": ("factor", ["factor"])}),
    "CostAggregation": dict(lean="CostAggregation", poly=False, imp="Compass.Model.Cost", file=CORE + "/model/cost/cost_aggregation.rs", variants={
        "Sum": ("sum", []),
        "Mul": ("mul", [])}),
    "VehicleCostRate": dict(lean="VehicleCostRate", poly=True, imp="Compass.Model.Cost", file=CORE + "/model/cost/vehicle/vehicle_cost_rate.rs", variants={
        "Zero": ("zero", []),
        "Raw": ("raw", []),
        "Factor": ("factor", ["factor"]),
        "Offset": ("offset", ["offset"]),
        "Combined": ("combined", ["0"])}),
    "NetworkCostRate": dict(lean="NetworkCostRate", poly=True, imp="Compass.Model.Cost", file=CORE + "/model/cost/network/network_cost_rate.rs", variants={
        "Zero": ("zero", []),
        "EdgeLookup": ("edgeLookup", ["lookup"]),
        "EdgeEdgeLookup": ("edgeEdgeLookup", ["lookup"]),
        "Combined": ("combined", ["0"])}),
}

# functions, in the order of the generated file
FUNCS = [
    dict(file=CORE + "/model/termination/termination_model.rs", impl="TerminationModel", fn="terminate_search", owner="C10",
         drop=["start_time"],
         # the elapsed time is the model's virtual clock `baseNs + perNs * iteration` (the harness's
         # `verif_clock`; in production it is the wall clock, an input the model does not have)
         externs={"Instant::now().duration_since(*start_time)": ("(baseNs + perNs * iteration)", "Duration"),
                  "verif_clock::elapsed(iteration).unwrap_or(dur)": ("(baseNs + perNs * iteration)", "Duration")}),
    dict(file=CORE + "/algorithm/search/ksp/ksp_termination_criteria.rs", impl="KspTerminationCriteria", fn="terminate_search", owner="C13"),
    dict(file=CORE + "/model/cost/cost_aggregation.rs", impl="CostAggregation", fn="agg", owner="C07"),
    dict(file=CORE + "/model/cost/vehicle/vehicle_cost_rate.rs", impl="VehicleCostRate", fn="map_value", owner="C07"),
    dict(file=CORE + "/model/unit/cost.rs", impl="Cost", fn="enforce_strictly_positive", owner="C07"),
    dict(file=CORE + "/model/unit/cost.rs", impl="Cost", fn="enforce_non_negative", owner="C07"),
    # the two state variables are not looked at by the code (they are only handed on to the members)
    dict(file=CORE + "/model/cost/network/network_cost_rate.rs", impl="NetworkCostRate", fn="traversal_cost", owner="C07",
         drop=["_prev_state_var", "_next_state_var"]),
    dict(file=CORE + "/model/cost/network/network_cost_rate.rs", impl="NetworkCostRate", fn="access_cost", owner="C07",
         drop=["_prev_state_var", "_next_state_var"]),
    # the two From impls `(d, s).into()` / `(d, t).into()` resolve to, then the constructors
    dict(file=CORE + "/model/unit/time.rs", impl=None, impl_header="From < ( Distance , Speed ) > for Time", fn="from", owner="C09",
         lean="Time_from_Distance_Speed", label="From<(Distance, Speed)> for Time", self_type="Time", into=(("Distance", "Speed"), "Time")),
    dict(file=CORE + "/model/unit/speed.rs", impl=None, impl_header="From < ( Distance , Time ) > for Speed", fn="from", owner="C09",
         lean="Speed_from_Distance_Time", label="From<(Distance, Time)> for Speed", self_type="Speed", into=(("Distance", "Time"), "Speed")),
    dict(file=CORE + "/model/unit/builders.rs", impl=None, fn="create_time", owner="C09"),
    dict(file=CORE + "/model/unit/builders.rs", impl=None, fn="create_speed", owner="C09"),
    dict(file=CORE + "/model/access/default/turn_delays/edge_heading.rs", impl="EdgeHeading", fn="start_heading", owner="C03"),
    dict(file=CORE + "/model/access/default/turn_delays/edge_heading.rs", impl="EdgeHeading", fn="end_heading", owner="C03"),
    dict(file=CORE + "/model/access/default/turn_delays/edge_heading.rs", impl="EdgeHeading", fn="bearing_to_destination", owner="C03"),
    # the model's `Restriction` is shaped differently (weight per-axle flag / length selector): one definition per arm
    dict(file=APP + "/app/compass/config/frontier_model/vehicle_restrictions/vehicle_restriction.rs", impl="VehicleRestriction",
         fn="valid", owner="C04", arms=True,
         externs={"vehicle_parameters.number_of_axles as f64": ("vehicle_parameters.axles", "f64")}),
    dict(file=PT + "/routee/vehicle/vehicle_ops.rs", impl=None, fn="as_soc_percent", owner="C08"),
    dict(file=PT + "/routee/vehicle/vehicle_ops.rs", impl=None, fn="soc_from_battery_and_delta", owner="C08"),
]


def const_int(e):
    """value of a constant integer expression (literals, unary minus, iN::MIN / MAX, widening casts), else None"""
    if e[0] == "int":
        return int(re.match(r"[\d_]+", e[1]).group(0).replace("_", ""))
    if e[0] == "unary" and e[1] == "-":
        v = const_int(e[2])
        return None if v is None else -v
    if e[0] == "cast":
        v = const_int(e[1])
        to = e[2][0]
        bits = SIGNED.get(to)
        if v is not None and bits and -2 ** (bits - 1) <= v < 2 ** (bits - 1):
            return v
        return None
    if e[0] == "path" and len(e[1]) == 2 and e[1][0] in SIGNED and e[1][1] in ("MIN", "MAX"):
        b = SIGNED[e[1][0]]
        return -2 ** (b - 1) if e[1][1] == "MIN" else 2 ** (b - 1) - 1
    return None


def dec_to_frac(lit):
    lit = lit.replace("_", "")
    for suf in ("f64", "f32"):
        if lit.endswith(suf):
            lit = lit[:-3]
    fr = Fraction(lit)
    n, d = fr.numerator, fr.denominator
    dd = d
    while dd % 2 == 0:
        dd //= 2
    if n >= 2 ** 53 or dd >= 2 ** 53:
        refuse(f"literal {lit} is not an exact ratio of doubles")
    return n, d


# ---------------------------------------------------------------------------------------------------
# printer.  Internal types: "usize"/"u64"/… , "i32"/… , "IntLit", "Num", "Bool", "String", "Duration",
# ("List", t), ("Prod", [t…]), ("Enum", rust name), ("Opt", t)
def is_num(t):
    return isinstance(t, str) and t.startswith("Num:")


def is_uint(t):
    return isinstance(t, str) and t in UNSIGNED


def is_key(t):
    """types compared with `==` in a lookup: identifiers, unsigned integers, tuples of them"""
    return (isinstance(t, str) and (t in IDTYPES or t in UNSIGNED)) or (t[0] == "Prod" and all(is_key(x) for x in t[1]))


def is_sint(t):
    return isinstance(t, str) and t in SIGNED


class Ctx:
    def __init__(self, cfg, repo):
        self.cfg, self.repo = cfg, repo
        self.fn = cfg["fn"]
        self.impl = cfg.get("impl")
        self.impl_find = cfg.get("impl_header", self.impl)
        self.lean_name = cfg.get("lean") or ((self.impl + "_" if self.impl else "") + self.fn)
        self.into_table = {}
        self.fn_table = {}
        self.struct_checked = set()
        self.aliases = {"Self": self.impl} if self.impl else {}
        self.guards = []
        self.aux = []          # (name, text, recursive)
        self.enum_decls = {}
        self.imports = set()
        self.uses_alpha = False

    # --- types
    def conv_type(self, t):
        name, args = t
        if name == "Self" and self.cfg.get("self_type"):
            name = self.cfg["self_type"]
        if name in UNSIGNED or name in SIGNED:
            return name
        if name == "OrderedFloat" and len(args) == 1 and args[0] == ("f64", []):
            return "Num:f64"
        if name in UNITS and not args:
            return ("Unit", name)
        if name in NUMTYPES and not args:
            return "Num:" + name
        if name == "bool":
            return "Bool"
        if name in ("String", "str"):
            return "String"
        if name == "Duration":
            return "Duration"
        if name in ("Vec", "(slice)") and len(args) == 1:
            return ("List", self.conv_type(args[0]))
        if name == "(tuple)" and len(args) >= 2:
            return ("Prod", [self.conv_type(a) for a in args])
        if name == "Option" and len(args) == 1:
            return ("Option", self.conv_type(args[0]))
        if name == "Result" and len(args) == 2:
            return ("Opt", self.conv_type(args[0]))
        if name in IDTYPES and not args:
            return name
        if name == "HashMap" and len(args) == 2:
            return ("Map", self.conv_type(args[0]), self.conv_type(args[1]))
        if name in STRUCTS and not args:
            return ("Struct", name)
        if name in ENUMS and not args:
            self.enum_decl(name)
            return ("Enum", name)
        refuse(f"type {name} is outside the subset")

    def lean_type(self, t):
        if is_uint(t) or t == "Duration" or (isinstance(t, str) and t in IDTYPES):
            return "Nat"
        if is_sint(t):
            return "Int"
        if is_num(t):
            self.uses_alpha = True
            return "α"
        if t[0] == "Unit":
            self.imports.add("Compass.Model.Units")
            return t[1]
        if t in ("Bool", "String"):
            return t
        if t[0] == "List":
            return f"(List {self.lean_type(t[1])})"
        if t[0] == "Map":
            return f"(List ({self.lean_type(t[1])} × {self.lean_type(t[2])}))"
        if t[0] == "Struct":
            st = STRUCTS[t[1]]
            if st.get("imp"):
                self.imports.add(st["imp"])
            if st.get("poly"):
                self.uses_alpha = True
            return st["lean"]
        if t[0] == "Prod":
            return "(" + " × ".join(self.lean_type(x) for x in t[1]) + ")"
        if t[0] in ("Opt", "Option"):
            return f"(Option {self.lean_type(t[1])})"
        if t[0] == "Enum":
            e = ENUMS[t[1]]
            self.imports.add(e["imp"])
            if e["poly"]:
                self.uses_alpha = True
                return f"({e['lean']} α)"
            return e["lean"]
        refuse(f"no Lean type for {t}")

    def struct_decl(self, name):
        """the declared fields of a configured struct must be the configured ones, with the configured types"""
        st = STRUCTS[name]
        if "file" not in st or name in self.struct_checked:
            return
        with open(os.path.join(self.repo, st["file"])) as f:
            toks = tokenize(f.read())
        for i in range(len(toks) - 2):
            if toks[i][1] == "struct" and toks[i + 1][1] == name and toks[i + 2][1] == "{":
                P = Parser(toks, i + 3)
                decl = {}
                while True:
                    skip_attrs(P)
                    if P.eat("}"):
                        break
                    P.eat("pub")
                    fname = P.ident()
                    P.expect(":")
                    decl[fname] = P.ty()
                    if not P.eat(","):
                        P.expect("}")
                        break
                if decl != {k: v[1] for k, v in st["fields"].items()}:
                    refuse(f"struct {name}: declared fields differ from the model's")
                self.struct_checked.add(name)
                return
        refuse(f"struct {name} not found")

    def enum_decl(self, name):
        """the declaration of a configured enum, checked against the variant table"""
        if name not in self.enum_decls:
            e = ENUMS[name]
            with open(os.path.join(self.repo, e["file"])) as f:
                decl = parse_enum(tokenize(f.read()), name)
            if set(decl) != set(e["variants"]):
                refuse(f"enum {name}: variants {sorted(decl)} differ from the model's {sorted(e['variants'])}")
            for v, (ctor, largs) in e["variants"].items():
                rust_fields = [f for f, _ in decl[v]]
                if sorted(rust_fields) != sorted(a for a in largs if not a.startswith("+")):
                    refuse(f"enum {name}::{v}: fields {rust_fields} differ from the model's")
            self.enum_decls[name] = decl
        return self.enum_decls[name]

    def name(self, n):
        return n + "'" if n in LEAN_KEYWORDS else n

    # --- guards: tests of partial operations, hoisted in front of the enclosing tail expression
    def take_guards(self, mark=0):
        g = self.guards[mark:]
        del self.guards[mark:]
        return g

    def no_guards(self, f, what):
        mark = len(self.guards)
        r = f()
        if len(self.guards) != mark:
            refuse(f"partial operation inside {what}")
        return r

    def wrap(self, guards, text):
        if guards and not self.opt:
            refuse("partial operation in a function that is not translated to Option")
        for g in reversed(guards):
            text = f"if {g} then none else {text}"
        return text

    # --- resolution of enum paths
    def resolve_variant(self, segs):
        """(enum, variant) for `Enum::Variant` / `Alias::Variant` / `Self::Variant`, else None"""
        if len(segs) != 2:
            return None
        en = self.aliases.get(segs[0], segs[0])
        if en in ENUMS and segs[1] in ENUMS[en]["variants"]:
            self.enum_decl(en)
            return en, segs[1]
        return None

    def ctor(self, en, v):
        e = ENUMS[en]
        self.imports.add(e["imp"])
        return f"{e['lean']}.{e['variants'][v][0]}"

    # --- expressions: (Lean text, type)
    def unify(self, a, b, what):
        if a == b:
            return a
        if a == "IntLit" and (is_uint(b) or is_sint(b)):
            return b
        if b == "IntLit" and (is_uint(a) or is_sint(a)):
            return a
        if is_num(a) and is_num(b) and "Num:f64" in (a, b):
            return b if a == "Num:f64" else a
        refuse(f"{what}: operand types {a} and {b}")

    def tr(self, e, env):
        k = e[0]
        c = canon(e)
        if c in self.cfg.get("externs", {}):
            text, ty = self.cfg["externs"][c]
            return text, self.conv_type((ty, []))
        if k == "int":
            m = re.fullmatch(r"([\d_]+)(\w*)", e[1])
            return m.group(1).replace("_", ""), (m.group(2) or "IntLit")
        if k == "float":
            n, d = dec_to_frac(e[1])
            self.uses_alpha = True
            return f"(Lit.lit {n} {d} : α)", "Num:f64"
        if k == "bool":
            return ("true" if e[1] else "false"), "Bool"
        if k == "path":
            return self.tr_path(e[1], env)
        if k == "unary":
            op = e[1]
            x, t = self.tr(e[2], env)
            if op in ("*", "&"):
                return x, t
            if op == "!" and t == "Bool":
                return f"(!{x})", t
            if op == "-" and (is_num(t) or is_sint(t) or t == "IntLit"):
                return f"(-{x})", t
            refuse(f"unary {op} on {t}")
        if k == "cast":
            x, t = self.tr(e[1], env)
            to = self.conv_type(e[2])
            if t == "IntLit" and (is_uint(to) or is_sint(to)):
                return x, to
            if is_uint(t) and is_uint(to) and UNSIGNED[to] >= UNSIGNED[t]:
                return x, to
            if is_sint(t) and is_sint(to) and SIGNED[to] >= SIGNED[t]:
                return x, to
            if is_sint(t) and is_sint(to):      # narrowing `as`: two's complement wrap-around
                return f"(Int.bmod {x} {2 ** SIGNED[to]})", to
            if is_uint(t) and is_uint(to):      # narrowing `as` of an unsigned integer: truncation
                return f"({x} % {2 ** UNSIGNED[to]})", to
            refuse(f"cast {t} as {to}")
        if k == "binary":
            return self.tr_binary(e, env)
        if k == "field":
            x, t = self.tr(e[1], env)
            if is_num(t) and t != "Num:f64" and e[2] == "0":
                return x, "Num:f64"
            if t[0] == "Struct" and e[2] in STRUCTS[t[1]]["fields"]:
                self.struct_decl(t[1])
                suffix, ft = STRUCTS[t[1]]["fields"][e[2]]
                if suffix is None:
                    refuse(f"field {e[2]} of {t[1]} is not held by the model as such")
                return x + suffix, self.conv_type(ft)
            refuse(f"field .{e[2]} of {t}")
        if k == "tuple" and len(e[1]) >= 2:
            xs = [self.tr(a, env) for a in e[1]]
            return "(" + ", ".join(x for x, _ in xs) + ")", ("Prod", [t for _, t in xs])
        if k == "call":
            return self.tr_call(e, env)
        if k == "mcall":
            return self.tr_mcall(e, env)
        if k == "if":
            c = self.no_guards(lambda: self.tr_prop(e[1], env), "a condition that is not in tail position")
            a, ta = self.no_guards(lambda: self.tr_block(e[2], env), "a branch")
            b, tb = self.no_guards(lambda: self.tr_block(e[3], env) if e[3][0] == "block" else self.tr(e[3], env), "a branch")
            return f"(if {c} then {a} else {b})", self.unify(ta, tb, "if")
        if k == "block":
            return self.tr_block(e, env)
        if k == "match":
            return self.tr_match_option(e, env, lambda x, en: self.no_guards(lambda: self.tr(x, en), "a match arm"))
        refuse(f"expression form `{k}` outside the subset")

    def tr_block(self, b, env):
        """a block in value position: lets, then the tail"""
        env = dict(env)
        pre = ""
        for s in b[1]:
            pre += self.tr_stmt(s, env)
        if b[2] is None:
            refuse("block without a value")
        x, t = self.tr(b[2], env)
        return (f"({pre}{x})" if pre else x), t

    def tr_stmt(self, s, env):
        if s[0] == "use":
            self.aliases[s[2]] = s[1][-1]
            return ""
        if s[0] == "let":
            p, rhs = s[1], s[2]
            x, t = self.tr(rhs, env)
            if p[0] == "wild":
                return ""
            if p[0] == "tuple":
                lp = self.bind_pat(p, t, env)
                return f"let {lp} := {x}; "
            if p[0] != "bind":
                refuse("let with a destructuring pattern")
            env[p[1]] = t
            return f"let {self.name(p[1])} := {x}; "
        refuse("statement")

    def tr_path(self, segs, env):
        if len(segs) == 1 and segs[0] not in env and segs[0] in UNIT_CONSTS:
            pass
        elif len(segs) == 1:
            n = segs[0]
            if n in env:
                return self.name(n), env[n]
            if n == "self":
                refuse("self outside a match")
            refuse(f"unknown name {n}")
        if len(segs) == 2 and segs[0] in SIGNED and segs[1] in ("MIN", "MAX"):
            return f"({const_int(('path', segs))})", segs[0]
        if len(segs) == 2 and segs[0] in NUMTYPES:
            self.uses_alpha = True
            if segs[1] == "ZERO":
                return "(Compass.zero : α)", "Num:" + segs[0]
            if segs[1] == "ONE":
                return "(Compass.one : α)", "Num:" + segs[0]
            if segs == ["Cost", "MIN_COST"]:
                self.imports.add("Compass.Gen.Consts")
                return "(Lit.lit minCostLit.1 minCostLit.2 : α)", "Num:Cost"
        if len(segs) == 1 and segs[0] in UNIT_CONSTS:
            self.imports.add("Compass.Model.Units")
            return UNIT_CONSTS[segs[0]][0], ("Unit", UNIT_CONSTS[segs[0]][1])
        if len(segs) == 2 and segs[0] in UNITS and re.fullmatch(r"[A-Z]\w*", segs[1]):
            self.imports.add("Compass.Model.Units")
            return f"({segs[0]}.{segs[1][0].lower() + segs[1][1:]} : {segs[0]})", ("Unit", segs[0])
        rv = self.resolve_variant(segs)
        if rv:
            en, v = rv
            if ENUMS[en]["variants"][v][1]:
                refuse(f"{en}::{v} used as a value")
            t = ("Enum", en)
            return f"({self.ctor(en, v)} : {self.lean_type(t)})", t
        refuse(f"path {'::'.join(segs)}")

    def tr_prop(self, e, env):
        """a condition as a Lean proposition (decidable)"""
        if e[0] == "binary" and e[1] in ("==", "!=", "<", ">", "<=", ">="):
            a, ta = self.tr(e[2], env)
            b, tb = self.tr(e[3], env)
            t = self.unify(ta, tb, e[1])
            if e[1] in ("==", "!="):
                if not (is_uint(t) or is_sint(t) or t == "Bool" or t == "Duration"):
                    refuse(f"{e[1]} on {t}")
            elif not (is_uint(t) or is_sint(t) or is_num(t) or t == "Duration"):
                refuse(f"{e[1]} on {t}")
            op = {"==": "=", "!=": "≠", "<": "<", ">": ">", "<=": "≤", ">=": "≥"}[e[1]]
            return f"{a} {op} {b}"
        if e[0] == "binary" and e[1] in ("&&", "||"):
            a = self.tr_prop(e[2], env)
            b = self.no_guards(lambda: self.tr_prop(e[3], env), "the right operand of a short-circuit operator")
            return f"({a}) {'∧' if e[1] == '&&' else '∨'} ({b})"
        x, t = self.tr(e, env)
        if t != "Bool":
            refuse(f"condition of type {t}")
        return f"{x} = true"

    def tr_binary(self, e, env):
        op = e[1]
        if op in ("==", "!=", "<", ">", "<=", ">="):
            return f"(decide ({self.tr_prop(e, env)}))", "Bool"
        if op in ("&&", "||"):
            a, ta = self.tr(e[2], env)
            b, tb = self.no_guards(lambda: self.tr(e[3], env), "the right operand of a short-circuit operator")
            if ta != "Bool" or tb != "Bool":
                refuse(f"{op} on {ta}, {tb}")
            return f"({a} {op} {b})", "Bool"
        a, ta = self.tr(e[2], env)
        b, tb = self.tr(e[3], env)
        t = self.unify(ta, tb, op)
        if is_num(t):
            if op == "%":
                refuse("% on floats")
            return f"({a} {op} {b})", t
        if t == "IntLit":
            refuse("arithmetic on two literals")
        if is_uint(t) or t == "Duration":
            if op in ("+", "*"):
                return f"({a} {op} {b})", t
            if op in ("%", "/") and is_uint(t):
                if not (e[3][0] == "int" and int(re.match(r"[\d_]+", e[3][1]).group(0).replace("_", "")) != 0):
                    self.guards.append(f"{b} = 0")
                return f"({a} {op} {b})", t
            refuse(f"{op} on unsigned integers")
        if is_sint(t):
            if op in ("+", "-", "*"):
                return f"({a} {op} {b})", t
            refuse(f"{op} on signed integers")
        refuse(f"{op} on {t}")

    def tr_call(self, e, env):
        f, args = e[1], e[2]
        if f[0] != "path":
            refuse("call of a non-path")
        segs = f[1]
        name = "::".join(segs)
        wrappers = {t for t in NUMTYPES if t != "f64"} | {t + "::new" for t in NUMTYPES} | {t + "::from" for t in NUMTYPES}
        if name in wrappers and len(args) == 1:
            x, t = self.tr(args[0], env)
            if not is_num(t):
                refuse(f"{name} of {t}")
            return x, "Num:" + segs[0]
        if name in ("Ok", "Err", "Some"):
            refuse(f"{name}(..) outside tail position")
        refuse(f"call of {name}")

    def self_call(self, recv_text, args, env):
        """a call of the function being translated"""
        ps = self.params
        if len(args) != len(ps):
            refuse("recursive call: wrong number of arguments")
        out = []
        for (pn, pt), a in zip(ps, args):
            if pn in self.cfg.get("drop", []):
                continue
            x, t = self.tr(a, env)
            self.unify(t, pt, "recursive call")
            out.append(x)
        self.recursive_calls += 1
        return f"({self.lean_name} {recv_text}" + "".join(" " + x for x in out) + ")", self.ret

    def inline_call(self, variant, args, env):
        """`Enum::Variant.f(args)` with f the function being translated and Variant a unit variant: not a
        structurally recursive call — the arm of that variant is instantiated at the arguments"""
        if self.top_arms is None:
            refuse("call on a constant variant, and the body is not a single match on self")
        if variant in self.inlining:
            refuse("call on a constant variant loops")
        arm = [b for p, b in self.top_arms if p[0] == "path" and self.resolve_variant(p[1]) == (self.impl, variant)]
        if len(arm) != 1:
            refuse(f"no arm for the constant variant {variant}")
        if len(args) != len(self.params):
            refuse("inlined call: wrong number of arguments")
        vals, binders, env2 = [], "", {}
        for (pn, pt), a in zip(self.params, args):
            if pt is None:
                continue
            x, t = self.tr(a, env)
            self.unify(t, pt, "inlined call")
            vals.append(x)
            binders += f" ({self.name(pn)} : {self.lean_type(pt)})"
            env2[pn] = pt
        self.inlining.add(variant)
        b, tb = self.no_guards(lambda: self.tr(arm[0], env2), "an inlined call")
        self.inlining.discard(variant)
        if self.opt:
            refuse("inlined call in a function translated to Option")
        self.unify(tb, self.ret, "inlined call")
        return f"((fun{binders} => {b})" + "".join(" " + v for v in vals) + ")", tb

    def tr_mcall(self, e, env):
        recv, name, args = e[1], e[2], e[3]
        if name in ("fold", "try_fold") and recv[0] == "mcall" and recv[2] == "iter" and not recv[3]:
            return self.tr_fold(recv[1], name, args, env)
        # Enum::Variant.f(..) / x.f(..) with f the function being translated
        if self.impl in ENUMS and name == self.fn:
            if recv[0] == "path" and len(recv[1]) == 1 and recv[1][0] == "self":
                refuse("recursive call on self")
            rv = self.resolve_variant(recv[1]) if recv[0] == "path" else None
            if rv and rv[0] == self.impl:
                return self.inline_call(rv[1], args, env)
            r, t = self.tr(recv, env)
            if t != ("Enum", self.impl):
                refuse(f"call of {name} on {t}")
            return self.self_call(r, args, env)
        # map.get(&key).unwrap_or(&default): the HashMap is an association list with unique keys
        if name == "unwrap_or" and len(args) == 1 and recv[0] == "mcall" and recv[2] == "get" and len(recv[3]) == 1:
            m, tm = self.tr(recv[1], env)
            if tm[0] != "Map":
                refuse(f".get() on {tm}")
            key, tk = self.tr(recv[3][0], env)
            if tk != tm[1] or not is_key(tk):
                refuse(f"lookup key of type {tk} in a map over {tm[1]}")
            d, td = self.tr(args[0], env)
            self.unify(td, tm[2], "unwrap_or")
            return f"(match List.find? (fun p_ => p_.1 == {key}) {m} with | some p_ => p_.2 | none => {d})", tm[2]
        # xs.iter().map(|x| body).collect::<Result<Vec<T>, E>>()
        if (name == "collect" and not args and recv[0] == "mcall" and recv[2] == "map" and len(recv[3]) == 1
                and recv[1][0] == "mcall" and recv[1][2] == "iter" and not recv[1][3]):
            tf = e[4]
            if not (len(tf) == 1 and tf[0][0] == "Result" and len(tf[0][1]) == 2 and tf[0][1][0][0] == "Vec"):
                refuse("collect: only into Result<Vec<_>, _>")
            return self.tr_collect(recv[1][1], recv[3][0], self.conv_type(tf[0][1][0][1][0]), env)
        r, t = self.tr(recv, env)
        if t[0] == "Struct" and (t[1], name) in self.fn_table:
            lname, ps, rt, hs = self.fn_table[(t[1], name)]
            if not hs or len(ps) != len(args) or rt[0] == "Opt":
                refuse(f"call of {t[1]}::{name}: shape")
            xs = []
            for (pn, pt), a in zip(ps, args):
                x, ta = self.tr(a, env)
                self.unify(ta, pt, f"argument of {name}")
                xs.append(x)
            return f"({lname} {r}" + "".join(" " + x for x in xs) + ")", rt
        # signed integer clamp with constant bounds lo <= hi (otherwise it panics): the std definition
        if name == "clamp" and len(args) == 2 and is_sint(t):
            lo, hi = const_int(args[0]), const_int(args[1])
            if lo is None or hi is None or lo > hi:
                refuse("clamp: bounds are not constants with min <= max")
            for b in (lo, hi):
                if not -2 ** (SIGNED[t] - 1) <= b < 2 ** (SIGNED[t] - 1):
                    refuse("clamp: bound out of the type's range")
            return f"(let x_ := {r}; if x_ < ({lo}) then ({lo}) else if x_ > ({hi}) then ({hi}) else x_)", t
        if name in ("clone", "to_owned") and not args:
            return r, t
        if name in ("as_f64", "into_inner") and not args and is_num(t):
            return r, "Num:f64"
        # f64::clamp(lo, hi) with literal bounds lo <= hi (otherwise it can panic): the std definition
        if name == "clamp" and len(args) == 2 and is_num(t) and args[0][0] == "float" and args[1][0] == "float":
            if Fraction(args[0][1].replace("_", "").replace("f64", "")) > Fraction(args[1][1].replace("_", "").replace("f64", "")):
                refuse("clamp with min > max")
            lo, _ = self.tr(args[0], env)
            hi, _ = self.tr(args[1], env)
            return f"(let x_ := {r}; if x_ < {lo} then {lo} else if x_ > {hi} then {hi} else x_)", t
        # unit.convert(&value, &target)
        if name == "convert" and len(args) == 2 and t[0] == "Unit":
            v, tv = self.tr(args[0], env)
            u, tu = self.tr(args[1], env)
            if tu != t or not is_num(tv):
                refuse(f"convert({tv}, {tu}) on {t}")
            return f"({t[1]}.convert {r} {u} {v})", tv
        # (a, b).into(): resolved through the From impls translated in the same file
        if name == "into" and not args and t[0] == "Prod" and all(is_num(x) for x in t[1]):
            key = tuple(x[4:] for x in t[1])
            if key not in self.into_table:
                refuse(f"no translated From<{key}> impl for .into()")
            fn, res = self.into_table[key]
            return f"({fn} {r})", "Num:" + res
        if name == "is_empty" and not args and t[0] == "List":
            return f"({r}.isEmpty)", "Bool"
        if name == "len" and not args and t[0] == "List":
            return f"({r}.length)", "usize"
        if name == "saturating_mul" and len(args) == 1 and is_uint(t):
            b, tb = self.tr(args[0], env)
            self.unify(t, tb, "saturating_mul")
            return f"(Nat.min ({r} * {b}) {2 ** UNSIGNED[t] - 1})", t
        if name == "map" and len(args) == 1 and t[0] == "Opt" and args[0][0] == "closure":
            ps, body = args[0][1], args[0][2]
            if len(ps) != 1 or ps[0][0] != "bind":
                refuse("map: closure parameter")
            env2 = dict(env)
            env2[ps[0][1]] = t[1]
            b, tb = self.no_guards(lambda: self.tr(body, env2), "a closure")
            return f"(match {r} with | none => none | some {self.name(ps[0][1])} => some {b})", ("Opt", tb)
        refuse(f"method .{name}() on {t}")

    def bind_pat(self, p, t, env):
        """Lean pattern for a closure / let pattern over a value of type t; binds into env"""
        if p[0] == "wild":
            return "_"
        if p[0] == "bind":
            env[p[1]] = t
            return self.name(p[1])
        if p[0] == "tuple" and t[0] == "Prod" and len(p[1]) == len(t[1]):
            return "(" + ", ".join(self.bind_pat(q, u, env) for q, u in zip(p[1], t[1])) + ")"
        refuse(f"pattern {p[0]} over {t}")

    def tr_collect(self, xs_e, clo, telem, env):
        xs, txs = self.tr(xs_e, env)
        if txs[0] != "List" or clo[0] != "closure" or len(clo[1]) != 1:
            refuse("collect: shape")
        env2 = dict(env)
        item = self.bind_pat(clo[1][0], txs[1], env2)
        bound = set()
        pat_names(clo[1][0], bound)
        rc = self.recursive_calls
        b, tb = self.no_guards(lambda: self.tr(clo[2], env2), "a closure")
        recursive = self.recursive_calls != rc
        if tb != ("Opt", telem):
            refuse(f"collect: closure of type {tb}, elements {telem}")
        used = set()
        free_names(clo[2], used)
        caps = [n for n in env if n in used and n not in bound]
        for n in list(bound) + caps:
            if self.name(n) in ("xs_", "rest_", "y_", "ys_"):
                refuse("name clash with the collect's own names")
        aux = f"{self.lean_name}_collect{len(self.aux) + 1}"
        sig = "".join(f" ({self.name(n)} : {self.lean_type(env[n])})" for n in caps)
        capargs = "".join(" " + self.name(n) for n in caps)
        lt, le = self.lean_type(txs[1]), self.lean_type(telem)
        text = (f"def {aux}{sig} (xs_ : List {lt}) : Option (List {le}) :=\n"
                f"  match xs_ with\n  | [] => some []\n"
                f"  | {item} :: rest_ =>\n    match {b} with\n    | none => none\n"
                f"    | some y_ =>\n      match {aux}{capargs} rest_ with\n      | none => none\n"
                f"      | some ys_ => some (y_ :: ys_)\n")
        self.aux.append((aux, text, recursive))
        return f"({aux}{capargs} {xs})", ("Opt", ("List", telem))

    def tr_fold(self, xs_e, kind, args, env):
        xs, txs = self.tr(xs_e, env)
        if txs[0] != "List":
            refuse(f"{kind} over {txs}")
        if len(args) != 2 or args[1][0] != "closure" or len(args[1][1]) != 2:
            refuse(f"{kind}: shape")
        init, tacc = self.tr(args[0], env)
        ps, body = args[1][1], args[1][2]
        if ps[0][0] != "bind":
            refuse(f"{kind}: accumulator pattern")
        env2 = dict(env)
        env2[ps[0][1]] = tacc
        item = self.bind_pat(ps[1], txs[1], env2)
        bound = {ps[0][1]}
        pat_names(ps[1], bound)
        rc = self.recursive_calls
        b, tb = self.no_guards(lambda: self.tr(body, env2), "a closure")
        recursive = self.recursive_calls != rc
        if kind == "fold":
            self.unify(tb, tacc, "fold")
        elif tb != ("Opt", tacc):
            refuse(f"try_fold: closure of type {tb}, accumulator {tacc}")
        used = set()
        free_names(body, used)
        caps = [n for n in env if n in used and n not in bound]
        for n in list(bound) + caps:
            if self.name(n) in ("xs_", "rest_", "acc_"):
                refuse("name clash with the fold's own names")
        aux = f"{self.lean_name}_fold{len(self.aux) + 1}"
        sig = "".join(f" ({self.name(n)} : {self.lean_type(env[n])})" for n in caps)
        capargs = "".join(" " + self.name(n) for n in caps)
        acc = self.name(ps[0][1])
        lt, la = self.lean_type(txs[1]), self.lean_type(tacc)
        if kind == "fold":
            text = (f"def {aux}{sig} (xs_ : List {lt}) ({acc} : {la}) : {la} :=\n"
                    f"  match xs_ with\n  | [] => {acc}\n"
                    f"  | {item} :: rest_ => {aux}{capargs} rest_ {b}\n")
            rt = tacc
        else:
            text = (f"def {aux}{sig} (xs_ : List {lt}) ({acc} : {la}) : Option {la} :=\n"
                    f"  match xs_ with\n  | [] => some {acc}\n"
                    f"  | {item} :: rest_ =>\n    match {b} with\n    | none => none\n"
                    f"    | some acc_ => {aux}{capargs} rest_ acc_\n")
            rt = ("Opt", tacc)
        self.aux.append((aux, text, recursive))
        return f"({aux}{capargs} {xs} {init})", rt

    def tr_match_option(self, e, env, arm_fn):
        """`match opt { Some(x) => a, None => b }` over an Option value; arm_fn returns (text, type)"""
        x, t = self.tr(e[1], env)
        if t[0] != "Option":
            refuse(f"match on a value of type {t}")
        some_arm = [(p, b) for p, b in e[2] if p[0] == "tstruct" and p[1] == ["Some"] and len(p[2]) == 1 and p[2][0][0] in ("bind", "wild")]
        none_arm = [(p, b) for p, b in e[2] if p[0] == "path" and p[1] == ["None"]]
        if len(e[2]) != 2 or len(some_arm) != 1 or len(none_arm) != 1:
            refuse("match on an Option: arms other than Some(x) / None")
        env2 = dict(env)
        lp = self.bind_pat(some_arm[0][0][2][0], t[1], env2)
        a, ta = arm_fn(some_arm[0][1], env2)
        b, tb = arm_fn(none_arm[0][1], env)
        return f"(match {x} with | some {lp} => {a} | none => {b})", self.unify(ta, tb, "match arms")

    # --- match on self
    def tr_match(self, e, env, arm_fn):
        s = e[1]
        while s[0] == "unary" and s[1] in ("*", "&"):
            s = s[2]
        if not (s[0] == "path" and s[1] == ["self"] and self.impl in ENUMS):
            refuse("match on something other than self")
        en = self.impl
        decl = self.enum_decl(en)
        out = []
        for p, body in e[2]:
            env2 = dict(env)
            if p[0] == "wild":
                lp = "_"
            else:
                if p[0] not in ("path", "tstruct", "struct"):
                    refuse(f"match arm pattern {p[0]}")
                rv = self.resolve_variant(p[1])
                if not rv or rv[0] != en:
                    refuse(f"match arm {'::'.join(p[1])}")
                v = rv[1]
                ctor, largs = ENUMS[en]["variants"][v]
                ftypes = dict(decl[v])
                binds = {}
                if p[0] == "tstruct":
                    if len(p[2]) != len(decl[v]):
                        refuse(f"pattern arity of {v}")
                    binds = {str(i): q for i, q in enumerate(p[2])}
                elif p[0] == "struct":
                    binds = dict(p[2])
                    if set(binds) - set(ftypes):
                        refuse(f"unknown field in a pattern of {v}")
                    if not p[3] and set(binds) != set(ftypes):
                        refuse(f"pattern of {v} does not name all fields")
                elif decl[v]:
                    refuse(f"{v} has fields")
                parts = []
                for a in largs:
                    if a.startswith("+"):
                        n, ty = a[1:].split(":")
                        env2[n] = self.conv_type((ty, []))
                        parts.append(n)
                    elif a in binds:
                        q = binds[a]
                        if q[0] == "wild":
                            parts.append("_")
                        elif q[0] == "bind":
                            env2[q[1]] = self.conv_type(ftypes[a])
                            parts.append(self.name(q[1]))
                        else:
                            refuse("nested pattern in a match arm")
                    else:
                        parts.append("_")
                lp = "." + ctor + "".join(" " + x for x in parts)
            out.append(f"| {lp} => {arm_fn(body, env2)}")
        return out

    # --- tail position (the function's result)
    def tail(self, e, env):
        k = e[0]
        if k == "block":
            env = dict(env)
            text = ""
            stmts = e[1]
            for i, s in enumerate(stmts):
                if s[0] == "let" and s[2][0] == "try":
                    mark = len(self.guards)
                    x, t = self.tr(s[2][1], env)
                    g = self.take_guards(mark)
                    if t[0] != "Opt" or s[1][0] != "bind" or not self.opt:
                        refuse("`?` on a non-Result / destructuring")
                    env[s[1][1]] = t[1]
                    rest = self.tail(("block", stmts[i + 1:], e[2]), env)
                    return text + self.wrap(g, f"(match {x} with | none => none | some {self.name(s[1][1])} => {rest})")
                mark = len(self.guards)
                st = self.tr_stmt(s, env)
                g = self.take_guards(mark)
                if g:
                    rest = self.tail(("block", stmts[i + 1:], e[2]), env)
                    return text + self.wrap(g, f"({st}{rest})")
                text += st
            if e[2] is None:
                refuse("block without a value")
            r = self.tail(e[2], env)
            return f"({text}{r})" if text else r
        if k == "if":
            mark = len(self.guards)
            c = self.tr_prop(e[1], env)
            g = self.take_guards(mark)
            return self.wrap(g, f"(if {c} then {self.tail(e[2], env)} else {self.tail(e[3], env)})")
        if k == "match" and not (canon(e[1]).lstrip("*&") == "self" and self.impl in ENUMS):
            pass
        elif k == "match":
            arms = self.tr_match(e, env, lambda x, en: self.tail(x, en))
            return "(match self with\n    " + "\n    ".join(arms) + ")"
        if k == "call" and e[1][0] == "path" and e[1][1] in (["Ok"], ["Err"]):
            if self.ret[0] != "Opt" or self.ret_declared[0] != "Result":
                refuse("Ok / Err in a function that does not return Result")
            if e[1][1] == ["Err"]:
                return "none"
            if len(e[2]) != 1:
                refuse("Ok arity")
            mark = len(self.guards)
            x, t = self.tr(e[2][0], env)
            g = self.take_guards(mark)
            self.unify(t, self.ret[1], "Ok(..)")
            return self.wrap(g, f"(some {x})")
        mark = len(self.guards)
        x, t = self.tr(e, env)
        g = self.take_guards(mark)
        if self.ret_declared[0] == "Result":
            if t != self.ret:
                refuse(f"tail expression of type {t} in a function returning {self.ret}")
            return self.wrap(g, x)
        if self.opt:
            self.unify(t, self.ret[1], "result")
            return self.wrap(g, f"(some {x})")
        self.unify(t, self.ret, "result")
        return self.wrap(g, x)

    # --- a whole function
    def translate_arms(self, toks, body, env):
        """`match self { Enum::V(pat) => body, … }` over an enum the model shapes differently: one definition per
        variant, `<Enum>_<fn>_<Variant> (arg0 : field type) … (the function's parameters)`"""
        if not (body[0] == "block" and all(st[0] == "use" for st in body[1]) and body[2] is not None
                and body[2][0] == "match" and canon(body[2][1]).lstrip("*&") == "self"):
            refuse("arms mode: the body is not a single match on self")
        decl = parse_enum(toks, self.impl)
        arms = {}
        for p, b in body[2][2]:
            if p[0] not in ("path", "tstruct") or len(p[1]) != 2 or self.aliases.get(p[1][0], p[1][0]) != self.impl:
                refuse("arms mode: arm pattern")
            if p[1][1] in arms or p[1][1] not in decl:
                refuse(f"arms mode: arm {p[1][1]}")
            arms[p[1][1]] = (p, b)
        if set(arms) != set(decl):
            refuse("arms mode: the arms are not exactly the declared variants")
        psig = "".join(f" ({self.name(n)} : {self.lean_type(t)})" for n, t in self.params if t is not None)
        out = ""
        for v in decl:
            p, b = arms[v]
            subpats = p[2] if p[0] == "tstruct" else []
            if len(subpats) != len(decl[v]) or any(not f.isdigit() for f, _ in decl[v]):
                refuse(f"arms mode: pattern of {v}")
            env2 = dict(env)
            sig, lets = "", ""
            for i, ((_, ft), q) in enumerate(zip(decl[v], subpats)):
                t = self.conv_type(ft)
                sig += f" (arg{i} : {self.lean_type(t)})"
                lets += f"let {self.bind_pat(q, t, env2)} := arg{i}; "
            text = self.tail(b, env2)
            if self.guards or self.aux:
                refuse("arms mode: partial operations / folds")
            out += (f"/-- the `{v}` arm of `{self.impl}::{self.fn}` as it stands in `{self.cfg['file']}` -/\n"
                    f"def {self.lean_name}_{v}{sig}{psig} : {self.lean_type(self.ret)} :=\n  ({lets}{text})\n\n")
        return out

    def translate(self):
        path = os.path.join(self.repo, self.cfg["file"])
        with open(path) as f:
            toks = tokenize(f.read())
        has_self, params, ret, body = parse_fn(toks, self.impl_find, self.fn)
        self.ret_declared = ret
        self.has_self = has_self
        self.params = [(n, (None if n in self.cfg.get("drop", []) else self.conv_type(t))) for n, t in params]
        self.recursive_calls = 0
        env = {n: t for n, t in self.params if t is not None}
        rt = self.conv_type(ret)
        self.opt = rt[0] == "Opt" or self.cfg.get("partial", False)
        self.ret = rt if rt[0] == "Opt" or not self.opt else ("Opt", rt)
        sig = ""
        if has_self:
            if self.impl in STRUCTS:
                self.struct_decl(self.impl)
                env["self"] = ("Struct", self.impl)
                sig += f" (self : {self.lean_type(('Struct', self.impl))})"
            elif self.cfg.get("arms"):
                pass
            elif self.impl not in ENUMS:
                refuse("self of a type that is not a configured enum or struct")
            else:
                sig += f" (self : {self.lean_type(('Enum', self.impl))})"
        for n, t in self.params:
            if t is not None:
                sig += f" ({self.name(n)} : {self.lean_type(t)})"
        self.top_arms, self.inlining = None, set()
        if body[0] == "block" and all(st[0] == "use" for st in body[1]) and body[2] is not None and body[2][0] == "match":
            for st in body[1]:
                self.aliases[st[2]] = st[1][-1]
            self.top_arms = body[2][2]
        if self.cfg.get("arms"):
            return self.translate_arms(toks, body, env)
        text = self.tail(body, env)
        if self.guards:
            refuse("internal: guards left over")
        main = f"def {self.lean_name}{sig} : {self.lean_type(self.ret)} :=\n  {text}\n"
        label = self.cfg.get("label") or ((self.impl + "::" if self.impl else "") + self.fn)
        doc = (f"/-- `{label}` as it stands in `{self.cfg['file']}` -/\n")
        rec_aux = [a for a in self.aux if a[2]]
        out = "".join(a[1] + "\n" for a in self.aux if not a[2])
        if rec_aux:
            out += "mutual\n" + doc + main + "".join(a[1] for a in rec_aux) + "end\n"
        else:
            out += doc + main
        return out


def generate_file(repo, owner, cfgs):
    """(text of Gen/Fns<owner>.lean, [names translated], [(name, reason) not recognised])"""
    blocks, imports, done, skipped, into_table, fn_table = [], {"Compass.Model.Num"}, [], [], {}, {}
    for cfg in cfgs:
        label = cfg.get("label") or ((cfg["impl"] + "::" if cfg.get("impl") else "") + cfg["fn"])
        try:
            c = Ctx(cfg, repo)
            c.into_table = into_table
            c.fn_table = fn_table
            text = c.translate()
            blocks.append(text)
            imports |= c.imports
            done.append(label)
            fn_table[(cfg.get("impl"), cfg["fn"])] = (c.lean_name, c.params, c.ret, c.has_self)
            if cfg.get("into"):
                into_table[tuple(cfg["into"][0])] = (c.lean_name, cfg["into"][1])
        except NotRecognised as ex:
            skipped.append((label, str(ex)))
            blocks.append(f"-- NOT RECOGNISED: {label} ({ex})\n")
        except (OSError, IndexError, KeyError, ValueError, TypeError) as ex:
            skipped.append((label, f"{type(ex).__name__}: {ex}"))
            blocks.append(f"-- NOT RECOGNISED: {label} ({type(ex).__name__}: {ex})\n")
    out = ["-- GENERATED by tools/gen_fns.py (called from tools/gen_model.py) from /repo sources — do not edit",
           f"-- function bodies of the Rust source that property {owner} relies on, re-translated on every run; see the",
           "-- header of tools/gen_fns.py for the conventions (number newtypes are α, unsigned integers are Nat, Result is",
           f"-- Option, folds are auxiliary recursive functions).  Tied to the model by the `gen_*_eq` theorems of Props/{owner}.lean."]
    out += [f"import {i}" for i in sorted(imports)]
    out += ["", "set_option linter.unusedVariables false", "", "namespace Compass", "namespace Gen", "",
            "variable {α : Type} [Add α] [Sub α] [Mul α] [Div α] [Neg α] [LT α] [LE α] [DecidableLT α] [DecidableLE α] [Lit α]",
            ""]
    out += blocks
    out += ["end Gen", "end Compass", ""]
    return "\n".join(out), done, skipped


def main(repo, write_if_changed):
    """one generated file per owning property, so that a function of one property that is not recognised (or whose
    translation does not elaborate) cannot break the Props file of another property"""
    owners = []
    for cfg in FUNCS:
        if cfg["owner"] not in owners:
            owners.append(cfg["owner"])
    all_done, all_skipped, changed = [], [], []
    for owner in owners:
        cfgs = [c for c in FUNCS if c["owner"] == owner]
        text, done, skipped = generate_file(repo, owner, cfgs)
        if write_if_changed(os.path.join(OUT_DIR, f"Fns{owner}.lean"), text):
            changed.append(f"Fns{owner}.lean")
        all_done += [f"{owner}:{d}" for d in done]
        all_skipped += [(f"{owner}:{l}", w) for l, w in skipped]
    print(f"function translator: {len(all_done)} of {len(FUNCS)} functions translated into Gen/Fns<prop>.lean for "
          f"{', '.join(owners)} ({'rewritten: ' + ', '.join(changed) if changed else 'all unchanged'})")
    for label, why in all_skipped:
        print(f"function translator: NOT recognised: {label} — {why}")
    return all_done, all_skipped


if __name__ == "__main__":
    import gen_model
    main(gen_model.REPO, gen_model.write_if_changed)
