#!/bin/sh
# lead's intake of one delivered seeded change: confirm it in the scratch worktree, store it, run the
# property's quick check against it on the mirror, drop the agent's worktree:
#   tools/mut_intake.sh <id> <name>
id="$1"; name="$2"
sh /verif/tools/confirm_mut.sh "$id" "$name" 2>&1 | grep -E "^test result|stored|DOES NOT|^==" | cut -c1-170
git -C /repo worktree remove --force /tmp/mut/$id 2>/dev/null
[ -f /verif/seeded/$name/meta.json ] && sh /verif/tools/seeded_mirror.sh /verif/seeded/$name 2>&1 | tail -5 | cut -c1-300
