#!/usr/bin/env python3
"""Writes /verif/MANIFEST.json from the table below (kept in one place so it stays valid)."""
import json
import os

VERIF = os.path.dirname(os.path.dirname(os.path.abspath(__file__)))

LEVEL_NOTE = ("Trusted: Lean 4.33 kernel + Mathlib; axioms propext/Classical.choice/Quot.sound only (audited each run); "
              "the translator tools/gen_model.py and the correspondence harness (differential testing, bit-exact on doubles); "
              "IEEE rounding and third-party crates are outside the theorems (DESIGN.md §3).")

# property -> (claimed?, technique, level text, design ref)
CLAIMED = {
    "C09": ("Lean 4 theorems over translator-regenerated unit tables (decide +kernel over all unit pairs, lifted to every magnitude in any ordered field) + bit-exact correspondence run",
            "Proof: every clause of the property is a Lean theorem over the conversion tables regenerated from the Rust source on each run (identity, linearity, 0.1% round trip, 0.1% physical factor, create_time/create_speed/create_energy definitions and rejection), for all magnitudes in any linearly ordered field. The constructors' code shape is guarded by the translator and their behaviour tied by a bit-exact differential run on every unit combination.",
            "§5 C09"),
    "C17": ("Lean 4 theorems over an executable model of MultiSet (mixed-radix counter, kept partial: panic / divergence are explicit outcomes) and of GridSearchPlugin::process + json_array_op/flatten over an insertion-ordered JSON model; textual correspondence run (key order included) against the real plugin, MultiSet and apply_input_plugins; independent oracle on the real outputs",
            "Proof: for every JSON value the plugin (with its guard) neither panics nor diverges and computes a total function; for m>=1 axes of sizes n_i>=1 the enumeration terminates within fuel prod+1, has length prod n_i, no index combination twice, every in-range combination, k-th item = mixed-radix digits of k (first axis fastest; val increases by one per next); each generated query = original minus grid key (swap_remove order) overlaid with the chosen options, characterised as a map by 'last writer wins' (scalar under the field's name, object merged entry by entry, later axes override), untouched fields kept, no grid key left (proved from the textual recursion guard), pass-through without grid section, guard rejects exactly the degenerate sections, recursion guard stated as the text test it is; pipeline flatten yields exactly the expansion. Distinctness of the generated queries *as values* is proved for scalar axes with pairwise different options; with colliding option keys equal queries are possible by the merge semantics (witness theorem), which is read as outside 'none twice'. JSON objects are modelled as association lists with the serde_json invariant 'keys unique' as a hypothesis where needed.",
            "§5 C17, A.4"),
}

NOT_YET = {
}


def main():
    props = [json.loads(l) for l in open(os.path.join(VERIF, "properties.jsonl"))]
    checks = []
    na = []
    for p in props:
        pid = p["id"]
        if pid in CLAIMED:
            tech, text, ref = CLAIMED[pid]
            checks.append({
                "property_id": pid,
                "quick_cmd": f"python3 tools/check.py {pid} --tier quick",
                "thorough_cmd": f"python3 tools/check.py {pid} --tier thorough",
                "evidence_file": f"/verif/evidence/{pid}.json",
                "replay_cmd_template": f"python3 tools/check.py {pid} --replay {{path}}",
                "engine": "lean4-proof+correspondence",
                "level_claimed": {"category": "proof", "text": text, "design_ref": "DESIGN.md " + ref},
                "level_note": LEVEL_NOTE,
                "technique": tech,
            })
        else:
            na.append({"property_id": pid,
                       "reason": NOT_YET.get(pid, "not claimed yet: the Lean model, theorems and correspondence run for this property are still being built (planned in DESIGN.md §5); no other technique is substituted")})
    hooks_path = os.path.join(VERIF, "tools", "hooks.json")
    hooks = json.load(open(hooks_path)) if os.path.exists(hooks_path) else {"source_commits": []}
    m = {
        "version": 1,
        "setup_cmd": "sh tools/setup.sh",
        "hooks": {
            "guard": "cargo feature `verif` of routee-compass-core (default off)",
            "enable": "the harness crate /verif/harness depends on /repo/rust/routee-compass-core by path with features = [\"verif\"] once hooks exist; until then no hook is compiled in",
            "baseline_off_cmd": "cd /repo/rust && cargo test --workspace --no-fail-fast --offline",
            "source_commits": hooks.get("source_commits", []),
            "add_only": True,
        },
        "engines": [{
            "name": "lean4-proof+correspondence",
            "path": "/verif/lean (model, proofs, driver), /verif/harness (cvh), /verif/tools (check.py, gen_model.py)",
            "serves_properties": sorted(CLAIMED.keys()),
            "kind_free_text": "Lean 4 theorems about an executable model; translator regenerates tables from source; compiled model driver vs real Rust code, bit-exact differential run; direct oracle for failing-input search",
        }],
        "checks": checks,
        "notes": "See DESIGN.md. known_findings.txt lists recorded defects; work/ is scratch.",
        "not_applicable": na,
    }
    with open(os.path.join(VERIF, "MANIFEST.json"), "w") as f:
        json.dump(m, f, indent=1)
    print(f"MANIFEST.json: {len(checks)} checks, {len(na)} not claimed")


if __name__ == "__main__":
    main()
