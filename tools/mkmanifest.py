#!/usr/bin/env python3
"""Writes /verif/MANIFEST.json from the table below (kept in one place so it stays valid)."""
import json
import os

VERIF = os.path.dirname(os.path.dirname(os.path.abspath(__file__)))

LEVEL_NOTE = ("Trusted: Lean 4.33 kernel + Mathlib; axioms propext/Classical.choice/Quot.sound only (audited each run); "
              "the translator tools/gen_model.py and the correspondence harness (differential testing, bit-exact on doubles); "
              "IEEE rounding and third-party crates are outside the theorems (DESIGN.md §3).")

# property -> (claimed?, technique, level text, design ref)
CLAIMED = {
    "C09": ("Lean 4 theorems over translator-regenerated unit tables (decide +kernel over all unit pairs, lifted to every magnitude in any ordered field) + bit-exact correspondence run",
            "Proof: every clause of the property is a Lean theorem over the conversion tables regenerated from the Rust source on each run (identity, linearity, 0.1% round trip, 0.1% physical factor, create_time/create_speed/create_energy definitions and rejection), for all magnitudes in any linearly ordered field. The constructors' code shape is guarded by the translator and their behaviour tied by a bit-exact differential run on every unit combination.",
            "§5 C09"),
    "C01": ("Lean 4 invariant proof over the A*/Dijkstra loop model (tree invariant by induction over every schedule) + backtracking lemmas; bit-exact full-stack correspondence replaying the implementation's pop schedule",
            "Proof: the tree invariant of run_a_star (every entry's edge joins parent to key vertex in search direction, labels strictly decrease towards the origin, the origin has no entry) is proved by induction over the loop for every instance, source, target and every schedule the priority queue may take; consequences: the backtracked route is a non-empty contiguous origin-to-destination walk with no repeated edge or vertex and backtracking never fails. Positivity of edge costs is proved from the cost model for every concrete configuration. The model is tied to the code by replaying the implementation's own pop sequence (hook) through the compiled model on random full-stack instances and comparing trees, routes, states and costs bit for bit; a direct oracle re-walks every route and tree.",
            "§4, §5 C01"),
    "C15": ("Lean 4 theorems by induction over the fold of the EdgeLoader row callback (insertion-ordered association lists per vertex) + differential run of the real Graph::from_files on CSV files written by the harness (plain and gzip) + direct oracle recomputing adjacency from the raw rows",
            "Proof, partial: (a) for EVERY pair of edge/vertex files and every way of giving the counts, the model of graph_from_files either fails or yields a graph with exactly the listed edges (by id, with source, destination, length), vertices and coordinates and exactly the listed out-/in-edges of every vertex (Lean theorem loaded_topology_is_listed, by inversion of the loader's validation: undecodable row, endpoint outside the vertex table, edge or vertex id that is not its row number are load errors); (b) for files in the documented format the load succeeds, explicit and scanned counts give the same graph, out_edges/in_edges are the listed rows in file order at any degree, forward and reverse adjacency are permutations of the same edge ids, triplets and incident_* are the listed ones, per-edge tables are aligned by row (all inputs, no bound on sizes or degrees). Partial in three senses: (1) file decoding - csv parsing, gzip, line counting - is not modelled and is covered only by the differential run (the model takes the decoded rows, which rows fail to decode, and the text line count as data); (2) the adjacency container is modelled abstractly as an insertion-ordered association list (its refinement is C11's); (3) the edge_triplet clause of the full statement keeps one hypothesis - every endpoint has a vertex row - because the loader does not compare the number of vertex rows with the declared/scanned vertex count (machine-checked counterexample, listed known finding).",
            "§5 C15"),
}

NOT_YET = {
}


def main():
    props = [json.loads(l) for l in open(os.path.join(VERIF, "properties.jsonl"))]
    checks = []
    na = []
    for p in props:
        pid = p["id"]
        if pid in CLAIMED:
            tech, text, ref = CLAIMED[pid]
            checks.append({
                "property_id": pid,
                "quick_cmd": f"python3 tools/check.py {pid} --tier quick",
                "thorough_cmd": f"python3 tools/check.py {pid} --tier thorough",
                "evidence_file": f"/verif/evidence/{pid}.json",
                "replay_cmd_template": f"python3 tools/check.py {pid} --replay {{path}}",
                "engine": "lean4-proof+correspondence",
                "level_claimed": {"category": "proof", "text": text, "design_ref": "DESIGN.md " + ref},
                "level_note": LEVEL_NOTE,
                "technique": tech,
            })
        else:
            na.append({"property_id": pid,
                       "reason": NOT_YET.get(pid, "not claimed yet: the Lean model, theorems and correspondence run for this property are still being built (planned in DESIGN.md §5); no other technique is substituted")})
    hooks_path = os.path.join(VERIF, "tools", "hooks.json")
    hooks = json.load(open(hooks_path)) if os.path.exists(hooks_path) else {"source_commits": []}
    m = {
        "version": 1,
        "setup_cmd": "sh tools/setup.sh",
        "hooks": {
            "guard": "cargo feature `verif` of routee-compass-core (default off)",
            "enable": "the harness crate /verif/harness depends on /repo/rust/routee-compass-core by path with features = [\"verif\"]; every check rebuilds it with `cargo build --release --offline` from /repo's working tree",
            "baseline_off_cmd": "cd /repo/rust && cargo test --workspace --no-fail-fast --offline",
            "source_commits": hooks.get("source_commits", []),
            "add_only": True,
        },
        "engines": [{
            "name": "lean4-proof+correspondence",
            "path": "/verif/lean (model, proofs, driver), /verif/harness (cvh), /verif/tools (check.py, gen_model.py)",
            "serves_properties": sorted(CLAIMED.keys()),
            "kind_free_text": "Lean 4 theorems about an executable model; translator regenerates tables from source; compiled model driver vs real Rust code, bit-exact differential run; direct oracle for failing-input search",
        }],
        "checks": checks,
        "notes": "See DESIGN.md. known_findings.txt lists recorded defects; work/ is scratch.",
        "not_applicable": na,
    }
    with open(os.path.join(VERIF, "MANIFEST.json"), "w") as f:
        json.dump(m, f, indent=1)
    print(f"MANIFEST.json: {len(checks)} checks, {len(na)} not claimed")


if __name__ == "__main__":
    main()
