#!/usr/bin/env python3
"""Writes /verif/MANIFEST.json from the table below (kept in one place so it stays valid)."""
import json
import os

VERIF = os.path.dirname(os.path.dirname(os.path.abspath(__file__)))

LEVEL_NOTE = ("Trusted: Lean 4.33 kernel + Mathlib; axioms propext/Classical.choice/Quot.sound only (audited each run); "
              "the translator tools/gen_model.py and the correspondence harness (differential testing, bit-exact on doubles); "
              "IEEE rounding and third-party crates are outside the theorems (DESIGN.md §3).")

# property -> (claimed?, technique, level text, design ref)
CLAIMED = {
    "C09": ("Lean 4 theorems over translator-regenerated unit tables (decide +kernel over all unit pairs, lifted to every magnitude in any ordered field) + bit-exact correspondence run",
            "Proof: every clause of the property is a Lean theorem over the conversion tables regenerated from the Rust source on each run (identity, linearity, 0.1% round trip, 0.1% physical factor, create_time/create_speed/create_energy definitions and rejection), for all magnitudes in any linearly ordered field. The constructors' code shape is guarded by the translator and their behaviour tied by a bit-exact differential run on every unit combination.",
            "§5 C09"),
    "C18": ("Lean 4 proof of Kosaraju's two-pass algorithm over an executable model of scc.rs (functional DFS, white-path specification + finishing-order invariant, second-pass invariant; fuel shown sufficient) for every well-formed graph and every adjacency iteration order; verified executable checker isSccPartition; exhaustive (all digraphs on <= 3 / <= 4 vertices) and structured random correspondence run against the real functions with an independent transitive-closure oracle",
            "Proof: for every well-formed Graph value (any vertex count, self loops, parallel edges, isolated vertices, any keys() order of the adjacency slots; in particular every graph EdgeLoader builds from an edge list whose end points are vertices) the model of all_strongly_connected_componenets returns without error and its result is a list of non-empty blocks whose concatenation is repetition-free and holds exactly the vertices, each block being exactly the set of vertices mutually reachable with any of its members (scc_partition, scc_exactly_one, scc_sound, scc_complete, scc_iff); largest_strongly_connected_component returns a block of maximal length, the first such (largest_is_max, largest_ties_first). All theorems are complete (no _partial). The model is tied to the code by a correspondence run (real Graph values built in-process, keys() order read back from the real container, canonicalised output textually equal) and the real output is additionally judged by an independent closure oracle and by the verified checker (testing). Outside the model: stack depth of the recursive Rust functions, Graph values that are not well formed (correspondence only).",
            "§5 C18, Appendix A.6 (finishing-order lemma corrected, see Props/C18.lean)"),
}

NOT_YET = {
}


def main():
    props = [json.loads(l) for l in open(os.path.join(VERIF, "properties.jsonl"))]
    checks = []
    na = []
    for p in props:
        pid = p["id"]
        if pid in CLAIMED:
            tech, text, ref = CLAIMED[pid]
            checks.append({
                "property_id": pid,
                "quick_cmd": f"python3 tools/check.py {pid} --tier quick",
                "thorough_cmd": f"python3 tools/check.py {pid} --tier thorough",
                "evidence_file": f"/verif/evidence/{pid}.json",
                "replay_cmd_template": f"python3 tools/check.py {pid} --replay {{path}}",
                "engine": "lean4-proof+correspondence",
                "level_claimed": {"category": "proof", "text": text, "design_ref": "DESIGN.md " + ref},
                "level_note": LEVEL_NOTE,
                "technique": tech,
            })
        else:
            na.append({"property_id": pid,
                       "reason": NOT_YET.get(pid, "not claimed yet: the Lean model, theorems and correspondence run for this property are still being built (planned in DESIGN.md §5); no other technique is substituted")})
    hooks_path = os.path.join(VERIF, "tools", "hooks.json")
    hooks = json.load(open(hooks_path)) if os.path.exists(hooks_path) else {"source_commits": []}
    m = {
        "version": 1,
        "setup_cmd": "sh tools/setup.sh",
        "hooks": {
            "guard": "cargo feature `verif` of routee-compass-core (default off)",
            "enable": "the harness crate /verif/harness depends on /repo/rust/routee-compass-core by path with features = [\"verif\"] once hooks exist; until then no hook is compiled in",
            "baseline_off_cmd": "cd /repo/rust && cargo test --workspace --no-fail-fast --offline",
            "source_commits": hooks.get("source_commits", []),
            "add_only": True,
        },
        "engines": [{
            "name": "lean4-proof+correspondence",
            "path": "/verif/lean (model, proofs, driver), /verif/harness (cvh), /verif/tools (check.py, gen_model.py)",
            "serves_properties": sorted(CLAIMED.keys()),
            "kind_free_text": "Lean 4 theorems about an executable model; translator regenerates tables from source; compiled model driver vs real Rust code, bit-exact differential run; direct oracle for failing-input search",
        }],
        "checks": checks,
        "notes": "See DESIGN.md. known_findings.txt lists recorded defects; work/ is scratch.",
        "not_applicable": na,
    }
    with open(os.path.join(VERIF, "MANIFEST.json"), "w") as f:
        json.dump(m, f, indent=1)
    print(f"MANIFEST.json: {len(checks)} checks, {len(na)} not claimed")


if __name__ == "__main__":
    main()
