#!/usr/bin/env python3
"""Writes /verif/MANIFEST.json from the table below (kept in one place so it stays valid)."""
import json
import os

VERIF = os.path.dirname(os.path.dirname(os.path.abspath(__file__)))

LEVEL_NOTE = ("Trusted: Lean 4.33 kernel + Mathlib; axioms propext/Classical.choice/Quot.sound only (audited each run); "
              "the translator tools/gen_model.py and the correspondence harness (differential testing, bit-exact on doubles); "
              "IEEE rounding and third-party crates are outside the theorems (DESIGN.md §3).")

# property -> (claimed?, technique, level text, design ref)
CLAIMED = {
    "C09": ("Lean 4 theorems over translator-regenerated unit tables (decide +kernel over all unit pairs, lifted to every magnitude in any ordered field) + bit-exact correspondence run",
            "Proof: every clause of the property is a Lean theorem over the conversion tables regenerated from the Rust source on each run (identity, linearity, 0.1% round trip, 0.1% physical factor, create_time/create_speed/create_energy definitions and rejection), for all magnitudes in any linearly ordered field. The constructors' code shape is guarded by the translator and their behaviour tied by a bit-exact differential run on every unit combination.",
            "§5 C09"),
    "C01": ("Lean 4 invariant proof over the A*/Dijkstra loop model (tree invariant by induction over every schedule) + backtracking lemmas; bit-exact full-stack correspondence replaying the implementation's pop schedule",
            "Proof: the tree invariant of run_a_star (every entry's edge joins parent to key vertex in search direction, labels strictly decrease towards the origin, the origin has no entry) is proved by induction over the loop for every instance, source, target and every schedule the priority queue may take; consequences: the backtracked route is a non-empty contiguous origin-to-destination walk with no repeated edge or vertex and backtracking never fails. Positivity of edge costs is proved from the cost model for every concrete configuration. The model is tied to the code by replaying the implementation's own pop sequence (hook) through the compiled model on random full-stack instances and comparing trees, routes, states and costs bit for bit; a direct oracle re-walks every route and tree.",
            "§4, §5 C01"),
    "C15": ("Lean 4 theorems by induction over the fold of the EdgeLoader row callback (insertion-ordered association lists per vertex) + differential run of the real Graph::from_files on CSV files written by the harness (plain and gzip) + direct oracle recomputing adjacency from the raw rows",
            "Proof: (a) for EVERY pair of edge/vertex files and every way of giving the counts, the model of graph_from_files either fails or yields a graph that exposes exactly the listed network - every listed edge by id with source, destination and length, every vertex with its coordinates, exactly the listed out-/in-edges of every vertex, the triplet of every edge (Lean theorem loaded_network_is_listed, no hypothesis, by inversion of the loader's validation: undecodable row, endpoint outside the vertex table or the vertex rows, edge or vertex id that is not its row number are load errors); (b) for files in the documented format the load succeeds, explicit and scanned counts give the same graph, out_edges/in_edges are the listed rows in file order at any degree, forward and reverse adjacency are permutations of the same edge ids, incident_* and triplets are the listed ones, per-edge tables are aligned by row (all inputs, no bound on sizes or degrees). Partial in two senses only: (1) file decoding - csv parsing, gzip, line counting - is not modelled and is covered only by the differential run (the model takes the decoded rows, which rows fail to decode, and the text line count as data); (2) the adjacency container is modelled abstractly as an insertion-ordered association list (its refinement is C11's).",
            "§5 C15"),
    "C07": ("Lean 4 theorems about the executable cost model for every cost-model value (any feature count, weights, nested rates, both aggregations, any state pair) over any linearly ordered field + bit-exact correspondence run of the real CostModel (built by CostModel::new over a real StateModel) against the model at IEEE doubles + direct oracle on the real outputs",
            "Proof: strict positivity of traversal_cost / access_cost and of EdgeTraversal::total_cost (= access + (total - access)), non-negativity of cost_estimate, exact return/none conditions, the sum formula (weights x rated state changes + per-edge / per-turn surcharges; floor exactly when <= 0), linearity in the weights, zero-weight features ignored (and removable under sum), the product formula under mul aggregation, and CostModel::new rejecting exactly zero-sum weights are Lean theorems for all inputs; the floor constant is regenerated from the source each run. The hand-written model is tied to the code by a bit-exact differential run over random configurations (every rate constructor, Combined nested to depth 3, both aggregations, zero/negative/absent weights, all delta signs, lookup hits and misses, short state vectors). f64 rounding is outside the theorems: the oracle reports the one place where it breaks the property (a large access share absorbs the floored total in access + (total - access)).",
            "§5 C07"),
    "C02": ("Lean 4 proof of label optimality of the A*/Dijkstra loop model (invariants S,Q,K over every schedule, with re-opening) + Bellman-Ford oracle and bit-exact correspondence",
            "Proof: for state-independent positive edge costs and edge-local validity, the destination label returned by the loop model equals the minimum walk cost — Dijkstra unconditionally, A* for every admissible heuristic (consistent heuristics and pointwise smaller ones are admissible) — for every instance, direction and every schedule; Dijkstra and A* labels coincide. The model is tied to the code bit for bit on random full-stack instances (real cost model service glue, distance / speed models, all units); an independent Bellman-Ford oracle over per-edge costs from the real models checks optimality of what the code returns.",
            "§5 C02, App. A.1"),
    "C03": ("Lean 4 theorems on state accumulation, traversal models, turn classification (decide +kernel on the regenerated table) and heading wrap + per-edge re-accumulation oracle and bit-exact correspondence",
            "Proof (component level): add_distance / add_time touch exactly their slot and add the delta in the feature unit; initial state = declared values; distance traversal adds the converted edge length; turn classification is total on [-180,180] and rejects outside; bearing wrap lands in [-180,180] for headings in [0,360). Route-level accumulation is tied by the bit-exact correspondence of states and costs along every route and checked by an oracle that re-accumulates distance, time (table speed + turn delays classified independently) and cost edge by edge with the real unit functions.",
            "§5 C03"),
    "C04": ("Lean 4 theorems on every frontier model and their combination over the generated unit tables + raw-restriction oracle and bit-exact correspondence",
            "Proof (model level): road-class membership, vehicle restrictions (inequality after conversion to the restriction unit, per axle), turn restrictions, edge cuts; combination = conjunction with early refusal. Search-level use (each relaxed edge is submitted with state and last edge) is in the loop model tied bit for bit to the code; the oracle checks every tree entry and route edge and every consecutive route pair against the raw restriction inputs.",
            "§5 C04"),
    "C05": ("Lean 4 proof that the loop model reports no-path iff the target is unreachable and that a destination-less run labels exactly the reachable set (closedness invariant K) + BFS oracle and bit-exact correspondence",
            "Proof: for edge-local validity, any vertex heuristic (any weight factor) and every schedule: a result implies reachability, no-path implies unreachability, and among these two outcomes each happens iff; a destination-less search labels precisely the reachable vertices, each with its least cost. Tied to the code by the bit-exact correspondence; BFS oracle over permitted edges on what the code returns.",
            "§5 C05, App. A.1"),
    "C07": ("Lean 4 theorems on the cost model over any ordered field (positivity, floor, sum formula, linearity, zero weights, mul aggregation, nested rates by mutual induction) + bit-exact correspondence on the three API functions and EdgeTraversal",
            "Proof: every clause of the property is a theorem about the cost model for all feature counts, weights, rates of any nesting, network rates, aggregations and state pairs over any linearly ordered field; the model is tied to CostModel::new / traversal_cost / access_cost / cost_estimate / EdgeTraversal bit for bit. IEEE rounding is outside the theorems (one rounding-only finding is recorded).",
            "§5 C07"),
    "C10": ("Lean 4 theorems on the termination model (explicit outcome, exact firing conditions, next-check stop) + virtual-clock correspondence and limit oracle",
            "Proof (model level): iteration, size and runtime limits fire exactly as stated, termination is always the explicit `terminated` naming the limit, frequency 0 is the only failing configuration, an exhausted budget stops at the next scheduled check. The call site (top of every loop turn) is in the loop model tied bit for bit to the code under a virtual clock hook; the oracle checks bounds, explicitness, and equality with the unlimited run.",
            "§5 C10"),
    "C11": ("Lean 4 refinement proof of the ordered container to an insertion-ordered association list (abstraction function + representation invariant, all five representations, every history) and exact characterisation of every StateModel getter/setter; bit-exact / textual correspondence run of container histories, state-model operation sequences and collect_features+extend against the real code",
            "Proof: CompactOrderedHashMap is modelled representation by representation (HashMap as an unordered association list; sorting exactly where the code sorts) and proved to refine an insertion-ordered association list for every history of inserts and overwrites from empty / new / from_iter at every size: insert appends a new key, overwrites an existing key in place, returns the old value and preserves the invariant (stored indices are exactly 0..len-1, keys distinct); len, is_empty, contains_key, get, get_index, get_pair, keys, iter, indexed_iter, to_vec, into_iter agree with the list; HashMap order is unobservable. StateModel: slots are 0..n-1 bijectively, the initial state has n entries with the declared values in slot order, setters change only their own slot, getters read only their own slot, get-after-set round-trips within C09's 0.1% bound (exactly for equal units), add accumulates exactly in the feature's unit, extend keeps existing slots and appends new ones, codecs round-trip. new refines for EVERY entry list, repeated keys included (the defect container/new-duplicate-key was repaired in /repo 6da9498; its witnesses are now positive theorems and stay in the corpus under the same oracle key); the get_pair guard 'index > len' is proved unobservable in every reachable container. The model is tied to the code by a differential run (all accessors after every operation, doubles bit-exact).",
            "§5 C11, Appendix A.5"),
    "C18": ("Lean 4 proof of Kosaraju's two-pass algorithm over an executable model of scc.rs (functional DFS, white-path specification + finishing-order invariant, second-pass invariant; fuel shown sufficient) for every well-formed graph and every adjacency iteration order; verified executable checker isSccPartition; exhaustive (all digraphs on <= 3 / <= 4 vertices) and structured random correspondence run against the real functions with an independent transitive-closure oracle",
            "Proof: for every well-formed Graph value (any vertex count, self loops, parallel edges, isolated vertices, any keys() order of the adjacency slots; in particular every graph EdgeLoader builds from an edge list whose end points are vertices) the model of all_strongly_connected_componenets returns without error and its result is a list of non-empty blocks whose concatenation is repetition-free and holds exactly the vertices, each block being exactly the set of vertices mutually reachable with any of its members (scc_partition, scc_exactly_one, scc_sound, scc_complete, scc_iff); largest_strongly_connected_component returns a block of maximal length, the first such (largest_is_max, largest_ties_first). All theorems are complete (no _partial). The model is tied to the code by a correspondence run (real Graph values built in-process, keys() order read back from the real container, canonicalised output textually equal) and the real output is additionally judged by an independent closure oracle and by the verified checker (testing). Outside the model: stack depth of the recursive Rust functions, Graph values that are not well formed (correspondence only).",
            "§5 C18, Appendix A.6 (finishing-order lemma corrected, see Props/C18.lean)"),
    "C20": ("Lean 4 theorems over an executable model of the five route/tree output formats, concat_linestrings, the traversal/uuid/summary plugins and apply_output_processing + correspondence run that parses back the WKT/WKB/GeoJSON/JSON the real code prints",
            "Proof: for every route, tree, geometry table and format the model's edge-id list, JSON records and GeoJSON features are the route's edges in order; the WKT/WKB/GeoJSON geometry is the concatenation of the stored linestrings in edge order (joint points kept); any missing row is an error (exact iff), at format level and as an error response through apply_output_processing wherever the plugin sits; tree outputs have one entry per branch and are permutation-invariant in the hash map's order; attached uuids are table[origin], table[destination] and the plugin never panics. The model is tied to the Rust code by a textual correspondence run through the real TraversalOutputFormat, traversal_ops, UUIDOutputPlugin::process and apply_output_processing with file-built plugins.",
            "§5 C20"),
    "C16": ("Lean 4 theorems over an executable model of the two r-tree map matchers (selection = head of the nearest-first candidate list, first admissible edge, the tolerance comparisons and unit conversions exactly as coded, the JSON field writes) + bit-exact correspondence run against the real plugins built through their builders + independent exhaustive-scan / haversine oracle",
            "Proof, thin on proof content and said so: squared coordinate distances, great-circle distances (haversine) and vehicle-restriction verdicts are input tables computed by the harness with the real functions, and rstar's nearest-first order is a hypothesis (Sorted) checked on every generated case; given that, 'nearest' is 'head of a sorted list'. Proved for all inputs: the vertex written is an arg-min of distance_2 over all vertices and equals an exhaustive scan; the vertex plugin succeeds iff the nearest vertex's distance converted into the tolerance unit is <= the tolerance (cut-off t/k(u) metres with the code's own table factor), origin and destination; an edge match is the first admissible candidate and no admissible candidate is nearer; every field other than the two written ones keeps value and relative order (non-object queries untouched), an edge-plugin error leaves the query untouched; the destination is optional. the edge match is made exactly when the nearest admissible candidate's great-circle distance, converted into the tolerance unit, is <= the tolerance (edge_tolerance; the former units defect edge-match/tolerance-units is kept as a regression example and corpus witness). The vertex tolerance clause is proved in full as well (the former boundary defect vertex-match/tolerance-boundary — distance == tolerance rejected — is kept as a regression example and corpus witness). The tie to the code is differential (every outcome line and updated query identical on generated cases), not a proof.",
            "§5 C16"),
    "C08": ("Lean 4 theorems over an executable model of the energy traversal model, prediction record (incl. float cache), ICE/BEV/PHEV and vehicle_ops, generic over any ordered field, prediction model and cache as parameters + bit-exact correspondence run against the real EnergyTraversalModel / SpeedTraversalModel / vehicles / FloatCachePolicy around a stub predictor",
            "Proof: per-edge energy = rate(edge speed x exact reconstruction factor, grade) x adjustment x length (factor within 0.1% of 1 for all 720 unit configurations, decided by the kernel over the translator-regenerated tables); additivity along every route for every unit configuration and cache; state of charge within 0-100 for every edge sequence (induction), start value, exact clamped step -100 E/capacity, PHEV switch, best case, rejection of out-of-range / non-numeric starting charge; cache proved to be the identity when the key determines the prediction. Three deviations of the code are modelled faithfully and proved as counterexamples (cache key collisions / truncated key, unit mix in best_case_energy_state, starting charge set through state_features without range check); the haversine value used by estimate_traversal is an input of the model, not modelled.",
            "§5 C08"),
    "C13": ("Lean 4 model of both k-shortest-path algorithms over the shared search model; single-via proved (loop invariants over every replayed pop sequence, arbitrary similarity function); Yen modelled as a fuelled loop with explicit divergence outcomes and machine-checked counterexamples; bit-exact correspondence replaying every underlying search schedule and the intersection pops (Yen runs only in resource-limited child processes)",
            "Proof for single-via: for every configuration with consistent adjacency, every k, termination criterion, similarity function (arbitrary, possibly failing), every schedule of the two underlying searches and every replayed pop order: at most k routes and at least one when k >= 1; the loop makes at most one turn per intersection entry; the first route is the underlying search's route (least cost under the C02 premises, Dijkstra and admissible A*); every route is a contiguous loop-free origin-destination walk without a repeated edge; every alternative's second half is the forward re-accumulation from the first half's last edge and state; routes are pairwise distinct in edge sequence and pairwise not similar; AcceptAll's test is constantly false and, for the same replay, AcceptAll returns at least as many routes as any similarity test; the only failures that propagate are those of the two searches, of the re-traversal and of the similarity function. Defects of single-via (alternatives may take a restricted turn; a failing reverse search turns an answerable query into an error) and of Yen's algorithm (does not return for shortest routes of one or two edges with k >= 2 or when no candidate is dissimilar; a failed spur search is propagated; more than k routes; duplicates; spur states not accumulated; loops) are machine-checked counterexamples on the faithful model, reproduced on the real code by corpus witnesses on every run and listed as known findings; for Yen only the partial results that hold are proved (first route, k <= 1).",
            "§4, §5 C13"),
    "C14": ("Lean 4 theorems over an executable model of find_nearest_index / linspace / Interp1D-2D-3D-ND / InterpolationSpeedGradeModel (any linearly ordered field) + bit-exact correspondence run against the real code on random grids, tables, points and every speed/grade unit",
            "Proof: cell lookup brackets the target (binary-search invariants), the speed/grade prediction is between the four corner rates, exact on grid points, equal to the bilinear formula of every closed cell containing the input (continuity across borders), clamps outside inputs to the nearest grid boundary and never fails for >= 2 bins; the generic interpolators reproduce multilinear data exactly, N-D agrees with 1-D/2-D/3-D, and points outside are rejected. The model is tied to the Rust code by a bit-exact differential run (same operation order) over random uniform and non-uniform grids, all dimensions, validated and raw paths, every unit combination and the bundled random-forest models. Defects of the code (one-point axes accepted by the constructors and then panicking in find_nearest_index — speed/grade model and Interp2D/3D —, raw linear methods do not reject outside points, InterpND::new panics on a short grid vector) are machine-checked counterexamples and known findings.",
            "§5 C14"),
}

NOT_YET = {
}


def main():
    props = [json.loads(l) for l in open(os.path.join(VERIF, "properties.jsonl"))]
    checks = []
    na = []
    for p in props:
        pid = p["id"]
        if pid in CLAIMED:
            tech, text, ref = CLAIMED[pid]
            checks.append({
                "property_id": pid,
                "quick_cmd": f"python3 tools/check.py {pid} --tier quick",
                "thorough_cmd": f"python3 tools/check.py {pid} --tier thorough",
                "evidence_file": f"/verif/evidence/{pid}.json",
                "replay_cmd_template": f"python3 tools/check.py {pid} --replay {{path}}",
                "engine": "lean4-proof+correspondence",
                "level_claimed": {"category": "proof", "text": text, "design_ref": "DESIGN.md " + ref},
                "level_note": LEVEL_NOTE,
                "technique": tech,
            })
        else:
            na.append({"property_id": pid,
                       "reason": NOT_YET.get(pid, "not claimed yet: the Lean model, theorems and correspondence run for this property are still being built (planned in DESIGN.md §5); no other technique is substituted")})
    hooks_path = os.path.join(VERIF, "tools", "hooks.json")
    hooks = json.load(open(hooks_path)) if os.path.exists(hooks_path) else {"source_commits": []}
    m = {
        "version": 1,
        "setup_cmd": "sh tools/setup.sh",
        "hooks": {
            "guard": "cargo feature `verif` of routee-compass-core (default off)",
            "enable": "the harness crate /verif/harness depends on /repo/rust/routee-compass-core by path with features = [\"verif\"]; every check rebuilds it with `cargo build --release --offline` from /repo's working tree",
            "baseline_off_cmd": "cd /repo/rust && cargo test --workspace --no-fail-fast --offline",
            "source_commits": hooks.get("source_commits", []),
            "add_only": True,
        },
        "engines": [{
            "name": "lean4-proof+correspondence",
            "path": "/verif/lean (model, proofs, driver), /verif/harness (cvh), /verif/tools (check.py, gen_model.py)",
            "serves_properties": sorted(CLAIMED.keys()),
            "kind_free_text": "Lean 4 theorems about an executable model; translator regenerates tables from source; compiled model driver vs real Rust code, bit-exact differential run; direct oracle for failing-input search",
        }],
        "checks": checks,
        "notes": "See DESIGN.md. known_findings.txt lists recorded defects; work/ is scratch.",
        "not_applicable": na,
    }
    with open(os.path.join(VERIF, "MANIFEST.json"), "w") as f:
        json.dump(m, f, indent=1)
    print(f"MANIFEST.json: {len(checks)} checks, {len(na)} not claimed")


if __name__ == "__main__":
    main()
