#!/usr/bin/env python3
"""Writes /verif/MANIFEST.json from the table below (kept in one place so it stays valid)."""
import json
import os

VERIF = os.path.dirname(os.path.dirname(os.path.abspath(__file__)))

LEVEL_NOTE = ("Trusted: Lean 4.33 kernel + Mathlib; axioms propext/Classical.choice/Quot.sound only (audited each run); "
              "the translator tools/gen_model.py and the correspondence harness (differential testing, bit-exact on doubles); "
              "IEEE rounding and third-party crates are outside the theorems (DESIGN.md §3).")

# property -> (claimed?, technique, level text, design ref)
CLAIMED = {
    "C09": ("Lean 4 theorems over translator-regenerated unit tables (decide +kernel over all unit pairs, lifted to every magnitude in any ordered field) + bit-exact correspondence run",
            "Proof: every clause of the property is a Lean theorem over the conversion tables regenerated from the Rust source on each run (identity, linearity, 0.1% round trip, 0.1% physical factor, create_time/create_speed/create_energy definitions and rejection), for all magnitudes in any linearly ordered field. The constructors' code shape is guarded by the translator and their behaviour tied by a bit-exact differential run on every unit combination.",
            "§5 C09"),
    "C19": ("Lean 4 theorems over an executable model of CsvMapping / ResponseOutputFormat / WriteMode / ResponseSink (write_response = one atomic step) for every schedule of worker steps (induction over the schedule, multiset = List.Perm) + textual / multiset correspondence with the real sink driven by 1..16 real threads and with CompassApp::run end to end",
            "Proof, partial in a stated sense. Proved for all responses, mappings, batch shapes and ALL schedules (any list of worker ids): the file is its opening contents followed by exactly one whole record per written response, the records of a completed batch are the multiset {record r}, the counter counts them, line count, both persistence policies leave the same file, header names the mapping's columns in the order the rows use (rev and sorted orientations), Append never repeats the header and keeps every earlier byte (repeated runs), a record holds no raw newline, write_never_loses_information (post-fix behaviour; full except for a response that already holds both error and csv_error - counterexample proved), a JSON record parses back to the response that produced it and determines it (round trip parse(compact r) = r proved for the model's serializer and a reader written in Lean; that serde_json::from_str agrees with this reader is checked by a differential run and by parsing every real file back), what each worker hands back is, in queue order, the amended response (same vectors for every schedule), a Combined policy appends one record to every member. Four defects of the code are modelled faithfully, proved as counterexamples and listed as known findings (array/object cells and JSON-escaped quotes break the CSV columns; csv_error replaced under a Combined policy; responses of queries failing input processing never reach the file). Trusted, not proved: the atomicity of one write_response rests on std::sync::Mutex and on OS append semantics; real thread interleavings are only sampled by the concurrent harness runs (1..16 threads, direct sink API and CompassApp::run on the rayon pool); multi-process appends and I/O errors are outside the model.",
            "§5 C19"),
}

NOT_YET = {
}


def main():
    props = [json.loads(l) for l in open(os.path.join(VERIF, "properties.jsonl"))]
    checks = []
    na = []
    for p in props:
        pid = p["id"]
        if pid in CLAIMED:
            tech, text, ref = CLAIMED[pid]
            checks.append({
                "property_id": pid,
                "quick_cmd": f"python3 tools/check.py {pid} --tier quick",
                "thorough_cmd": f"python3 tools/check.py {pid} --tier thorough",
                "evidence_file": f"/verif/evidence/{pid}.json",
                "replay_cmd_template": f"python3 tools/check.py {pid} --replay {{path}}",
                "engine": "lean4-proof+correspondence",
                "level_claimed": {"category": "proof", "text": text, "design_ref": "DESIGN.md " + ref},
                "level_note": LEVEL_NOTE,
                "technique": tech,
            })
        else:
            na.append({"property_id": pid,
                       "reason": NOT_YET.get(pid, "not claimed yet: the Lean model, theorems and correspondence run for this property are still being built (planned in DESIGN.md §5); no other technique is substituted")})
    hooks_path = os.path.join(VERIF, "tools", "hooks.json")
    hooks = json.load(open(hooks_path)) if os.path.exists(hooks_path) else {"source_commits": []}
    m = {
        "version": 1,
        "setup_cmd": "sh tools/setup.sh",
        "hooks": {
            "guard": "cargo feature `verif` of routee-compass-core (default off)",
            "enable": "the harness crate /verif/harness depends on /repo/rust/routee-compass-core by path with features = [\"verif\"] once hooks exist; until then no hook is compiled in",
            "baseline_off_cmd": "cd /repo/rust && cargo test --workspace --no-fail-fast --offline",
            "source_commits": hooks.get("source_commits", []),
            "add_only": True,
        },
        "engines": [{
            "name": "lean4-proof+correspondence",
            "path": "/verif/lean (model, proofs, driver), /verif/harness (cvh), /verif/tools (check.py, gen_model.py)",
            "serves_properties": sorted(CLAIMED.keys()),
            "kind_free_text": "Lean 4 theorems about an executable model; translator regenerates tables from source; compiled model driver vs real Rust code, bit-exact differential run; direct oracle for failing-input search",
        }],
        "checks": checks,
        "notes": "See DESIGN.md. known_findings.txt lists recorded defects; work/ is scratch.",
        "not_applicable": na,
    }
    with open(os.path.join(VERIF, "MANIFEST.json"), "w") as f:
        json.dump(m, f, indent=1)
    print(f"MANIFEST.json: {len(checks)} checks, {len(na)} not claimed")


if __name__ == "__main__":
    main()
