#!/bin/sh
# run every stored seeded change against its check on the scratch mirror and print one line per change:
#   tools/seeded_all.sh [tier]      (about 30 s per change in the quick tier)
# exit 0 iff every change was reported (exit=1 with a VIOLATION line) — the unchanged tree is checked
# by the ordinary commands, not here.
tier="${1:-quick}"
missed=0
for d in /verif/seeded/*/; do
  [ -f "$d/meta.json" ] || continue
  n=$(basename "$d")
  out=$(sh /verif/tools/seeded_mirror.sh "$d" "$tier" 2>&1)
  if echo "$out" | grep -q "^VIOLATION" && echo "$out" | grep -q "^exit=1"; then
    keys=$(echo "$out" | grep "^VIOLATION" | sed 's/.*replays\///; s/\.json.*//' | tr '\n' ' ')
    nf=$(echo "$out" | grep -c "no-failing-input-found")
    echo "CAUGHT $n [$keys]$( [ "$nf" -gt 0 ] && echo ' (no failing input found)')"
  else
    echo "MISSED $n"; missed=1
  fi
done
exit $missed
