#!/bin/sh
# Independent confirmation of a seeded change delivered in /tmp/mut/<id>_out, in the scratch worktree
# /tmp/mut/confirm (created on demand from /repo's HEAD; never /repo itself):
#   1. demo passes on the unchanged code   2. with patch.diff applied: existing suite passes, demo fails
# then stores patch.diff, the demo and meta.json (plus what was run) under /verif/seeded/<name>/
set -u
id="$1"; name="${2:-$1}"
out=/tmp/mut/${id}_out; wt=/tmp/mut/confirm
[ -d $wt ] || git -C /repo worktree add -q --detach $wt HEAD
cd $wt && git checkout -q --detach $(git -C /repo rev-parse HEAD) && git checkout -- . && git clean -fdq -e rust/target
demo_path=$(python3 -c "import json; print(json.load(open('$out/meta.json')).get('demo_path',''))")
demo_cmd=$(python3 -c "import json; print(json.load(open('$out/meta.json'))['demo_cmd'])" | sed "s#/tmp/mut/$id#$wt#g")
demo_file=$(ls $out/*.rs | head -1)
case "$demo_path" in
  */) demo_path="$demo_path$(basename $demo_file)";;
  "") demo_path=$(cd /tmp/mut/$id && git status --short | grep '^??' | awk '{print $2}' | head -1);;
esac
case "$demo_path" in *.rs) ;; *) demo_path="$demo_path/$(basename $demo_file)";; esac
mkdir -p "$wt/$(dirname $demo_path)" && cp "$demo_file" "$wt/$demo_path"
echo "demo at $demo_path ; cmd: $demo_cmd"
echo "== demo on unchanged code (expect ok)"; r1=$(cd $wt && sh -c "$demo_cmd" 2>&1 | grep -E "^test result" | tr '\n' ' '); echo "$r1"
git -C $wt apply $out/patch.diff || { echo "PATCH DOES NOT APPLY"; exit 2; }
echo "== demo with change (expect FAILED)"; r2=$(cd $wt && sh -c "$demo_cmd" 2>&1 | grep -E "^test result" | tr '\n' ' '); echo "$r2"
mv "$wt/$demo_path" /tmp/mut/demo_aside.rs
echo "== existing suite with change (expect all ok)"; r3=$(cd $wt/rust && cargo test --workspace --no-fail-fast --offline 2>&1 | grep -E "^test result" | grep -v " 0 passed; 0 failed" | tr '\n' ' '); echo "$r3"
mkdir -p /verif/seeded/$name && cp $out/patch.diff /verif/seeded/$name/ && cp "$demo_file" /verif/seeded/$name/
python3 - "$out/meta.json" "/verif/seeded/$name/meta.json" "$demo_path" "$r1" "$r2" "$r3" <<'PY'
import json,sys
m=json.load(open(sys.argv[1]))
m['demo_path']=sys.argv[3]
m['confirmed_by_lead']={'worktree':'/tmp/mut/confirm (fresh checkout of /repo HEAD)','demo_on_unchanged_code':sys.argv[4],'demo_with_change':sys.argv[5],'existing_suite_with_change':sys.argv[6]}
json.dump(m,open(sys.argv[2],'w'),indent=1)
PY
cd $wt && git checkout -- . && git clean -fdq -e rust/target
echo stored /verif/seeded/$name
