#!/bin/sh
# MANIFEST.setup_cmd: build the framework from files on disk only (offline).
set -e
cd "$(dirname "$0")/.."
export CARGO_NET_OFFLINE=true
mkdir -p work evidence
python3 tools/gen_model.py
[ -f harness/Cargo.lock ] || cp /repo/rust/Cargo.lock harness/Cargo.lock
(cd harness && cargo build --release --offline 2>&1 | tail -3)
cd lean
lake build driver 2>&1 | tail -2
mods=$(ls Compass/Props/*.lean | sed 's#/#.#g; s#\.lean$##')
lake build $mods 2>&1 | tail -3
