//! C16 — map matching (vertex r-tree and edge r-tree input plugins).
//!
//! Entry points: the real `VertexRTreeBuilder::build` / `EdgeRtreeInputPluginBuilder::build` (JSON
//! configuration, exactly what the application calls) and `InputPlugin::process`.  Both plugins only
//! build from files, so every case writes its vertex CSV / WKT geometry / road-class / vehicle-restriction
//! files under `work/c16-<pid>/` (removed at the end of the run).
//!
//! Trigonometry and geometry are not modelled: for every case the harness computes, with the REAL
//! functions, the candidate tables handed to the model — squared coordinate distance
//! (`RTreeVertex::distance_2`, `EdgeRtreeRecord::distance_2`), great-circle metres
//! (`haversine::coord_distance_meters`), road class, vehicle-restriction verdict
//! (`VehicleRestriction::valid`) — in the order of `rstar`'s nearest-neighbour iterator on an identical tree.
//!
//! Oracle (independent of the model): exhaustive scan arg-min under the plugin's own distance measure
//! (ties accepted), admissibility of the matched edge, tolerance rule in METRES via haversine for both
//! matchers (0.2 % slack: the unit tables are only required to be within 0.1 %), other fields unchanged.
//! The distance measure ITSELF is checked too, on the oracle's own geometry in plain f64 and without any of
//! the plugin's distance functions: squared Euclidean coordinate distance to the vertex
//! (`vertex-match/not-nearest-independent`), Euclidean distance to the oracle's own length-weighted
//! linestring centroid (`edge-match/not-nearest-independent`), and the tolerance verdict on that centroid with
//! the real haversine (`edge-match/tolerance-independent`), all with a guard band for the code's f32
//! arithmetic (relative 1e-4 plus a few f32 ulps of the coordinates for the centroid).  Every fourth edge
//! case is a bent-linestring scenario (L, hook, staircase against a straight competitor, the query where
//! "nearest centroid" and "nearest bounding-box midpoint" disagree, tolerance between the two).
use crate::ctx::{fbits, Ctx};
use crate::jsonproto::{enc, hex};
use crate::rng::Rng;
use geo::{Centroid, Coord, Point};
use routee_compass::app::compass::config::builders::InputPluginBuilder;
use routee_compass::app::compass::config::frontier_model::vehicle_restrictions::vehicle_parameters::VehicleParameters;
use routee_compass::plugin::input::default::edge_rtree::edge_rtree_input_plugin::EdgeRtreeInputPlugin;
use routee_compass::plugin::input::default::edge_rtree::edge_rtree_input_plugin_builder::EdgeRtreeInputPluginBuilder;
use routee_compass::plugin::input::default::vertex_rtree::builder::VertexRTreeBuilder;
use routee_compass::plugin::input::default::vertex_rtree::plugin::{RTreeVertex, VertexRTree};
use routee_compass::plugin::input::input_plugin::InputPlugin;
use routee_compass::plugin::input::InputPluginError;
use routee_compass_core::model::network::{Graph, Vertex};
use routee_compass_core::model::unit::as_f64::AsF64;
use routee_compass_core::model::unit::{Distance, DistanceUnit};
use routee_compass_core::util::geo::haversine;
use rstar::PointDistance;
use serde_json::{json, Map, Value};
use std::collections::{BTreeMap, BTreeSet};
use std::panic::{catch_unwind, AssertUnwindSafe};

#[path = "c16_io.rs"]
mod io;

const D: [DistanceUnit; 5] = [
    DistanceUnit::Meters,
    DistanceUnit::Kilometers,
    DistanceUnit::Miles,
    DistanceUnit::Inches,
    DistanceUnit::Feet,
];

/// metres per unit, SI definitions, written independently of the source tables
fn si_d(u: &DistanceUnit) -> f64 {
    match u {
        DistanceUnit::Meters => 1.0,
        DistanceUnit::Kilometers => 1000.0,
        DistanceUnit::Miles => 1609.344,
        DistanceUnit::Inches => 0.0254,
        DistanceUnit::Feet => 0.3048,
    }
}

/// slack of the metre-based tolerance oracle (unit tables may be 0.1 % off, f32 haversine)
const SLACK: f64 = 2.0e-3;

fn err_kind(e: &InputPluginError) -> String {
    use InputPluginError as E;
    match e {
        E::BuildFailed(_) => "build".into(),
        E::MissingExpectedQueryField(f) => format!("missing {}", f.to_str()),
        E::MissingQueryFieldPair(a, b) => format!("pair {} {}", a.to_str(), b.to_str()),
        E::QueryFieldHasInvalidType(f, _) => format!("type {}", f.to_str()),
        E::UnexpectedQueryStructure(_) => "notobject".into(),
        E::JsonError { .. } => "json".into(),
        // one variant, six causes: told apart by a key phrase of the message (a reordering of the tolerance /
        // range / road-class checks would otherwise be invisible)
        E::InputPluginFailed(m) => {
            let sub = if m.contains("nearest vertex not found") {
                "nocandidate"
            } else if m.contains("exceeding the distance tolerance") {
                "beyond"
            } else if m.contains("not in range") || m.contains("empty linestring") {
                "range"
            } else if m.contains("Unable to apply EdgeRtree Input Plugin") {
                "roadclassparse"
            } else if m.contains("road class file missing edge") {
                "roadclassmissing"
            } else if m.contains("unable to match coordinate") {
                "noedgematch"
            } else {
                "other"
            };
            format!("failed {}", sub)
        }
        E::InternalError(_) => "internal".into(),
    }
}

struct Files {
    dir: String,
}

impl Files {
    fn new() -> Files {
        let dir = format!("work/c16-{}", std::process::id());
        std::fs::create_dir_all(&dir).expect("work dir");
        Files { dir }
    }
    fn write(&self, name: &str, content: &str) -> String {
        let p = format!("{}/{}", self.dir, name);
        std::fs::write(&p, content).expect("write case file");
        p
    }
}

impl Drop for Files {
    fn drop(&mut self) {
        let _ = std::fs::remove_dir_all(&self.dir);
    }
}

/// a lat/lon patch; `dyadic` patches have coordinates on a 2^-7 degree lattice (exact ties)
#[derive(Clone, Copy)]
struct Patch {
    x0: f64,
    y0: f64,
    w: f64,
    h: f64,
    dyadic: bool,
}

fn gen_patch(rng: &mut Rng) -> Patch {
    let dyadic = rng.chance(1, 3);
    let (x0, y0) = match rng.below(5) {
        0 => (0.0, 0.0),
        1 => (-105.25, 39.5),
        2 => (10.0, 69.5),
        3 => (151.0, -34.0),
        _ => (-0.125, -0.125),
    };
    let w = *rng.pick(&[0.0625, 0.25, 0.5]);
    Patch { x0, y0, w, h: w, dyadic }
}

fn gen_point(rng: &mut Rng, p: &Patch) -> (f32, f32) {
    if p.dyadic {
        let step = 1.0 / 128.0;
        let nx = (p.w / step) as i64;
        let ny = (p.h / step) as i64;
        ((p.x0 + rng.range(0, nx) as f64 * step) as f32, (p.y0 + rng.range(0, ny) as f64 * step) as f32)
    } else {
        (rng.uniform(p.x0, p.x0 + p.w) as f32, rng.uniform(p.y0, p.y0 + p.h) as f32)
    }
}

/// a query coordinate (as the f64 that goes into the JSON) and the branch name
fn gen_query_coord(rng: &mut Rng, p: &Patch, anchors: &[(f32, f32)]) -> ((f64, f64), &'static str) {
    match rng.below(16) {
        0 | 1 | 2 | 3 | 12 | 13 => {
            if p.dyadic {
                // half-lattice points: many exact ties
                let step = 1.0 / 256.0;
                let nx = (p.w / step) as i64;
                let ny = (p.h / step) as i64;
                ((p.x0 + rng.range(0, nx) as f64 * step, p.y0 + rng.range(0, ny) as f64 * step), "q_inside_lattice")
            } else {
                ((rng.uniform(p.x0, p.x0 + p.w), rng.uniform(p.y0, p.y0 + p.h)), "q_inside")
            }
        }
        4 | 14 if !anchors.is_empty() => {
            let a = anchors[rng.below(anchors.len())];
            ((a.0 as f64, a.1 as f64), "q_on_element")
        }
        5 | 15 if !anchors.is_empty() => {
            // a few metres to a few hundred metres from an element
            let a = anchors[rng.below(anchors.len())];
            let r = 10f64.powf(rng.uniform(-5.0, -2.0));
            ((a.0 as f64 + rng.uniform(-r, r), a.1 as f64 + rng.uniform(-r, r)), "q_near_element")
        }
        6 => {
            // on the boundary of the patch (edge or corner)
            let x = if rng.chance(1, 2) { p.x0 } else { p.x0 + p.w };
            let y = if rng.chance(1, 2) { p.y0 } else { p.y0 + p.h };
            if rng.chance(1, 2) {
                ((x, y), "q_corner")
            } else if rng.chance(1, 2) {
                ((x, rng.uniform(p.y0, p.y0 + p.h)), "q_boundary")
            } else {
                ((rng.uniform(p.x0, p.x0 + p.w), y), "q_boundary")
            }
        }
        7 | 8 => {
            // outside, up to ~1 degree away
            let dx = rng.uniform(-1.0, 1.0);
            let dy = rng.uniform(-1.0, 1.0);
            ((p.x0 + dx, p.y0 + dy), "q_outside_near")
        }
        9 | 10 => {
            // far outside but valid WGS84
            ((rng.uniform(-180.0, 180.0), rng.uniform(-90.0, 90.0)), "q_far_outside")
        }
        _ => {
            // outside the WGS84 range: haversine refuses these
            if rng.chance(1, 4) {
                // beyond the f32 range: the coordinate becomes ±infinity
                let big = *rng.pick(&[3.5e38, -3.5e38, 1.0e300, -1.0e39, 1.0e20]);
                if rng.chance(1, 2) {
                    ((big, rng.uniform(-90.0, 90.0)), "q_extreme")
                } else {
                    ((rng.uniform(-180.0, 180.0), big), "q_extreme")
                }
            } else if rng.chance(1, 2) {
                ((rng.uniform(180.5, 400.0) * if rng.chance(1, 2) { 1.0 } else { -1.0 }, rng.uniform(-90.0, 90.0)), "q_out_of_range")
            } else {
                ((rng.uniform(-180.0, 180.0), rng.uniform(90.5, 200.0) * if rng.chance(1, 2) { 1.0 } else { -1.0 }), "q_out_of_range")
            }
        }
    }
}

fn num(x: f64, rng: &mut Rng) -> Value {
    // integers sometimes go in as JSON integers (as_f64 still succeeds)
    if x.fract() == 0.0 && x.abs() < 1e9 && rng.chance(1, 2) {
        json!(x as i64)
    } else {
        json!(x)
    }
}

fn random_value(rng: &mut Rng, depth: u32) -> Value {
    match rng.below(if depth > 1 { 5 } else { 7 }) {
        0 => Value::Null,
        1 => json!(rng.chance(1, 2)),
        2 => json!(rng.range(-1000, 1000)),
        3 => json!(rng.small_decimal(100, 3)),
        4 => json!(format!("s{}", rng.below(100))),
        5 => Value::Array((0..rng.below(4)).map(|_| random_value(rng, depth + 1)).collect()),
        _ => {
            let mut m = Map::new();
            for _ in 0..rng.below(4) {
                m.insert(format!("k{}", rng.below(6)), random_value(rng, depth + 1));
            }
            Value::Object(m)
        }
    }
}

const OTHER_KEYS: [&str; 10] = [
    "model_name",
    "weights",
    "query_id",
    "starting_soc_percent",
    "grid_search",
    "query_weight_estimate",
    "origin_name",
    "x",
    "origin_vertex_hint",
    "note",
];

/// what the query generator decided, so that the oracle knows what to expect without the model
struct QuerySpec {
    query: Value,
    origin: Option<(f64, f64)>,
    destination: Option<(f64, f64)>,
    /// the coordinate fields are well formed (origin present and numeric, destination absent or complete and numeric)
    coords_ok: bool,
}

/// builds the query object: other fields in random positions, coordinate fields, optional malformations.
/// `written` are the fields the plugin writes (sometimes pre-populated to exercise `Map::insert` on an existing key).
fn gen_query(rng: &mut Rng, o: (f64, f64), d: Option<(f64, f64)>, written: [&str; 2], extra: Vec<(String, Value)>, clean: bool) -> QuerySpec {
    let mut fields: Vec<(String, Value)> = vec![];
    fields.push(("origin_x".into(), num(o.0, rng)));
    fields.push(("origin_y".into(), num(o.1, rng)));
    if let Some(d) = d {
        fields.push(("destination_x".into(), num(d.0, rng)));
        fields.push(("destination_y".into(), num(d.1, rng)));
    }
    for _ in 0..rng.below(5) {
        let k = OTHER_KEYS[rng.below(OTHER_KEYS.len())].to_string();
        if !fields.iter().any(|(kk, _)| *kk == k) {
            fields.push((k, random_value(rng, 0)));
        }
    }
    for w in written.iter() {
        if rng.chance(1, 6) {
            let v = if rng.chance(1, 2) { json!(rng.below(50)) } else { random_value(rng, 1) };
            fields.push((w.to_string(), v));
        }
    }
    for e in extra {
        fields.push(e);
    }
    rng.shuffle(&mut fields);
    let mut coords_ok = true;
    let mut origin = Some(o);
    let mut destination = d;
    // malformations of the coordinate fields
    if !clean && rng.chance(1, 8) {
        coords_ok = false;
        let victims: Vec<&str> = if d.is_some() {
            vec!["origin_x", "origin_y", "destination_x", "destination_y"]
        } else {
            vec!["origin_x", "origin_y"]
        };
        let v = victims[rng.below(victims.len())];
        if v.starts_with("origin") {
            origin = None
        } else {
            destination = None
        }
        if rng.chance(1, 2) {
            fields.retain(|(k, _)| k != v);
        } else {
            let bad = match rng.below(4) {
                0 => json!("-105.1"),
                1 => Value::Null,
                2 => json!([1.0]),
                _ => json!(true),
            };
            for f in fields.iter_mut() {
                if f.0 == v {
                    f.1 = bad.clone();
                }
            }
        }
    }
    let mut m = Map::new();
    for (k, v) in fields {
        m.insert(k, v);
    }
    let mut query = Value::Object(m);
    if !clean && rng.chance(1, 40) {
        // not an object at all
        coords_ok = false;
        origin = None;
        destination = None;
        query = match rng.below(4) {
            0 => Value::Null,
            1 => json!([{"origin_x": o.0, "origin_y": o.1}]),
            2 => json!("origin_x"),
            _ => json!(17),
        };
    }
    QuerySpec { query, origin, destination, coords_ok }
}

fn to_f32(c: (f64, f64)) -> Coord<f32> {
    Coord::from((c.0 as f32, c.1 as f32))
}

fn unit_name(u: &DistanceUnit) -> String {
    format!("{}", u)
}

/// keys of `v` other than `written`, in order, with values; `None` when `v` is not an object
fn others(v: &Value, written: &[&str; 2]) -> Option<Vec<(String, Value)>> {
    v.as_object().map(|m| m.iter().filter(|(k, _)| !written.contains(&k.as_str())).map(|(k, v)| (k.clone(), v.clone())).collect())
}

fn check_other_fields(ctx: &mut Ctx, idx: usize, key: &str, before: &Value, after: &Value, written: &[&str; 2]) {
    match (others(before, written), others(after, written)) {
        (Some(a), Some(b)) => {
            if a != b {
                ctx.fail(idx, key, format!("fields other than {:?} changed: before {} after {}", written, before, after));
            }
        }
        _ => {
            if before != after {
                ctx.fail(idx, key, format!("non-object query changed: before {} after {}", before, after));
            }
        }
    }
}

/// tolerance choice: None, or (value, unit); `limit_m` is the great-circle distance (metres) to the element
/// the matcher should pick, `limit_code` the value the code itself compares against (in `unit`)
fn gen_tolerance(rng: &mut Rng, limit_m: Option<f64>, limit_code: &dyn Fn(&DistanceUnit) -> Option<f64>) -> (Option<(f64, DistanceUnit)>, &'static str) {
    // a configuration file cannot hold a non-finite number (an infinite distance_2 arises from extreme coordinates)
    match gen_tolerance_raw(rng, limit_m, limit_code) {
        (Some((v, u)), _) if !v.is_finite() => (Some((f64::MAX / 4.0, u)), "tol_huge"),
        other => other,
    }
}

fn gen_tolerance_raw(rng: &mut Rng, limit_m: Option<f64>, limit_code: &dyn Fn(&DistanceUnit) -> Option<f64>) -> (Option<(f64, DistanceUnit)>, &'static str) {
    if rng.chance(3, 10) {
        return (None, "tol_none");
    }
    let u = *rng.pick(&D);
    match rng.below(20) {
        0 | 1 | 2 | 3 => {
            // exactly the value the code compares with, and its neighbours
            if let Some(l) = limit_code(&u) {
                let bits = l.to_bits();
                let (v, name) = match rng.below(3) {
                    0 => (l, "tol_at_code_limit"),
                    1 => (f64::from_bits(bits + 1), "tol_just_above_code_limit"),
                    _ => (if bits > 0 { f64::from_bits(bits - 1) } else { -f64::MIN_POSITIVE }, "tol_just_below_code_limit"),
                };
                return (Some((v, u)), name);
            }
            (Some((1.0, u)), "tol_unit")
        }
        4 | 5 | 6 | 7 | 8 => {
            // around the great-circle distance in metres, converted with the SI factor
            if let Some(m) = limit_m {
                let f = *rng.pick(&[0.5, 0.9, 0.99, 1.0, 1.01, 1.1, 2.0]);
                return (Some((m * f / si_d(&u), u)), "tol_around_metre_limit");
            }
            (Some((100.0 / si_d(&u), u)), "tol_100m")
        }
        9 => (Some((0.0, u)), "tol_zero"),
        10 => (Some((-rng.uniform(0.0, 10.0), u)), "tol_negative"),
        11 | 12 => (Some((1.0e9 / si_d(&u), u)), "tol_huge"),
        _ => {
            let m = 10f64.powf(rng.uniform(-1.0, 5.5));
            (Some((m / si_d(&u), u)), "tol_random")
        }
    }
}

fn tol_tokens(t: &Option<(f64, DistanceUnit)>) -> String {
    match t {
        None => "n".into(),
        Some((v, u)) => format!("s {} {}", fbits(*v), unit_name(u)),
    }
}

fn outcome_line(r: &Result<Result<(), InputPluginError>, ()>, q: &Value) -> String {
    match r {
        Err(()) => "panic".into(),
        Ok(Ok(())) => format!("ok {}", enc(q)),
        Ok(Err(e)) => format!("err {} {}", err_kind(e), enc(q)),
    }
}

// ------------------------------------------------------------------------------------------------
// the oracle's own geometry (plain f64, none of the plugin's distance functions)
// ------------------------------------------------------------------------------------------------

/// spacing of f32 numbers at magnitude `x`
fn ulp32(x: f64) -> f64 {
    let a = x.abs().max(f32::MIN_POSITIVE as f64);
    if !a.is_finite() {
        return f64::INFINITY;
    }
    2f64.powi(a.log2().floor() as i32 - 23)
}

/// centroid of a linestring as `geo` defines it: the mean of the segment midpoints weighted by segment
/// length; segments of zero length do not count next to longer ones; if every segment has zero length
/// (or there is one point) all points coincide and that point is the centroid
fn own_centroid(pts: &[(f32, f32)]) -> Option<(f64, f64)> {
    if pts.is_empty() {
        return None;
    }
    let (mut w, mut ax, mut ay) = (0.0f64, 0.0f64, 0.0f64);
    for s in pts.windows(2) {
        let (x0, y0, x1, y1) = (s[0].0 as f64, s[0].1 as f64, s[1].0 as f64, s[1].1 as f64);
        let len = ((x1 - x0) * (x1 - x0) + (y1 - y0) * (y1 - y0)).sqrt();
        w += len;
        ax += len * (x0 + x1) / 2.0;
        ay += len * (y0 + y1) / 2.0;
    }
    if w > 0.0 {
        Some((ax / w, ay / w))
    } else {
        Some((pts[0].0 as f64, pts[0].1 as f64))
    }
}

/// midpoint of the bounding box (what the centroid must NOT be confused with)
fn bbox_mid(pts: &[(f32, f32)]) -> (f64, f64) {
    let xs = pts.iter().map(|p| p.0 as f64);
    let ys = pts.iter().map(|p| p.1 as f64);
    let (x0, x1) = (xs.clone().fold(f64::INFINITY, f64::min), xs.fold(f64::NEG_INFINITY, f64::max));
    let (y0, y1) = (ys.clone().fold(f64::INFINITY, f64::min), ys.fold(f64::NEG_INFINITY, f64::max));
    ((x0 + x1) / 2.0, (y0 + y1) / 2.0)
}

/// bound on how far the f32 centroid the code computes can be from the exact one (degrees)
fn centroid_eps(pts: &[(f32, f32)], q: (f64, f64)) -> f64 {
    let m = pts.iter().fold(q.0.abs().max(q.1.abs()), |m, p| m.max((p.0 as f64).abs()).max((p.1 as f64).abs()));
    4.0 * (pts.len() as f64 + 1.0) * ulp32(m)
}

fn dist(a: (f64, f64), b: (f64, f64)) -> f64 {
    ((a.0 - b.0) * (a.0 - b.0) + (a.1 - b.1) * (a.1 - b.1)).sqrt()
}

/// the query coordinate as the plugins see it (`as f32`), back in f64
fn seen(c: (f64, f64)) -> (f64, f64) {
    (c.0 as f32 as f64, c.1 as f32 as f64)
}

/// relative guard band of the independent nearest checks (the code computes and orders in f32)
const REL_BAND: f64 = 1.0e-4;

/// bent linestrings (L, hook, staircase: legs of different length, so centroid != bounding-box midpoint), each with
/// a straight competitor and a query placed where "nearest centroid" and "nearest bounding-box midpoint" disagree
fn gen_bent(rng: &mut Rng, patch: &Patch) -> (Vec<Vec<(f32, f32)>>, Vec<(f64, f64)>, Vec<(usize, usize)>) {
    let mut geoms: Vec<Vec<(f32, f32)>> = vec![];
    let mut queries = vec![];
    let mut pairs = vec![];
    let groups = 1 + rng.below(2);
    for gi in 0..groups {
        let base = (patch.x0 + 0.2 * gi as f64 + rng.uniform(0.0, 0.05), patch.y0 + rng.uniform(0.0, 0.05));
        let a = rng.uniform(0.01, 0.04);
        let b = a * rng.uniform(0.15, 0.6);
        let (sx, sy) = (if rng.chance(1, 2) { 1.0 } else { -1.0 }, if rng.chance(1, 2) { 1.0 } else { -1.0 });
        let swap = rng.chance(1, 2);
        // shape in (long, short) coordinates
        let shape: Vec<(f64, f64)> = match rng.below(5) {
            0 => vec![(0.0, 0.0), (a, 0.0), (a, b)],
            1 => vec![(0.0, 0.0), (a * rng.uniform(0.2, 0.8), 0.0), (a, 0.0), (a, b)],
            2 => vec![(0.0, 0.0), (a, 0.0), (a, b), (a * rng.uniform(0.6, 0.9), b)],
            3 => vec![(0.0, 0.0), (a, 0.0), (a, b), (a * 1.25, b), (a * 1.25, b * 1.5)],
            _ => vec![(0.0, 0.0), (a * 0.5, 0.0), (a, 0.0), (a, b * 0.5), (a, b), (a * 0.9, b * 1.2)],
        };
        let bent: Vec<(f32, f32)> = shape
            .iter()
            .map(|(l, s)| {
                let (dx, dy) = if swap { (*s, *l) } else { (*l, *s) };
                ((base.0 + sx * dx) as f32, (base.1 + sy * dy) as f32)
            })
            .collect();
        let c = own_centroid(&bent).unwrap();
        let m = bbox_mid(&bent);
        // the query sits near one of the two points; the competitor's centre lies between the two distances
        let near_centroid = rng.chance(1, 2);
        let (near, far) = if near_centroid { (c, m) } else { (m, c) };
        let delta = dist(c, m);
        let r = delta * rng.uniform(0.0, 0.3);
        let th = rng.uniform(0.0, std::f64::consts::TAU);
        let q = (near.0 + r * th.cos(), near.1 + r * th.sin());
        let d_far = dist(q, far);
        let rho = r + (d_far - r) * rng.uniform(0.25, 0.75);
        let th2 = rng.uniform(0.0, std::f64::consts::TAU);
        let cb = (q.0 + rho * th2.cos(), q.1 + rho * th2.sin());
        let h = rng.uniform(0.0002, 0.001);
        let th3 = rng.uniform(0.0, std::f64::consts::TAU);
        let mut straight = vec![((cb.0 - h * th3.cos()) as f32, (cb.1 - h * th3.sin()) as f32), ((cb.0 + h * th3.cos()) as f32, (cb.1 + h * th3.sin()) as f32)];
        if rng.chance(1, 3) {
            straight.insert(1, (cb.0 as f32, cb.1 as f32)); // a collinear middle point
        }
        let ia = geoms.len();
        if rng.chance(1, 2) {
            geoms.push(bent);
            geoms.push(straight);
            pairs.push((ia, ia + 1));
        } else {
            geoms.push(straight);
            geoms.push(bent);
            pairs.push((ia + 1, ia));
        }
        queries.push(q);
    }
    // a few bystanders further away
    for _ in 0..rng.below(4) {
        let p = (patch.x0 - 0.3 + rng.uniform(0.0, 0.1), patch.y0 + rng.uniform(0.0, 0.3));
        geoms.push(vec![(p.0 as f32, p.1 as f32), ((p.0 + rng.uniform(-0.01, 0.01)) as f32, (p.1 + rng.uniform(-0.01, 0.01)) as f32)]);
    }
    (geoms, queries, pairs)
}

// ------------------------------------------------------------------------------------------------
// vertex matcher
// ------------------------------------------------------------------------------------------------

struct VScan {
    /// (id, d2, great-circle metres or None when haversine refuses) in the model's candidate order
    cands: Vec<(usize, f32, Option<f64>)>,
    min_d2: Option<f32>,
}

fn vertex_scan(ctx: &mut Ctx, idx: usize, vertices: &[Vertex], tree: &VertexRTree, c: Coord<f32>) -> VScan {
    // exhaustive scan with the real distance function
    let table: BTreeMap<usize, (f32, Option<f64>)> = vertices
        .iter()
        .map(|v| {
            let d2 = RTreeVertex::new(*v).distance_2(&c);
            let gc = haversine::coord_distance_meters(&c, &v.coordinate).ok().map(|d| d.as_f64());
            (v.vertex_id.0, (d2, gc))
        })
        .collect();
    let min_d2 = table.values().map(|t| t.0).fold(None, |m: Option<f32>, d| match m {
        None => Some(d),
        Some(x) => Some(if d < x { d } else { x }),
    });
    // candidate order: rstar's nearest-neighbour iterator on an identical tree
    let order: Vec<usize> = tree.nearest_vertices(c, vertices.len() + 1).iter().map(|v| v.vertex_id.0).collect();
    let mut cands: Vec<(usize, f32, Option<f64>)> = order.iter().map(|id| (*id, table[id].0, table[id].1)).collect();
    // assumption check: a permutation in non-decreasing distance_2
    let distinct: BTreeSet<usize> = order.iter().cloned().collect();
    if order.len() != vertices.len() || distinct.len() != table.len() {
        ctx.fail(idx, "rstar/iteration-not-a-permutation", format!("{} vertices, iterator gave {}", vertices.len(), order.len()));
    }
    if cands.windows(2).any(|w| !(w[0].1 <= w[1].1)) {
        ctx.fail(idx, "rstar/iteration-order", format!("nearest_neighbor_iter not in non-decreasing distance_2 at {:?}", c));
    }
    // `nearest_neighbor` (single result) may resolve an exact tie differently from the iterator: put its
    // choice first among the candidates of equal distance_2 (the list stays sorted); a non-tied
    // disagreement is left alone and shows up as a correspondence failure and an oracle failure
    if let Some(first) = tree.nearest_vertex(c) {
        let fid = first.vertex_id.0;
        if let Some(pos) = cands.iter().position(|t| t.0 == fid) {
            if pos > 0 && cands[pos].1 == cands[0].1 {
                let t = cands.remove(pos);
                cands.insert(0, t);
                ctx.count("vertex_tie_resolved_differently_by_nearest_neighbor");
            }
        }
    }
    VScan { cands, min_d2 }
}

fn vcands_tokens(s: &Option<VScan>) -> String {
    match s {
        None => "n".into(),
        Some(s) => {
            let mut out = format!("s {}", s.cands.len());
            for (id, d2, gc) in &s.cands {
                out.push_str(&format!(" {} {} ", id, fbits(*d2 as f64)));
                match gc {
                    None => out.push('n'),
                    Some(g) => out.push_str(&format!("s {}", fbits(*g))),
                }
            }
            out
        }
    }
}

/// what the property demands of one coordinate of the vertex matcher
enum Expect {
    Match,
    Error,
    Either,
}

fn vertex_expect(scan: &VScan, tol: &Option<(f64, DistanceUnit)>) -> Expect {
    let Some(min) = scan.min_d2 else { return Expect::Error };
    match tol {
        None => Expect::Match,
        Some((t, u)) => {
            let t_m = t * si_d(u);
            let gcs: Vec<Option<f64>> = scan.cands.iter().filter(|c| c.1 == min).map(|c| c.2).collect();
            if gcs.iter().any(|g| g.is_none()) {
                return Expect::Either; // no great-circle distance is defined outside the WGS84 range
            }
            let gcs: Vec<f64> = gcs.into_iter().flatten().collect();
            if gcs.iter().all(|g| *g > t_m.abs() * SLACK + t_m + 1e-9) {
                Expect::Error
            } else if gcs.iter().all(|g| *g < t_m - t_m.abs() * SLACK - 1e-9) {
                Expect::Match
            } else {
                Expect::Either
            }
        }
    }
}

fn vertex_case(ctx: &mut Ctx, idx: usize, files: &Files, forced: Option<usize>, scenario: u8) {
    let mut rng = Rng::for_case(ctx.seed, 16, idx as u64);
    let patch = gen_patch(&mut rng);
    // vertices
    let n = match forced {
        Some(0) => 3,
        Some(_) => 1,
        None => match rng.below(10) {
            0 => rng.below(2),
            1 => 1,
            2 | 3 => 2 + rng.below(5),
            4 | 5 | 6 => 7 + rng.below(30),
            _ => 40 + rng.below(if ctx.quick() { 60 } else { 400 }),
        },
    };
    let mut ids: Vec<usize> = (0..n).collect();
    if rng.chance(1, 3) {
        // ids that are not row numbers
        rng.shuffle(&mut ids);
        let off = rng.below(1000);
        for i in ids.iter_mut() {
            *i = *i * 3 + off;
        }
    }
    let mut pts: Vec<(f32, f32)> = (0..n).map(|_| gen_point(&mut rng, &patch)).collect();
    if n >= 2 && rng.chance(1, 5) {
        // duplicate coordinates under different ids
        let a = rng.below(n);
        let b = rng.below(n);
        pts[b] = pts[a];
    }
    // scenarios where "nearest by Euclid in degrees" and "nearest on the globe" part ways, or where the network
    // itself leaves the WGS84 range
    match scenario {
        1 => {
            // both sides of the dateline
            for p in pts.iter_mut() {
                let x = 180.0 - rng.uniform(0.0, 0.3);
                *p = ((if rng.chance(1, 2) { x } else { -x }) as f32, rng.uniform(-0.3, 0.3) as f32);
            }
            ctx.count("vertex_scenario_dateline");
        }
        2 => {
            // around a pole: a degree of longitude is almost nothing there
            let s = if rng.chance(1, 2) { 1.0 } else { -1.0 };
            for p in pts.iter_mut() {
                *p = (rng.uniform(-180.0, 180.0) as f32, (s * rng.uniform(89.0, 90.0)) as f32);
            }
            ctx.count("vertex_scenario_polar");
        }
        3 => {
            // a network that sticks out of [-180,180] x [-90,90]
            let high_lat = rng.chance(1, 3);
            for p in pts.iter_mut() {
                *p = if high_lat { (rng.uniform(-10.0, 10.0) as f32, rng.uniform(89.8, 90.2) as f32) } else { (rng.uniform(179.8, 180.2) as f32, rng.uniform(-0.2, 0.2) as f32) };
            }
            ctx.count("vertex_scenario_network_out_of_range");
        }
        _ => {}
    }
    if forced == Some(0) {
        pts = vec![(0.0, 0.0), (1.0, 1.0), (2.0, 2.0)];
        ids = vec![0, 1, 2];
    }
    if forced == Some(1) {
        // witness of vertex-match/tolerance-boundary: one vertex, tolerance = its exact distance
        pts = vec![(0.0, 0.0)];
        ids = vec![0];
    }
    let mut csv = String::from("vertex_id,x,y\n");
    for (i, p) in ids.iter().zip(pts.iter()) {
        csv.push_str(&format!("{},{},{}\n", i, p.0, p.1));
    }
    let vfile = files.write("vertices.csv", &csv);
    let vertices: Vec<Vertex> = ids.iter().zip(pts.iter()).map(|(i, p)| Vertex::new(*i, p.0, p.1)).collect();
    let tree = VertexRTree::new(vertices.clone());
    // the other constructor: the r-tree of a graph's vertices
    let graph = Graph { adj: vec![].into_boxed_slice(), rev: vec![].into_boxed_slice(), edges: vec![].into_boxed_slice(), vertices: vertices.clone().into_boxed_slice() };
    let gtree = VertexRTree::from_directed_graph(&graph);

    // query coordinates
    let (mut o, ob) = gen_query_coord(&mut rng, &patch, &pts);
    let mut d = if rng.chance(3, 5) { Some(gen_query_coord(&mut rng, &patch, &pts)) } else { None };
    if forced == Some(0) {
        // the repository's own test case
        o = (0.1, 0.1);
        d = Some(((1.9, 2.1), "q_inside"));
    }
    if forced == Some(1) {
        o = (0.0, 0.001);
        d = None;
    }
    let mut ob = ob;
    if scenario != 0 {
        let mut pick = |rng: &mut Rng| -> (f64, f64) {
            match scenario {
                1 => {
                    let x = 180.0 - rng.uniform(0.0, 0.05);
                    (if rng.chance(1, 2) { x } else { -x }, rng.uniform(-0.3, 0.3))
                }
                2 => (rng.uniform(-180.0, 180.0), pts.first().map(|p| p.1.signum() as f64).unwrap_or(1.0) * rng.uniform(89.5, 90.0)),
                _ => {
                    if pts.first().map(|p| p.1 > 45.0).unwrap_or(false) {
                        (rng.uniform(-10.0, 10.0), rng.uniform(89.7, 90.0))
                    } else {
                        (rng.uniform(179.7, 180.0), rng.uniform(-0.2, 0.2))
                    }
                }
            }
        };
        o = pick(&mut rng);
        ob = "q_scenario";
        d = d.map(|_| (pick(&mut rng), "q_scenario"));
    }
    ctx.count(&format!("vertex_origin_{}", ob));
    match &d {
        Some((_, b)) => ctx.count(&format!("vertex_destination_{}", b)),
        None => ctx.count("vertex_destination_absent"),
    }
    let spec = gen_query(&mut rng, o, d.map(|x| x.0), ["origin_vertex", "destination_vertex"], vec![], forced.is_some());
    if let Some(c) = spec.origin {
        let a = tree.nearest_vertex(to_f32(c)).map(|v| v.vertex_id.0);
        let b = gtree.nearest_vertex(to_f32(c)).map(|v| v.vertex_id.0);
        if a != b {
            ctx.fail(idx, "vertex-rtree/from-directed-graph-differs", format!("nearest to {:?}: {:?} from the vertex list, {:?} from the graph", c, a, b));
        }
    }
    let oscan = spec.origin.map(|c| vertex_scan(ctx, idx, &vertices, &tree, to_f32(c)));
    let dscan = spec.destination.map(|c| vertex_scan(ctx, idx, &vertices, &tree, to_f32(c)));

    // tolerance, aimed at the origin's (or the destination's) nearest vertex
    let target = if rng.chance(1, 2) { oscan.as_ref() } else { dscan.as_ref().or(oscan.as_ref()) };
    let limit_m = target.and_then(|s| s.cands.first()).and_then(|c| c.2);
    let limit_code = |u: &DistanceUnit| limit_m.map(|m| DistanceUnit::Meters.convert(&Distance::new(m), u).as_f64());
    let (mut tol, tb) = gen_tolerance(&mut rng, limit_m, &limit_code);
    if forced == Some(0) {
        tol = None;
    }
    if forced == Some(1) {
        tol = limit_m.map(|m| (m, DistanceUnit::Meters));
    }
    ctx.count(&format!("vertex_{}", if forced.is_some() { "corpus" } else { tb }));

    // the real plugin, through its builder
    let mut params = json!({"type": "vertex_rtree", "vertices_input_file": vfile});
    let mut omit_unit = false;
    if let Some((t, u)) = &tol {
        params["distance_tolerance"] = json!(t);
        if *u == DistanceUnit::Meters && rng.chance(1, 2) {
            omit_unit = true; // BASE_DISTANCE_UNIT is assumed
        } else {
            params["distance_unit"] = json!(unit_name(u));
        }
    } else if rng.chance(1, 4) {
        params["distance_unit"] = json!(unit_name(rng.pick(&D))); // a unit without a tolerance means no tolerance
    }
    if omit_unit {
        ctx.count("vertex_tolerance_unit_defaulted");
    }
    let plugin = match (VertexRTreeBuilder {}).build(&params) {
        Ok(p) => p,
        Err(e) => {
            ctx.emit(idx, "v-build-failed".into(), "build-failed".into());
            ctx.fail(idx, "harness/vertex-build", format!("builder refused a valid configuration: {}", e));
            return;
        }
    };
    let before = spec.query.clone();
    let mut q = spec.query.clone();
    let r = catch_unwind(AssertUnwindSafe(|| plugin.process(&mut q))).map_err(|_| ());
    let out = outcome_line(&r, &q);
    let case = format!("v {} {} {} {}", tol_tokens(&tol), enc(&before), vcands_tokens(&oscan), vcands_tokens(&dscan));
    ctx.emit(idx, case, out);
    match &r {
        Err(()) => ctx.count("vertex_outcome_panic"),
        Ok(Ok(())) => ctx.count("vertex_outcome_ok"),
        Ok(Err(e)) => ctx.count(&format!("vertex_outcome_err_{}", err_kind(e).replace(' ', "_"))),
    }
    if spec.coords_ok && n > 1 {
        ctx.nontrivial(&format!("v {} {:?} {:?} {}", tol_tokens(&tol), spec.origin, spec.destination, csv));
    }

    // ---- oracle ----
    if r.is_err() {
        ctx.fail(idx, "vertex-match/panic", format!("process panicked on {}", before));
        return;
    }
    check_other_fields(ctx, idx, "vertex-match/other-fields-changed", &before, &q, &["origin_vertex", "destination_vertex"]);
    let ok = matches!(r, Ok(Ok(())));
    if !spec.coords_ok {
        if ok {
            ctx.fail(idx, "vertex-match/accepts-malformed", format!("malformed coordinate fields accepted: {}", before));
        }
        return;
    }
    let mut expect_ok = true; // every coordinate must match
    let mut expect_err = false; // some coordinate must fail
    let mut sides = vec![("origin_vertex", oscan.as_ref().unwrap())];
    if let Some(s) = dscan.as_ref() {
        sides.push(("destination_vertex", s));
    }
    for (field, scan) in &sides {
        match vertex_expect(scan, &tol) {
            Expect::Match => {}
            Expect::Error => {
                expect_ok = false;
                expect_err = true;
            }
            Expect::Either => expect_ok = false,
        }
        if ok {
            // the written id must be a minimiser of distance_2 over ALL vertices
            let written = q.get(*field).and_then(|v| v.as_u64());
            let good = match (written, scan.min_d2) {
                (Some(id), Some(min)) => scan.cands.iter().any(|c| c.0 as u64 == id && c.1 == min),
                _ => false,
            };
            if !good {
                ctx.fail(idx, "vertex-match/not-nearest", format!("{} = {:?} is not a nearest vertex (min distance_2 {:?}); query {}", field, q.get(*field), scan.min_d2, before));
            }
            // not demanded by the property (nearest is "under the plugin's distance measure", Euclid in degrees), but
            // worth knowing: is the match also the nearest vertex on the globe?
            if let Some(id) = written {
                let gmin = scan.cands.iter().filter_map(|c| c.2).fold(f64::INFINITY, f64::min);
                if let Some(g) = scan.cands.iter().find(|c| c.0 as u64 == id).and_then(|c| c.2) {
                    if g > gmin * 1.001 + 1.0 {
                        ctx.count("vertex_match_is_not_the_great_circle_nearest");
                    }
                }
            }
            // the same with the oracle's OWN measure: squared Euclidean coordinate distance in f64 from the
            // coordinate as the plugin sees it (f32) to the vertex coordinates written to the file
            let side_q = if *field == "origin_vertex" { spec.origin } else { spec.destination };
            if let (Some(id), Some(qraw)) = (written, side_q) {
                let qs = seen(qraw);
                let own_d2 = |p: &(f32, f32)| (p.0 as f64 - qs.0) * (p.0 as f64 - qs.0) + (p.1 as f64 - qs.1) * (p.1 as f64 - qs.1);
                let best = ids.iter().zip(pts.iter()).map(|(i, p)| (*i, own_d2(p))).fold(None, |m: Option<(usize, f64)>, c| match m {
                    Some(x) if x.1 <= c.1 => Some(x),
                    _ => Some(c),
                });
                let mine = ids.iter().zip(pts.iter()).find(|(i, _)| **i as u64 == id).map(|(_, p)| own_d2(p));
                if let (Some(best), Some(mine)) = (best, mine) {
                    if !(mine <= best.1 * (1.0 + REL_BAND) + 1e-30) {
                        ctx.fail(
                            idx,
                            "vertex-match/not-nearest-independent",
                            format!("{} = {} is {} deg^2 from the query {:?} but vertex {} is only {} deg^2 away", field, id, mine, qs, best.0, best.1),
                        );
                    }
                }
            }
        }
    }
    if sides.len() == 1 && ok && before.get("destination_vertex") != q.get("destination_vertex") {
        ctx.fail(idx, "vertex-match/destination-written-without-coordinate", format!("{} -> {}", before, q));
    }
    if ok && expect_err {
        ctx.fail(idx, "vertex-match/beyond-tolerance-matched", format!("matched although the nearest vertex is beyond {:?}: {}", tol, q));
    }
    if !ok && expect_ok {
        ctx.fail(idx, "vertex-match/within-tolerance-rejected", format!("error although every coordinate has a nearest vertex within {:?}: {}", tol, before));
    }
    // the boundary itself, in the code's own arithmetic: distance == tolerance is not "beyond"
    if !ok {
        if let Some((t, u)) = &tol {
            let mut at_limit = false;
            let mut beyond = false;
            for (_, scan) in &sides {
                match scan.cands.first().and_then(|c| c.2) {
                    Some(g) => {
                        let dist = DistanceUnit::Meters.convert(&Distance::new(g), u).as_f64();
                        if dist == *t {
                            at_limit = true
                        } else if dist > *t {
                            beyond = true
                        }
                    }
                    None => beyond = true,
                }
            }
            if at_limit && !beyond {
                ctx.fail(idx, "vertex-match/tolerance-boundary", format!("nearest vertex is exactly {} {} away, tolerance {} {}: rejected (the comparison is >=)", t, u, t, u));
            }
        }
    }
}

// ------------------------------------------------------------------------------------------------
// edge matcher
// ------------------------------------------------------------------------------------------------

struct EScan {
    /// (edge id, d2, road class, vehicle ok, great-circle metres to the centroid) in rstar's order
    cands: Vec<(usize, f32, Option<u8>, bool, Option<f64>)>,
}

fn edge_scan(ctx: &mut Ctx, idx: usize, plugin: &EdgeRtreeInputPlugin, n_edges: usize, c: Coord<f32>, vp: &Option<VehicleParameters>) -> Result<EScan, ()> {
    let point = Point(c);
    catch_unwind(AssertUnwindSafe(|| {
        let mut table: BTreeMap<usize, (f32, Option<u8>, bool, Option<f64>)> = BTreeMap::new();
        for rec in plugin.rtree.iter() {
            let d2 = rec.distance_2(&point);
            let cls = plugin.road_class_lookup.as_ref().and_then(|l| l.get(rec.edge_id.0).cloned());
            let veh = match (&plugin.vehicle_restrictions, vp) {
                (Some(vr), Some(vp)) => match vr.get(&rec.edge_id) {
                    Some(rs) => rs.iter().all(|r| r.valid(vp)),
                    None => true,
                },
                _ => true,
            };
            let gc = rec.geometry.centroid().and_then(|ct| haversine::coord_distance_meters(&c, &ct.0).ok()).map(|d| d.as_f64());
            table.insert(rec.edge_id.0, (d2, cls, veh, gc));
        }
        let order: Vec<(usize, f32)> = plugin.rtree.nearest_neighbor_iter_with_distance_2(&point).map(|(r, d)| (r.edge_id.0, d)).collect();
        (table, order)
    }))
    .map_err(|_| ())
    .map(|(table, order)| {
        let distinct: BTreeSet<usize> = order.iter().map(|t| t.0).collect();
        if order.len() != n_edges || distinct.len() != n_edges || table.len() != n_edges {
            ctx.fail(idx, "rstar/iteration-not-a-permutation", format!("{} edges, iterator gave {}", n_edges, order.len()));
        }
        if order.windows(2).any(|w| !(w[0].1 <= w[1].1)) {
            ctx.fail(idx, "rstar/iteration-order", format!("nearest_neighbor_iter_with_distance_2 not in non-decreasing distance_2 at {:?}", c));
        }
        if order.iter().any(|(id, d)| table[id].0.to_bits() != d.to_bits()) {
            ctx.fail(idx, "rstar/iteration-distance", "iterator distance differs from distance_2".to_string());
        }
        EScan { cands: order.iter().map(|(id, d)| (*id, *d, table[id].1, table[id].2, table[id].3)).collect() }
    })
}

fn ecands_tokens(s: &Option<EScan>) -> String {
    match s {
        None => "n".into(),
        Some(s) => {
            let mut out = format!("s {}", s.cands.len());
            for (id, d2, cls, veh, gc) in &s.cands {
                out.push_str(&format!(" {} {} ", id, fbits(*d2 as f64)));
                match cls {
                    None => out.push('n'),
                    Some(k) => out.push_str(&format!("s {}", k)),
                }
                out.push_str(if *veh { " 1 " } else { " 0 " });
                match gc {
                    None => out.push('n'),
                    Some(g) => out.push_str(&format!("s {}", fbits(*g))),
                }
            }
            out
        }
    }
}

const CLASS_NAMES: [&str; 4] = ["motorway", "primary", "residential", "track"];

/// the oracle's own reading of `road_classes` (None = unreadable, Some(None) = absent)
fn oracle_classes(q: &Value, mapping: &[(String, u8)]) -> Option<Option<BTreeSet<u8>>> {
    let Some(v) = q.get("road_classes") else { return Some(None) };
    let arr = v.as_array()?;
    let ints: Option<BTreeSet<u8>> = arr.iter().map(|x| if x.is_u64() { x.as_u64().filter(|n| *n <= 255).map(|n| n as u8) } else { None }).collect();
    if let Some(s) = ints {
        return Some(Some(s));
    }
    if mapping.is_empty() {
        return None;
    }
    let strs: Option<BTreeSet<u8>> = arr.iter().map(|x| x.as_str().and_then(|s| mapping.iter().find(|m| m.0 == s).map(|m| m.1))).collect();
    strs.map(Some)
}

fn edge_case(ctx: &mut Ctx, idx: usize, files: &Files, forced: Option<usize>, scenario: u8) {
    let bent = scenario == 1;
    let truncated_lookup = scenario == 2;
    let mut rng = Rng::for_case(ctx.seed, 16, idx as u64);
    let mut patch = gen_patch(&mut rng);
    if scenario == 3 {
        // a network that sticks out of [-180,180] x [-90,90]: centroids the haversine refuses
        patch = if rng.chance(1, 3) { Patch { x0: -5.0, y0: 89.9, w: 0.25, h: 0.25, dyadic: false } } else { Patch { x0: 179.9, y0: -0.1, w: 0.25, h: 0.25, dyadic: false } };
        ctx.count("edge_scenario_network_out_of_range");
    }
    let n = match forced {
        Some(_) => 1,
        None => match rng.below(10) {
            0 => rng.below(2),
            1 => 1,
            2 | 3 | 4 => 2 + rng.below(6),
            5 | 6 | 7 => 8 + rng.below(30),
            _ => 40 + rng.below(if ctx.quick() { 40 } else { 300 }),
        },
    };
    // linestrings: 1..5 points, short segments; some degenerate (single point, repeated point, axis parallel)
    let mut geoms: Vec<Vec<(f32, f32)>> = vec![];
    for _ in 0..n {
        let start = gen_point(&mut rng, &patch);
        let k = 1 + rng.below(5);
        let mut pts = vec![start];
        for _ in 1..k {
            let last = *pts.last().unwrap();
            let step = if patch.dyadic { (rng.range(-2, 2) as f32 / 128.0, rng.range(-2, 2) as f32 / 128.0) } else { (rng.uniform(-0.01, 0.01) as f32, rng.uniform(-0.01, 0.01) as f32) };
            let step = match rng.below(8) {
                0 => (0.0, 0.0),
                1 => (step.0, 0.0),
                2 => (0.0, step.1),
                _ => step,
            };
            pts.push((last.0 + step.0, last.1 + step.1));
        }
        geoms.push(pts);
    }
    if n >= 2 && rng.chance(1, 6) {
        let a = rng.below(n);
        let b = rng.below(n);
        geoms[b] = geoms[a].clone();
    }
    if forced.is_some() {
        // witness of edge-match/tolerance-units: one edge whose centroid is (0,0)
        geoms = vec![vec![(-0.0005, 0.0), (0.0005, 0.0)]];
    }
    let mut bent_queries: Vec<(f64, f64)> = vec![];
    if bent {
        let (g, qs, _pairs) = gen_bent(&mut rng, &patch);
        geoms = g;
        bent_queries = qs;
        ctx.count("edge_bent_scenario");
    }
    let n = geoms.len();
    let wkt: String = geoms.iter().map(|g| format!("LINESTRING ({})\n", g.iter().map(|p| format!("{} {}", p.0, p.1)).collect::<Vec<_>>().join(", "))).collect();
    let gfile = files.write("geometries.txt", &wkt);

    // road classes
    let with_classes = forced.is_none() && !bent && (rng.chance(3, 5) || truncated_lookup);
    let n_classes = 1 + rng.below(4);
    let classes: Vec<u8> = (0..n).map(|_| rng.below(n_classes) as u8 + if rng.chance(1, 10) { 252 } else { 0 }).collect();
    let cfile = if with_classes { Some(files.write("road_classes.txt", &classes.iter().map(|c| format!("{}\n", c)).collect::<String>())) } else { None };
    let mapping: Vec<(String, u8)> = if forced.is_none() && rng.chance(1, 3) { CLASS_NAMES.iter().enumerate().take(n_classes).map(|(i, s)| (s.to_string(), i as u8)).collect() } else { vec![] };

    // vehicle restrictions
    let with_restrictions = forced.is_none() && !bent && rng.chance(2, 5);
    let mut rcsv = String::from("edge_id,restriction_name,restriction_value,restriction_unit\n");
    if with_restrictions {
        for e in 0..n {
            for _ in 0..(if rng.chance(1, 3) { 1 + rng.below(2) } else { 0 }) {
                match rng.below(4) {
                    0 => rcsv.push_str(&format!("{},maximum_height,{},{}\n", e, rng.small_decimal(5, 1), rng.pick(&["meters", "feet"]))),
                    1 => rcsv.push_str(&format!("{},maximum_total_weight,{},{}\n", e, rng.range(1, 40), rng.pick(&["tons", "kg", "pounds"]))),
                    2 => rcsv.push_str(&format!("{},maximum_length,{},{}\n", e, rng.range(5, 30), rng.pick(&["meters", "feet"]))),
                    _ => rcsv.push_str(&format!("{},maximum_weight_per_axle,{},{}\n", e, rng.range(1, 12), "tons")),
                }
            }
        }
    }
    let rfile = if with_restrictions { Some(files.write("restrictions.csv", &rcsv)) } else { None };

    // query: coordinates, road_classes, vehicle_parameters
    let anchors: Vec<(f32, f32)> = geoms.iter().map(|g| g[rng.below(g.len())]).collect();
    let (mut o, ob) = gen_query_coord(&mut rng, &patch, &anchors);
    let mut d = if rng.chance(1, 2) { Some(gen_query_coord(&mut rng, &patch, &anchors)) } else { None };
    if forced.is_some() {
        o = (0.003, 0.0); // ~333 m east of the centroid
        d = None;
    }
    let mut ob = ob;
    if bent {
        o = bent_queries[0];
        ob = "q_between_centroid_and_bbox_midpoint";
        d = bent_queries.get(1).map(|q| (*q, "q_between_centroid_and_bbox_midpoint"));
    }
    ctx.count(&format!("edge_origin_{}", ob));
    match &d {
        Some((_, b)) => ctx.count(&format!("edge_destination_{}", b)),
        None => ctx.count("edge_destination_absent"),
    }
    let mut extra: Vec<(String, Value)> = vec![];
    let mut classes_branch = "edge_road_classes_absent";
    if forced.is_none() && !bent && rng.chance(3, 5) {
        let (v, b) = match rng.below(24) {
            0 => (json!([]), "edge_road_classes_empty"),
            1 => (json!([*rng.pick(&[256u64, 300, 65536, 4294967296])]), "edge_road_classes_out_of_u8"),
            2 => (json!([-1, 0]), "edge_road_classes_negative"),
            3 => (json!([1.0, 0]), "edge_road_classes_float"),
            4 => (json!("primary"), "edge_road_classes_not_array"),
            5 => (json!(["primary", "motorway"]), "edge_road_classes_strings"),
            6 => (json!(["primary", "no_such_class"]), "edge_road_classes_unknown_string"),
            7 => (json!(["primary", 1]), "edge_road_classes_mixed"),
            _ => {
                let k = 1 + rng.below(3);
                let xs: Vec<u64> = (0..k).map(|_| if rng.chance(1, 10) { 252 + rng.below(4) as u64 } else { rng.below(n_classes + 1) as u64 }).collect();
                (json!(xs), "edge_road_classes_ints")
            }
        };
        extra.push(("road_classes".into(), v));
        classes_branch = b;
    }
    ctx.count(classes_branch);
    if forced.is_none() && rng.chance(1, 2) {
        let v = if rng.chance(1, 6) {
            json!({"height": [rng.small_decimal(5, 1), "meters"]}) // incomplete: treated as absent
        } else {
            json!({
                "height": [rng.small_decimal(5, 1), "meters"],
                "width": [rng.small_decimal(3, 1), "meters"],
                "total_length": [rng.range(4, 25), "meters"],
                "trailer_length": [rng.range(0, 15), "meters"],
                "total_weight": [rng.range(1, 40), "tons"],
                "number_of_axles": rng.range(2, 6),
            })
        };
        extra.push(("vehicle_parameters".into(), v));
        ctx.count("edge_vehicle_parameters_present");
    }
    let spec = gen_query(&mut rng, o, d.map(|x| x.0), ["origin_edge", "destination_edge"], extra, forced.is_some());
    let vp = VehicleParameters::from_query(&spec.query).ok();

    // a first instance without tolerance gives the tables (the tree does not depend on the tolerance)
    let parser_json = json!({"mapping": mapping.iter().map(|(k, v)| (k.clone(), json!(v))).collect::<Map<String, Value>>()});
    let mk = |tol: &Option<(f64, DistanceUnit)>| {
        EdgeRtreeInputPlugin::new(cfile.clone(), rfile.clone(), gfile.clone(), tol.map(|t| Distance::new(t.0)), tol.map(|t| t.1), serde_json::from_value(parser_json.clone()).expect("parser"))
    };
    // the lookup shorter than the network: unreachable through `new` (it compares the lengths) but the fields are
    // public; this is the "road class file missing edge" arm of `search`
    let keep_classes = if truncated_lookup && n > 0 { rng.below(n) } else { n };
    let truncate = |mut p: EdgeRtreeInputPlugin| {
        if truncated_lookup {
            if let Some(l) = p.road_class_lookup.as_mut() {
                l.truncate(keep_classes);
            }
        }
        p
    };
    if truncated_lookup {
        ctx.count("edge_scenario_truncated_road_class_lookup");
    }
    let probe = match mk(&None).map(truncate) {
        Ok(p) => p,
        Err(e) => {
            ctx.emit(idx, "e-build-failed".into(), "build-failed".into());
            ctx.fail(idx, "harness/edge-build", format!("EdgeRtreeInputPlugin::new refused valid files: {}", e));
            return;
        }
    };
    let oscan = match spec.origin.map(|c| edge_scan(ctx, idx, &probe, n, to_f32(c), &vp)).transpose() {
        Ok(s) => s,
        Err(()) => None,
    };
    let dscan = match spec.destination.map(|c| edge_scan(ctx, idx, &probe, n, to_f32(c), &vp)).transpose() {
        Ok(s) => s,
        Err(()) => None,
    };
    let qclasses = oracle_classes(&spec.query, &mapping);
    let admissible = |c: &(usize, f32, Option<u8>, bool, Option<f64>)| -> bool {
        let class_ok = match (&qclasses, with_classes) {
            (Some(Some(set)), true) => c.2.map(|k| set.contains(&k)).unwrap_or(false),
            _ => true,
        };
        class_ok && c.3
    };
    // nearest admissible candidate of the side the tolerance is aimed at
    let target = if rng.chance(1, 2) { oscan.as_ref() } else { dscan.as_ref().or(oscan.as_ref()) };
    let first_adm = target.and_then(|s| s.cands.iter().find(|c| admissible(c)).cloned());
    let limit_m = first_adm.and_then(|c| c.4);
    let limit_d2 = first_adm.map(|c| c.1 as f64);
    // the code compares distance_2 with the tolerance converted to metres; a correct comparison would be with
    // the great-circle distance converted into the tolerance unit: both limits are exercised
    let limit_by_d2 = rng.chance(1, 2);
    let limit_code = |u: &DistanceUnit| (if limit_by_d2 { limit_d2 } else { limit_m }).map(|x| DistanceUnit::Meters.convert(&Distance::new(x), u).as_f64());
    let (mut tol, tb) = gen_tolerance(&mut rng, limit_m, &limit_code);
    if let Some(k) = forced {
        tol = Some(match k {
            0 => (1.0, DistanceUnit::Meters),
            1 => (3.0, DistanceUnit::Feet),
            _ => (0.01, DistanceUnit::Kilometers),
        });
    }
    let mut tb = tb;
    if bent && rng.chance(1, 2) {
        // between the great-circle distances of the two edges whose (own) centroids are nearest to one of the queries
        let qs = seen(bent_queries[rng.below(bent_queries.len())]);
        let mut by_d: Vec<(f64, (f64, f64))> = geoms.iter().filter_map(|g| own_centroid(g)).map(|c| (dist(qs, c), c)).collect();
        by_d.sort_by(|a, b| a.0.partial_cmp(&b.0).unwrap());
        if by_d.len() >= 2 {
            let g0 = haversine::coord_distance_meters(&to_f32(qs), &to_f32(by_d[0].1)).ok().map(|d| d.as_f64());
            let g1 = haversine::coord_distance_meters(&to_f32(qs), &to_f32(by_d[1].1)).ok().map(|d| d.as_f64());
            if let (Some(g0), Some(g1)) = (g0, g1) {
                let u = *rng.pick(&D);
                tol = Some(((g0 + g1) / 2.0 / si_d(&u), u));
                tb = "tol_between_two_nearest_centroids";
            }
        }
    }
    ctx.count(&format!("edge_{}", if forced.is_some() { "corpus" } else { tb }));

    // the real plugin, through its builder
    let mut params = json!({"type": "edge_rtree", "geometry_input_file": gfile});
    if let Some(f) = &cfile {
        params["road_class_input_file"] = json!(f);
    }
    if let Some(f) = &rfile {
        params["vehicle_restriction_input_file"] = json!(f);
    }
    if !mapping.is_empty() || rng.chance(1, 2) {
        params["road_class_parser"] = parser_json.clone();
    }
    if let Some((t, u)) = &tol {
        params["distance_tolerance"] = json!(t);
        if !(*u == DistanceUnit::Meters && rng.chance(1, 2)) {
            params["distance_unit"] = json!(unit_name(u));
        }
    }
    let plugin = match (EdgeRtreeInputPluginBuilder {}).build(&params) {
        Ok(p) => p,
        Err(e) => {
            ctx.emit(idx, "e-build-failed".into(), "build-failed".into());
            ctx.fail(idx, "harness/edge-build", format!("builder refused a valid configuration: {}", e));
            return;
        }
    };
    let before = spec.query.clone();
    let mut q = spec.query.clone();
    let mut r = catch_unwind(AssertUnwindSafe(|| plugin.process(&mut q))).map_err(|_| ());
    if truncated_lookup {
        if let Ok(direct) = mk(&tol).map(truncate) {
            q = spec.query.clone();
            r = catch_unwind(AssertUnwindSafe(|| InputPlugin::process(&direct, &mut q))).map_err(|_| ());
        }
    }
    let out = outcome_line(&r, &q);
    // same configuration through the public constructor: must behave identically
    if let (false, Ok(direct)) = (truncated_lookup, mk(&tol)) {
        let mut q2 = spec.query.clone();
        let r2 = catch_unwind(AssertUnwindSafe(|| InputPlugin::process(&direct, &mut q2))).map_err(|_| ());
        if outcome_line(&r2, &q2) != out {
            ctx.fail(idx, "harness/builder-vs-constructor", format!("builder-made plugin: {} constructor-made: {}", out, outcome_line(&r2, &q2)));
        }
    }
    let mut mapping_tok = format!("{}", mapping.len());
    for (k, v) in &mapping {
        mapping_tok.push_str(&format!(" {} {}", hex(k), v));
    }
    let case = format!("e {} {} {} {} {} {}", tol_tokens(&tol), mapping_tok, if with_classes { 1 } else { 0 }, enc(&before), ecands_tokens(&oscan), ecands_tokens(&dscan));
    ctx.emit(idx, case, out);
    match &r {
        Err(()) => ctx.count("edge_outcome_panic"),
        Ok(Ok(())) => ctx.count("edge_outcome_ok"),
        Ok(Err(e)) => ctx.count(&format!("edge_outcome_err_{}", err_kind(e).replace(' ', "_"))),
    }
    if spec.coords_ok && n > 1 {
        ctx.nontrivial(&format!("e {} {:?} {:?} {} {} {}", tol_tokens(&tol), spec.origin, spec.destination, wkt, before, rcsv));
    }

    // ---- oracle ----
    if r.is_err() {
        ctx.fail(idx, "edge-match/panic", format!("process panicked on {}", before));
        return;
    }
    check_other_fields(ctx, idx, "edge-match/other-fields-changed", &before, &q, &["origin_edge", "destination_edge"]);
    let ok = matches!(r, Ok(Ok(())));
    if !ok && before != q {
        ctx.fail(idx, "edge-match/error-but-query-changed", format!("{} -> {}", before, q));
    }
    if !spec.coords_ok || qclasses.is_none() {
        if ok {
            ctx.fail(idx, "edge-match/accepts-malformed", format!("malformed query accepted: {}", before));
        }
        return;
    }
    if truncated_lookup {
        // an inconsistent plugin: only the correspondence speaks here (and: a class that is not there admits nothing)
        return;
    }
    let mut expect_ok = true;
    let mut expect_err: Option<String> = None;
    let mut sides = vec![("origin_edge", oscan.as_ref().unwrap())];
    if let Some(s) = dscan.as_ref() {
        sides.push(("destination_edge", s));
    }
    for (field, scan) in &sides {
        let adm: Vec<&(usize, f32, Option<u8>, bool, Option<f64>)> = scan.cands.iter().filter(|c| admissible(c)).collect();
        let min = adm.iter().map(|c| c.1).fold(None, |m: Option<f32>, d| match m {
            None => Some(d),
            Some(x) => Some(if d < x { d } else { x }),
        });
        if adm.is_empty() {
            ctx.count("edge_no_admissible_candidate");
        }
        if !adm.is_empty() {
            if let Some(c) = scan.cands.first() {
                if !admissible(c) {
                    ctx.count(if !c.3 { "edge_nearest_skipped_by_vehicle_restriction" } else { "edge_nearest_skipped_by_road_class" });
                }
            }
        }
        match (min, &tol) {
            (None, _) => {
                expect_ok = false;
                expect_err = Some(format!("{}: no admissible edge", field));
            }
            (Some(_), None) => {}
            (Some(min), Some((t, u))) => {
                let t_m = t * si_d(u);
                let gcs: Vec<Option<f64>> = adm.iter().filter(|c| c.1 == min).map(|c| c.4).collect();
                if gcs.iter().any(|g| g.is_none()) {
                    expect_ok = false;
                } else {
                    let gcs: Vec<f64> = gcs.into_iter().flatten().collect();
                    if gcs.iter().all(|g| *g > t_m + t_m.abs() * SLACK + 1e-9) {
                        expect_ok = false;
                        expect_err = Some(format!("{}: nearest admissible edge is {} m away (distance_2 {} deg^2), tolerance {} {} = {} m", field, gcs[0], min, t, u, t_m));
                    } else if !gcs.iter().all(|g| *g < t_m - t_m.abs() * SLACK - 1e-9) {
                        expect_ok = false;
                    }
                }
            }
        }
        if ok {
            let written = q.get(*field).and_then(|v| v.as_u64());
            let good = match (written, min) {
                (Some(id), Some(min)) => adm.iter().any(|c| c.0 as u64 == id && c.1 == min),
                _ => false,
            };
            if !good {
                let is_cand = written.map(|id| scan.cands.iter().any(|c| c.0 as u64 == id && !admissible(c))).unwrap_or(false);
                let key = if is_cand { "edge-match/matched-inadmissible" } else { "edge-match/not-nearest-admissible" };
                ctx.fail(idx, key, format!("{} = {:?}; nearest admissible distance_2 {:?}; query {}", field, q.get(*field), min, before));
            }
        }
    }
    // ---- the same questions asked of the oracle's OWN geometry (f64 centroid, Euclidean distance; real haversine
    // only for the metres): the plugin's `distance_2` itself is under test here ----
    let side_q = [spec.origin, spec.destination];
    let mut ind_expect_ok = true;
    let mut ind_expect_err: Option<String> = None;
    for (k, (field, scan)) in sides.iter().enumerate() {
        let Some(qraw) = side_q[k] else { continue };
        let qs = seen(qraw);
        let ind: Vec<(usize, f64, f64, (f64, f64))> = scan
            .cands
            .iter()
            .filter(|c| admissible(c))
            .filter_map(|c| own_centroid(&geoms[c.0]).map(|ct| (c.0, dist(qs, ct), centroid_eps(&geoms[c.0], qs), ct)))
            .collect();
        let Some(best) = ind.iter().cloned().fold(None, |m: Option<(usize, f64, f64, (f64, f64))>, c| match m {
            Some(x) if x.1 <= c.1 => Some(x),
            _ => Some(c),
        }) else {
            ind_expect_ok = false;
            continue;
        };
        let near: Vec<&(usize, f64, f64, (f64, f64))> = ind.iter().filter(|c| c.1 <= best.1 * (1.0 + REL_BAND) + c.2 + best.2 + 1e-12).collect();
        if near.len() > 1 {
            ctx.count("edge_independent_near_tie");
        }
        if ok {
            if let Some(id) = q.get(*field).and_then(|v| v.as_u64()) {
                if let Some(m) = ind.iter().find(|c| c.0 as u64 == id) {
                    if !near.iter().any(|c| c.0 as u64 == id) {
                        ctx.fail(
                            idx,
                            "edge-match/not-nearest-independent",
                            format!(
                                "{} = {}: its centroid {:?} is {} deg from the query {:?}, but the centroid {:?} of admissible edge {} is only {} deg away (guard band {} deg); geometries {:?} vs {:?}",
                                field, id, m.3, m.1, qs, best.3, best.0, best.1, best.1 * REL_BAND + m.2 + best.2, geoms[m.0], geoms[best.0]
                            ),
                        );
                    }
                }
            }
        }
        if let Some((t, u)) = &tol {
            let t_m = t * si_d(u);
            let gcs: Vec<Option<(f64, f64)>> = near
                .iter()
                .map(|c| haversine::coord_distance_meters(&to_f32(qs), &to_f32(c.3)).ok().map(|g| (g.as_f64(), 2.0 + 1.0e-5 * g.as_f64() + 1.3e5 * c.2)))
                .collect();
            if gcs.iter().any(|g| g.is_none()) {
                ind_expect_ok = false;
            } else {
                let gcs: Vec<(f64, f64)> = gcs.into_iter().flatten().collect();
                if gcs.iter().all(|(g, band)| *g > t_m + t_m.abs() * SLACK + band) {
                    ind_expect_ok = false;
                    ind_expect_err = Some(format!("{}: the admissible edge with the nearest centroid (edge {}) is {} m away, tolerance {} {} = {} m", field, best.0, gcs[0].0, t, u, t_m));
                } else if !gcs.iter().all(|(g, band)| *g < t_m - t_m.abs() * SLACK - band) {
                    ind_expect_ok = false;
                }
            }
        }
    }
    if ok {
        if let Some(why) = ind_expect_err {
            ctx.fail(idx, "edge-match/tolerance-independent", format!("matched ({}) although {}", q, why));
        }
    } else if ind_expect_ok && tol.is_some() {
        ctx.fail(
            idx,
            "edge-match/tolerance-independent",
            format!("error although for every coordinate the admissible edge with the nearest centroid is within {:?}: {}; geometries {:?}", tol, before, if geoms.len() <= 8 { geoms.clone() } else { vec![] }),
        );
    }
    if sides.len() == 1 && ok && before.get("destination_edge") != q.get("destination_edge") {
        ctx.fail(idx, "edge-match/destination-written-without-coordinate", format!("{} -> {}", before, q));
    }
    if ok {
        if let Some(why) = expect_err {
            let key = if why.contains("no admissible") { "edge-match/matched-without-admissible" } else { "edge-match/tolerance-units" };
            ctx.fail(idx, key, format!("matched ({}) although {}", q, why));
        }
    } else if expect_ok {
        ctx.fail(idx, "edge-match/within-tolerance-rejected", format!("error although every coordinate has an admissible edge within {:?}: {}", tol, before));
    }
    // the boundary itself, in the code's own arithmetic (`within_tolerance` is inclusive): an admissible edge
    // whose centroid is EXACTLY the tolerance away is a match.  Judged only when the verdict cannot depend on a
    // tie: every side has a single nearest admissible candidate, at or inside the limit, and the call failed
    // with the matcher's own "unable to match" error
    if let (Ok(Err(e)), Some((t, u))) = (&r, &tol) {
        if err_kind(e) == "failed noedgematch" {
            let mut at_limit = false;
            let mut undecided = false;
            for (_, scan) in &sides {
                let adm: Vec<&(usize, f32, Option<u8>, bool, Option<f64>)> = scan.cands.iter().filter(|c| admissible(c)).collect();
                let Some(first) = adm.first() else {
                    undecided = true;
                    continue;
                };
                if adm.iter().filter(|c| c.1 == first.1).count() != 1 {
                    undecided = true;
                    continue;
                }
                match first.4 {
                    Some(g) => {
                        let dist = DistanceUnit::Meters.convert(&Distance::new(g), u).as_f64();
                        if dist == *t {
                            at_limit = true;
                        } else if !(dist < *t) {
                            undecided = true;
                        }
                    }
                    None => undecided = true,
                }
            }
            if at_limit && !undecided {
                ctx.fail(idx, "edge-match/tolerance-boundary", format!("the nearest admissible edge's centroid is exactly {} {} away, tolerance {} {}: rejected (the comparison is strict): {}", t, u, t, u, before));
            }
        }
    }
}

/// the geometry reader draws a progress bar on stderr for every file it loads; silence fd 2 for the run
struct QuietStderr(i32);

impl QuietStderr {
    fn new() -> QuietStderr {
        unsafe {
            let saved = libc::dup(2);
            let null = libc::open(b"/dev/null\0".as_ptr() as *const libc::c_char, libc::O_WRONLY);
            if null >= 0 {
                libc::dup2(null, 2);
                libc::close(null);
            }
            QuietStderr(saved)
        }
    }
}

impl Drop for QuietStderr {
    fn drop(&mut self) {
        unsafe {
            if self.0 >= 0 {
                libc::dup2(self.0, 2);
                libc::close(self.0);
            }
        }
    }
}

pub fn run(ctx: &mut Ctx) -> &'static str {
    let files = Files::new();
    let _quiet = QuietStderr::new();
    // corpus: the repository's own vertex test; witnesses of edge-match/tolerance-units
    if let Some(idx) = ctx.begin() {
        vertex_case(ctx, idx, &files, Some(0), 0);
    }
    for k in 0..3 {
        if let Some(idx) = ctx.begin() {
            edge_case(ctx, idx, &files, Some(k), 0);
        }
    }
    if let Some(idx) = ctx.begin() {
        vertex_case(ctx, idx, &files, Some(1), 0);
    }
    for k in 0..2 {
        if let Some(idx) = ctx.begin() {
            io::edge_builder_witness(ctx, idx, &files, k);
        }
    }
    let n = ctx.n(4000, 80000);
    for i in 0..n {
        let Some(idx) = ctx.begin() else { continue };
        if i % 2 == 0 {
            // every eighth vertex case is a dateline / polar / out-of-range-network scenario
            vertex_case(ctx, idx, &files, None, if i % 16 == 14 { 1 + ((i / 16) % 3) as u8 } else { 0 });
        } else {
            // every fourth edge case is a bent-linestring scenario (centroid != bounding-box midpoint)
            // and every sixteenth a truncated road-class lookup or a network outside the WGS84 range
            edge_case(ctx, idx, &files, None, if i % 8 == 7 { 1 } else if i % 16 == 3 { 2 + ((i / 16) % 2) as u8 } else { 0 });
        }
    }
    // the rest of the anchor files, function by function (see c16_io.rs)
    for _ in 0..ctx.n(1500, 20000) {
        let Some(idx) = ctx.begin() else { continue };
        io::ext_case(ctx, idx);
    }
    for i in 0..ctx.n(600, 6000) {
        let Some(idx) = ctx.begin() else { continue };
        if i % 2 == 0 {
            io::vertex_builder_case(ctx, idx, &files);
        } else {
            io::edge_builder_case(ctx, idx, &files);
        }
    }
    for _ in 0..ctx.n(800, 10000) {
        let Some(idx) = ctx.begin() else { continue };
        io::haversine_case(ctx, idx);
    }
    "non-trivial: well-formed coordinate fields and at least two network elements; fingerprint = geometry set, tolerance, coordinates (and for edges the whole query and restriction table)"
}
