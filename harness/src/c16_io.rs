//! C16, second part: the pieces of the anchor files that the two `process` streams of `c16.rs` reach only
//! partly or not at all (found by a line-coverage run):
//!
//! * `x …`  — every function of `InputJsonExtensions` called directly on generated values: coordinate
//!   readers (missing / ill-typed / huge numbers), the four writers on objects that already carry the key and
//!   on non-objects, the four readers of the written ids, `get_grid_search`, the query-weight accessors;
//! * `b v …` / `b e …` — `VertexRTreeBuilder::build` and `EdgeRtreeInputPluginBuilder::build` on valid and
//!   malformed configuration JSON and files (missing keys, wrong types, missing / unreadable files, tolerance with
//!   and without unit, unit without tolerance, road-class file of the wrong length, bad restriction file, bad
//!   road-class parser): an error kind and never a panic; a successful build is probed with one query so that
//!   the tolerance the builder resolved is observable;
//! * `h …`  — `haversine::coord_distance_meters` / `coord_distance` on identical, antipodal, polar,
//!   dateline-crossing and out-of-range coordinates.
use super::*;
use routee_compass::app::compass::compass_app_error::CompassAppError;
use routee_compass::app::compass::config::compass_configuration_error::CompassConfigurationError;
use routee_compass::plugin::input::input_json_extensions::InputJsonExtensions;
use routee_compass::plugin::plugin_error::PluginError;
use routee_compass_core::model::network::{EdgeId, VertexId};

// ------------------------------------------------------------------------------------------------
// x: InputJsonExtensions, function by function
// ------------------------------------------------------------------------------------------------

const QKEYS: [&str; 12] = [
    "origin_x",
    "origin_y",
    "destination_x",
    "destination_y",
    "origin_vertex",
    "destination_vertex",
    "origin_edge",
    "destination_edge",
    "grid_search",
    "query_weight_estimate",
    "model_name",
    "note",
];

fn odd_value(rng: &mut Rng) -> Value {
    match rng.below(16) {
        0 => json!(rng.below(1000)),
        1 => json!(rng.range(-50, -1)),
        2 => json!(rng.uniform(-180.0, 180.0)),
        3 => json!(rng.below(10) as f64), // 3.0: a float lexeme, not a u64
        4 => json!(18446744073709551615u64),
        5 => json!(9007199254740993u64),
        6 => json!(*rng.pick(&[1.0e300, -1.0e39, 3.5e38, 1.0e-320, -0.0])),
        7 => json!(format!("{}", rng.below(100))),
        8 => Value::Null,
        9 => json!(rng.chance(1, 2)),
        10 => json!([rng.below(5), 2.5]),
        11 => json!({"k": rng.below(5)}),
        12 => json!(0),
        _ => json!(rng.below(100000)),
    }
}

fn ext_value(rng: &mut Rng) -> Value {
    if rng.chance(1, 8) {
        return match rng.below(6) {
            0 => Value::Null,
            1 => json!([{"origin_x": 1.0, "origin_y": 2.0, "origin_vertex": 3}]),
            2 => json!("origin_vertex"),
            3 => json!(42),
            4 => json!(true),
            _ => json!([]),
        };
    }
    let mut keys: Vec<&str> = QKEYS.to_vec();
    rng.shuffle(&mut keys);
    let k = rng.below(QKEYS.len() + 1);
    let mut m = Map::new();
    for key in keys.into_iter().take(k) {
        m.insert(key.to_string(), odd_value(rng));
    }
    Value::Object(m)
}

fn app_err_kind(e: &CompassAppError) -> String {
    match e {
        CompassAppError::PluginError(PluginError::InputPluginFailed { source }) => err_kind(source),
        _ => "other".into(),
    }
}

pub fn ext_case(ctx: &mut Ctx, idx: usize) {
    let mut rng = Rng::for_case(ctx.seed, 16, idx as u64);
    let v = ext_value(&mut rng);
    let op = rng.below(13);
    let r = catch_unwind(AssertUnwindSafe(|| -> (String, String, String) {
        match op {
            0 => {
                let out = match v.get_origin_coordinate() {
                    Ok(c) => format!("ok {} {}", fbits(c.x as f64), fbits(c.y as f64)),
                    Err(e) => format!("err {}", err_kind(&e)),
                };
                ("ocoord".into(), String::new(), out)
            }
            1 => {
                let out = match v.get_destination_coordinate() {
                    Ok(None) => "ok n".into(),
                    Ok(Some(c)) => format!("ok s {} {}", fbits(c.x as f64), fbits(c.y as f64)),
                    Err(e) => format!("err {}", err_kind(&e)),
                };
                ("dcoord".into(), String::new(), out)
            }
            2..=5 => {
                let id = match rng.below(4) {
                    0 => 0usize,
                    1 => rng.below(1000),
                    2 => usize::MAX,
                    _ => (1usize << 53) + 1,
                };
                let field = ["origin_vertex", "destination_vertex", "origin_edge", "destination_edge"][op - 2];
                let mut w = v.clone();
                let res = match op {
                    2 => w.add_origin_vertex(VertexId(id)),
                    3 => w.add_destination_vertex(VertexId(id)),
                    4 => w.add_origin_edge(EdgeId(id)),
                    _ => w.add_destination_edge(EdgeId(id)),
                };
                let out = match &res {
                    Ok(()) => format!("ok {}", enc(&w)),
                    Err(e) => format!("err {} {}", err_kind(e), enc(&w)),
                };
                // oracle: written on objects only, everything else untouched, and the id reads back
                super::check_other_fields(ctx, idx, "ext/other-fields-changed", &v, &w, &[field, field]);
                match (&res, v.is_object()) {
                    (Ok(()), true) => {
                        let back = match op {
                            2 => w.get_origin_vertex().ok().map(|x| x.0),
                            3 => w.get_destination_vertex().ok().flatten().map(|x| x.0),
                            4 => w.get_origin_edge().ok().map(|x| x.0),
                            _ => w.get_destination_edge().ok().flatten().map(|x| x.0),
                        };
                        if back != Some(id) {
                            ctx.fail(idx, "ext/read-back", format!("{} written as {} reads back as {:?}", field, id, back));
                        }
                        if v.get(field).is_some() {
                            ctx.count("ext_write_over_existing_key");
                            // an existing key keeps its position
                            let pos = |x: &Value| x.as_object().unwrap().keys().position(|k| k == field);
                            if pos(&v) != pos(&w) {
                                ctx.fail(idx, "ext/overwritten-key-moved", format!("{} -> {}", v, w));
                            }
                        }
                    }
                    (Err(_), false) => {
                        ctx.count("ext_write_on_non_object");
                        if w != v {
                            ctx.fail(idx, "ext/non-object-changed", format!("{} -> {}", v, w));
                        }
                    }
                    (Ok(()), false) => ctx.fail(idx, "ext/wrote-into-non-object", format!("{} -> {}", v, w)),
                    (Err(e), true) => ctx.fail(idx, "ext/write-refused-on-object", format!("{}: {}", v, e)),
                }
                (format!("add {} {}", field, id), String::new(), out)
            }
            6 | 8 => {
                let (name, field, res) = if op == 6 { ("getv", "origin_vertex", v.get_origin_vertex().map(|x| x.0)) } else { ("gete", "origin_edge", v.get_origin_edge().map(|x| x.0)) };
                let out = match &res {
                    Ok(id) => format!("ok {}", id),
                    Err(e) => format!("err {}", err_kind(e)),
                };
                // oracle: exactly the non-negative integers below 2^64 are ids
                let expect = v.get(field).and_then(|x| if x.is_u64() { x.as_u64() } else { None });
                if res.as_ref().ok().map(|x| *x as u64) != expect {
                    ctx.fail(idx, "ext/id-reader", format!("{} of {} gave {:?}", field, v, res.as_ref().ok()));
                }
                if let Err(e) = &res {
                    if !err_kind(e).ends_with(field) {
                        ctx.fail(idx, "ext/error-names-wrong-field", format!("reading {} failed with '{}'", field, err_kind(e)));
                    }
                }
                (name.into(), String::new(), out)
            }
            7 | 9 => {
                let (name, field, res) = if op == 7 {
                    ("getdv", "destination_vertex", v.get_destination_vertex().map(|o| o.map(|x| x.0)))
                } else {
                    ("getde", "destination_edge", v.get_destination_edge().map(|o| o.map(|x| x.0)))
                };
                let out = match &res {
                    Ok(None) => "ok n".into(),
                    Ok(Some(id)) => format!("ok s {}", id),
                    Err(e) => format!("err {}", err_kind(e)),
                };
                match (&res, v.get(field)) {
                    (Ok(None), None) => {}
                    (Ok(Some(id)), Some(x)) if x.is_u64() && x.as_u64() == Some(*id as u64) => {}
                    (Err(_), Some(x)) if !x.is_u64() => {}
                    _ => ctx.fail(idx, "ext/id-reader", format!("{} of {} gave {:?}", field, v, res.as_ref().ok())),
                }
                if let Err(e) = &res {
                    if !err_kind(e).ends_with(field) {
                        ctx.fail(idx, "ext/error-names-wrong-field", format!("reading {} failed with '{}'", field, err_kind(e)));
                    }
                }
                (name.into(), String::new(), out)
            }
            10 => {
                let out = match v.get_grid_search() {
                    None => "n".into(),
                    Some(g) => format!("s {}", enc(g)),
                };
                ("grid".into(), String::new(), out)
            }
            11 => {
                let out = match v.get_query_weight_estimate() {
                    Ok(None) => "ok n".into(),
                    Ok(Some(w)) => format!("ok s {}", fbits(w)),
                    Err(e) => format!("err {}", app_err_kind(&e)),
                };
                ("getw".into(), String::new(), out)
            }
            _ => {
                let wgt = match rng.below(4) {
                    0 => 0.0,
                    1 => rng.uniform(0.0, 1000.0),
                    2 => rng.below(100) as f64,
                    _ => 1.0e21,
                };
                let mut w = v.clone();
                let res = w.add_query_weight_estimate(wgt);
                let out = match &res {
                    Ok(()) => format!("ok {}", enc(&w)),
                    Err(e) => format!("err {} {}", err_kind(e), enc(&w)),
                };
                if res.is_ok() && w.get_query_weight_estimate().ok().flatten() != Some(wgt) {
                    ctx.fail(idx, "ext/read-back", format!("query_weight_estimate {} does not read back from {}", wgt, w));
                }
                // the number's text is serde_json's business: it travels with the case
                (format!("addw {} {}", fbits(wgt), hex(&json!(wgt).to_string())), String::new(), out)
            }
        }
    }));
    match r {
        Ok((head, _, out)) => {
            ctx.count(&format!("ext_{}", head.split(' ').next().unwrap()));
            if v.is_object() {
                ctx.nontrivial(&format!("x {} {}", head, v));
            }
            ctx.emit(idx, format!("x {} {}", head, enc(&v)), out);
        }
        Err(_) => {
            ctx.emit(idx, format!("x panic {}", enc(&v)), "panic".into());
            ctx.fail(idx, "ext/panic", format!("op {} panicked on {}", op, v));
        }
    }
}

// ------------------------------------------------------------------------------------------------
// b: the builders
// ------------------------------------------------------------------------------------------------

fn cfg_err_kind(e: &CompassConfigurationError) -> &'static str {
    use CompassConfigurationError as E;
    match e {
        E::UserConfigurationError(_) => "userconfig",
        E::ExpectedFieldForComponent(..) => "missingfield",
        E::ExpectedFieldWithType(..) => "wrongtype",
        E::FileNotFoundForComponent(..) => "filenotfound",
        E::IoError(_) => "io",
        E::SerdeDeserializationError(_) => "serde",
        E::FrontierModelError(_) => "frontier",
        E::PluginError(_) => "plugin",
        _ => "other",
    }
}

/// a tolerance entry of the configuration: (json value or absent, what a correct reader makes of it)
enum Given<T> {
    Absent,
    Good(Value, T),
    Bad(Value),
}

fn gen_tol_entry(rng: &mut Rng, around_m: f64) -> Given<f64> {
    match rng.below(10) {
        0 | 1 | 2 => Given::Absent,
        3 => Given::Bad(match rng.below(5) {
            0 => json!("10"),
            1 => Value::Null,
            2 => json!(true),
            3 => json!([10.0]),
            _ => json!({"value": 10.0}),
        }),
        4 => {
            let k = rng.range(0, 400);
            Given::Good(json!(k), k as f64) // an integer in the file
        }
        _ => {
            let t = around_m * *rng.pick(&[0.5, 0.9, 1.1, 2.0, 10.0]);
            Given::Good(json!(t), t)
        }
    }
}

fn gen_unit_entry(rng: &mut Rng) -> Given<DistanceUnit> {
    match rng.below(10) {
        0 | 1 | 2 | 3 => Given::Absent,
        4 => Given::Bad(match rng.below(9) {
            0 => json!("METERS"),
            1 => json!("furlongs"),
            2 => json!(1),
            3 => Value::Null,
            4 => json!(["meters"]),
            // near misses of serde's externally tagged form
            5 => json!({"kilometers": 1}),
            6 => json!({"kilometers": null, "meters": null}),
            7 => json!({}),
            _ => json!({"furlongs": null}),
        }),
        5 => {
            // serde also reads a unit-only enum from its externally tagged form {"<name>": null}
            let u = *rng.pick(&D);
            let mut m = Map::new();
            m.insert(unit_name(&u), Value::Null);
            Given::Good(Value::Object(m), u)
        }
        _ => {
            let u = *rng.pick(&D);
            Given::Good(json!(unit_name(&u)), u)
        }
    }
}

/// a path entry: (value in the config or absent, does the file exist, is its content good)
struct PathEntry {
    value: Option<Value>,
    is_string: bool,
    exists: bool,
    content_ok: bool,
}

fn gen_path_entry(rng: &mut Rng, files: &Files, name: &str, good: &str, bad: &[&str], optional: bool) -> PathEntry {
    match rng.below(24) {
        7..=15 if optional => PathEntry { value: None, is_string: false, exists: false, content_ok: false },
        0 => PathEntry { value: None, is_string: false, exists: false, content_ok: false },
        3 => PathEntry {
            value: Some(match rng.below(4) {
                0 => json!(17),
                1 => Value::Null,
                2 => json!(["a.csv"]),
                _ => json!(false),
            }),
            is_string: false,
            exists: false,
            content_ok: false,
        },
        4 => PathEntry { value: Some(json!(format!("{}/no-such-{}", files.dir, name))), is_string: true, exists: false, content_ok: false },
        5 | 6 => {
            let p = files.write(name, bad[rng.below(bad.len())]);
            PathEntry { value: Some(json!(p)), is_string: true, exists: true, content_ok: false }
        }
        _ => {
            let p = files.write(name, good);
            PathEntry { value: Some(json!(p)), is_string: true, exists: true, content_ok: true }
        }
    }
}

const PROBE_Q: (f64, f64) = (0.0, 0.001);

pub fn vertex_builder_case(ctx: &mut Ctx, idx: usize, files: &Files) {
    let mut rng = Rng::for_case(ctx.seed, 16, idx as u64);
    let good = "vertex_id,x,y\n5,0,0\n";
    let bad = [
        // a NaN coordinate used to make RTree::bulk_load panic inside the builder
        "vertex_id,x,y\n5,nan,0\n6,0,0\n7,1,1\n8,2,2\n9,3,3\n10,4,4\n11,5,5\n",
        "vertex_id,x,y\n5,0,NaN\n",
        "vertex_id,x,y\n5,inf,0\n6,0,0\n",
        "vertex_id,x,y\n5,zero,0\n", "id,lon,lat\n5,0,0\n", "vertex_id,x,y\n-1,0,0\n", "vertex_id,x,y\n5,0\n"
    ];
    let path = gen_path_entry(&mut rng, files, "b_vertices.csv", good, &bad, false);
    let gc = haversine::coord_distance_meters(&to_f32(PROBE_Q), &to_f32((0.0, 0.0))).unwrap().as_f64();
    let tol = gen_tol_entry(&mut rng, gc);
    let unit = gen_unit_entry(&mut rng);
    let mut m = Map::new();
    let mut entries: Vec<(&str, Value)> = vec![("type", json!("vertex_rtree"))];
    if let Some(v) = &path.value {
        entries.push(("vertices_input_file", v.clone()));
    }
    if let Given::Good(v, _) | Given::Bad(v) = &tol {
        entries.push(("distance_tolerance", v.clone()));
    }
    if let Given::Good(v, _) | Given::Bad(v) = &unit {
        entries.push(("distance_unit", v.clone()));
    }
    if rng.chance(1, 4) {
        entries.push(("unknown_option", json!(1)));
    }
    rng.shuffle(&mut entries);
    for (k, v) in entries {
        m.insert(k.to_string(), v);
    }
    let mut cfg = Value::Object(m);
    let mut shape_ok = true;
    if rng.chance(1, 25) {
        shape_ok = false;
        cfg = match rng.below(3) {
            0 => Value::Null,
            1 => json!([cfg]),
            _ => json!("vertex_rtree"),
        };
    }
    let built = catch_unwind(AssertUnwindSafe(|| (VertexRTreeBuilder {}).build(&cfg)));
    let q0 = json!({"origin_x": PROBE_Q.0, "origin_y": PROBE_Q.1});
    let mut probe_ok: Option<bool> = None;
    let out = match &built {
        Err(_) => "panic".to_string(),
        Ok(Err(e)) => format!("err {}", cfg_err_kind(e)),
        Ok(Ok(p)) => {
            let mut q = q0.clone();
            let r = catch_unwind(AssertUnwindSafe(|| p.process(&mut q))).map_err(|_| ());
            probe_ok = Some(matches!(r, Ok(Ok(()))));
            if r.is_err() {
                ctx.fail(idx, "builder/built-plugin-panics", format!("the plugin built from {} panicked on {}", cfg, q0));
            }
            format!("ok {}", outcome_line(&r, &q))
        }
    };
    let d2 = RTreeVertex::new(Vertex::new(5, 0.0, 0.0)).distance_2(&to_f32(PROBE_Q));
    let case = format!("b v {} {} {} {} 1 5 {} s {}", enc(&cfg), if path.exists { 1 } else { 0 }, if path.content_ok { 1 } else { 0 }, enc(&q0), fbits(d2 as f64), fbits(gc));
    ctx.emit(idx, case, out.clone());
    ctx.count(&format!("builder_vertex_{}", out.split(' ').take(2).collect::<Vec<_>>().join("_")));
    ctx.nontrivial(&format!("bv {}", cfg));
    // ---- oracle ----
    if built.is_err() {
        ctx.fail(idx, "builder/panic", format!("VertexRTreeBuilder::build panicked on {}", cfg));
        return;
    }
    let valid = shape_ok && path.value.is_some() && path.is_string && path.exists && path.content_ok && !matches!(tol, Given::Bad(_)) && !matches!(unit, Given::Bad(_));
    let is_ok = matches!(built, Ok(Ok(_)));
    if valid && !is_ok {
        ctx.fail(idx, "builder/rejects-valid", format!("{} -> {}", cfg, out));
    }
    if !valid && is_ok {
        ctx.fail(idx, "builder/accepts-malformed", format!("{} was accepted", cfg));
    }
    if let (true, Some(matched)) = (valid, probe_ok) {
        // the tolerance in force, in SI metres: absent -> none; unit absent -> metres
        let limit = match (&tol, &unit) {
            (Given::Good(_, t), Given::Good(_, u)) => Some(t * si_d(u)),
            (Given::Good(_, t), _) => Some(*t),
            _ => None,
        };
        match limit {
            None => {
                if !matched {
                    ctx.fail(idx, "builder/tolerance-semantics", format!("{}: no tolerance configured but the probe {} m away was rejected", cfg, gc));
                }
                if matches!(unit, Given::Good(..)) {
                    ctx.count("builder_unit_without_tolerance");
                }
            }
            Some(l) => {
                if matches!(unit, Given::Absent) {
                    ctx.count("builder_tolerance_without_unit");
                }
                if gc < l * (1.0 - SLACK) - 1e-9 && !matched {
                    ctx.fail(idx, "builder/tolerance-semantics", format!("{}: tolerance {} m, probe {} m away rejected", cfg, l, gc));
                }
                if gc > l * (1.0 + SLACK) + 1e-9 && matched {
                    ctx.fail(idx, "builder/tolerance-semantics", format!("{}: tolerance {} m, probe {} m away matched", cfg, l, gc));
                }
            }
        }
    }
}

/// corpus: the witness of the former defect "a geometry table whose centroid or coordinate is not finite builds,
/// and every query then panics inside the r-tree" (all coordinates of the second row are finite f32 numbers)
pub fn edge_builder_witness(ctx: &mut Ctx, idx: usize, files: &Files, k: usize) {
    let rows = [
        "LINESTRING (-105.1 39.5, -105.2 39.6)\nLINESTRING (3e38 0, -3e38 0)\nLINESTRING (-105.2 39.6, -105.3 39.7)\n",
        "LINESTRING (1e39 0, 0 0)\nLINESTRING (1 1, 1 1.01)\nLINESTRING (2 1, 2 1.01)\n",
    ];
    let gfile = files.write("b_geometries.txt", rows[k]);
    let readable = routee_compass_core::util::geo::geo_io_utils::read_linestring_text_file(&gfile).is_ok();
    let cfg = json!({"type": "edge_rtree", "geometry_input_file": gfile});
    let q0 = json!({"origin_x": -105.15, "origin_y": 39.55});
    let built = catch_unwind(AssertUnwindSafe(|| (EdgeRtreeInputPluginBuilder {}).build(&cfg)));
    let out = match &built {
        Err(_) => "panic".to_string(),
        Ok(Err(e)) => format!("err {}", cfg_err_kind(e)),
        Ok(Ok(p)) => {
            let mut q = q0.clone();
            let r = catch_unwind(AssertUnwindSafe(|| p.process(&mut q))).map_err(|_| ());
            if r.is_err() {
                ctx.fail(idx, "builder/built-plugin-panics", format!("the plugin built from the geometry rows {:?} panicked on {}", rows[k], q0));
            }
            format!("ok {}", outcome_line(&r, &q))
        }
    };
    if matches!(built, Ok(Ok(_))) {
        ctx.fail(idx, "builder/accepts-malformed", format!("geometry rows {:?} were accepted", rows[k]));
    }
    let case = format!("b e {} n 0 {} 0 {} {} n", enc(&cfg), if readable { "s 3" } else { "n" }, if readable { 1 } else { 0 }, enc(&q0));
    ctx.emit(idx, case, out);
    ctx.count("builder_edge_corpus");
}

pub fn edge_builder_case(ctx: &mut Ctx, idx: usize, files: &Files) {
    let mut rng = Rng::for_case(ctx.seed, 16, idx as u64);
    // the first edge's centroid is (0,0); the others are far away
    let n_geo = 1 + rng.below(4);
    let mut good_geo = String::from("LINESTRING (-0.0005 0, 0.0005 0)\n");
    for k in 1..n_geo {
        good_geo.push_str(&format!("LINESTRING ({} 1, {} 1.01)\n", k, k));
    }
    // an empty linestring used to be loaded and then made every query panic in distance_2
    let geo_empty = rng.chance(1, 8);
    if geo_empty {
        good_geo.push_str("LINESTRING EMPTY\n");
    }
    let n_geo = if geo_empty { n_geo + 1 } else { n_geo };
    // a coordinate that is not finite as f32, or finite coordinates whose centroid overflows, used to be loaded;
    // the NaN distance_2 then made the r-tree search panic on every query
    const NONFINITE_ROWS: [(&str, bool); 8] = [
        ("LINESTRING (3e38 0, -3e38 0)", true), // all finite, the centroid is not
        ("LINESTRING (2e38 0, 2e38 1)", true),
        ("LINESTRING (0 3e38, 1 3.4e38, 2 3e38)", true),
        ("LINESTRING (1e39 0, 0 0)", false), // beyond the f32 range: +inf
        ("LINESTRING (-105.1 39.5, +NaN 39.6)", false),
        ("LINESTRING (1e39 0, 1 -inf)", false),
        ("LINESTRING (0 0, +INF 1)", false),
        ("LINESTRING (0 -1e300, 1 1)", false),
    ];
    let geo_nonfinite = if !geo_empty && rng.chance(1, 6) { Some(NONFINITE_ROWS[rng.below(NONFINITE_ROWS.len())]) } else { None };
    if let Some((row, _)) = geo_nonfinite {
        // not always the last row
        if rng.chance(1, 2) {
            good_geo = format!("{}\n{}", row, good_geo);
        } else {
            good_geo.push_str(row);
            good_geo.push('\n');
        }
    }
    let n_geo = if geo_nonfinite.is_some() { n_geo + 1 } else { n_geo };
    let bad_geo = ["LINESTRING (nan 0, 1 1)\n", "LINESTRING (0 0, 1\n", "POINT (0 0)\n", "not wkt\n", "LINESTRING (a b, c d)\n"];
    let geo = gen_path_entry(&mut rng, files, "b_geometries.txt", &good_geo, &bad_geo, false);
    // road classes: right length, wrong length, unreadable
    let rc_len = if rng.chance(1, 4) { n_geo + 1 + rng.below(2) } else { n_geo };
    let good_rc: String = (0..rc_len).map(|i| format!("{}\n", i % 3)).collect();
    let bad_rc = ["abc\n", "300\n", "-1\n", "1.5\n"];
    let rc = gen_path_entry(&mut rng, files, "b_road_classes.txt", &good_rc, &bad_rc, true);
    let good_vr = "edge_id,restriction_name,restriction_value,restriction_unit\n0,maximum_height,4.2,meters\n";
    let bad_vr = [
        "edge_id,restriction_name,restriction_value,restriction_unit\n0,maximum_speed,4.2,meters\n",
        "edge_id,restriction_name,restriction_value,restriction_unit\n0,maximum_height,4.2,cubits\n",
        "edge_id,restriction_name,restriction_value\n0,maximum_height,4.2\n",
        "edge_id,restriction_name,restriction_value,restriction_unit\n0,maximum_height,tall,meters\n",
    ];
    let vr = gen_path_entry(&mut rng, files, "b_restrictions.csv", good_vr, &bad_vr, true);
    let gc = haversine::coord_distance_meters(&to_f32(PROBE_Q), &to_f32((0.0, 0.0))).unwrap().as_f64();
    let tol = gen_tol_entry(&mut rng, gc);
    let unit = gen_unit_entry(&mut rng);
    let parser: Given<()> = match rng.below(9) {
        0 | 1 | 2 | 3 => Given::Absent,
        4 => Given::Bad(match rng.below(11) {
            0 => json!({"mapping": {"primary": "1"}}),
            1 => json!({"mapping": {"primary": 300}}),
            2 => json!({}),
            3 => json!("mapping"),
            4 => json!({"mapping": [1, 2]}),
            5 => json!({"mapping": {"primary": -1}}),
            // near misses of serde's struct-from-sequence form
            6 => json!([{"primary": 300}]),
            7 => json!([]),
            8 => json!([{"primary": 1}, {}]),
            9 => json!([1]),
            _ => json!([{"mapping": {"primary": 1}}]),
        }),
        // serde reads a struct from the sequence of its fields too: [mapping]
        8 => Given::Good(if rng.chance(1, 2) { json!([{"primary": 1, "motorway": 0}]) } else { json!([{}]) }, ()),
        5 => Given::Good(json!({"mapping": {}}), ()),
        _ => Given::Good(json!({"mapping": {"motorway": 0, "primary": 1}, "comment": "x"}), ()),
    };
    let mut entries: Vec<(&str, Value)> = vec![("type", json!("edge_rtree"))];
    if let Some(v) = &geo.value {
        entries.push(("geometry_input_file", v.clone()));
    }
    if let Some(v) = &rc.value {
        entries.push(("road_class_input_file", v.clone()));
    }
    if let Some(v) = &vr.value {
        entries.push(("vehicle_restriction_input_file", v.clone()));
    }
    if let Given::Good(v, _) | Given::Bad(v) = &tol {
        entries.push(("distance_tolerance", v.clone()));
    }
    if let Given::Good(v, _) | Given::Bad(v) = &unit {
        entries.push(("distance_unit", v.clone()));
    }
    if let Given::Good(v, _) | Given::Bad(v) = &parser {
        entries.push(("road_class_parser", v.clone()));
    }
    rng.shuffle(&mut entries);
    let mut m = Map::new();
    for (k, v) in entries {
        m.insert(k.to_string(), v);
    }
    let cfg = Value::Object(m);
    let built = catch_unwind(AssertUnwindSafe(|| (EdgeRtreeInputPluginBuilder {}).build(&cfg)));
    let q0 = json!({"origin_x": PROBE_Q.0, "origin_y": PROBE_Q.1});
    let mut probe_ok: Option<bool> = None;
    let out = match &built {
        Err(_) => "panic".to_string(),
        Ok(Err(e)) => format!("err {}", cfg_err_kind(e)),
        Ok(Ok(p)) => {
            let mut q = q0.clone();
            let r = catch_unwind(AssertUnwindSafe(|| p.process(&mut q))).map_err(|_| ());
            probe_ok = Some(matches!(r, Ok(Ok(()))));
            if r.is_err() {
                ctx.fail(idx, "builder/built-plugin-panics", format!("the plugin built from {} panicked on {}", cfg, q0));
            }
            format!("ok {}", outcome_line(&r, &q))
        }
    };
    // candidate table of the probe query, from an identical tree (only when the geometry file is good)
    // whether a row with a non-finite coordinate gets past the WKT reader is the reader's business (it is asked);
    // a row of finite coordinates must get past it
    let geo_readable = geo.exists
        && geo.content_ok
        && match geo_nonfinite {
            None => true,
            Some((_, finite_coordinates)) => {
                let parsed = routee_compass_core::util::geo::geo_io_utils::read_linestring_text_file(format!("{}/b_geometries.txt", files.dir)).is_ok();
                if finite_coordinates && !parsed {
                    ctx.fail(idx, "harness/geometry-reader", "a linestring of finite coordinates was refused by the reader".to_string());
                }
                parsed
            }
        };
    let nonfinite_seen = geo_nonfinite.is_some() && geo_readable;
    if nonfinite_seen {
        ctx.count("builder_edge_geometry_with_non_finite_coordinate_or_centroid");
    }
    let scan = if geo_readable && !geo_empty && !nonfinite_seen {
        match EdgeRtreeInputPlugin::new(None, None, format!("{}/b_geometries.txt", files.dir), None, None, serde_json::from_value(json!({"mapping": {}})).unwrap()) {
            Ok(p) => edge_scan(ctx, idx, &p, n_geo, to_f32(PROBE_Q), &None).ok(),
            Err(_) => None,
        }
    } else {
        None
    };
    let file_tok = |p: &PathEntry, len: usize| {
        if p.exists && p.content_ok {
            format!("s {}", len)
        } else {
            "n".to_string()
        }
    };
    let case = format!(
        "b e {} {} {} {} {} {} {} {}",
        enc(&cfg),
        file_tok(&rc, rc_len),
        if vr.exists && vr.content_ok { 1 } else { 0 },
        if geo_readable { format!("s {}", n_geo) } else { "n".to_string() },
        if geo_empty { 1 } else { 0 },
        if nonfinite_seen { 1 } else { 0 },
        enc(&q0),
        ecands_tokens(&scan)
    );
    ctx.emit(idx, case, out.clone());
    ctx.count(&format!("builder_edge_{}", out.split(' ').take(2).collect::<Vec<_>>().join("_")));
    ctx.nontrivial(&format!("be {}", cfg));
    // ---- oracle ----
    if built.is_err() {
        ctx.fail(idx, "builder/panic", format!("EdgeRtreeInputPluginBuilder::build panicked on {}", cfg));
        return;
    }
    let file_valid = |p: &PathEntry, optional: bool| match &p.value {
        None => optional,
        Some(_) => p.is_string && p.exists && p.content_ok,
    };
    if geo_empty && geo.exists && geo.content_ok {
        ctx.count("builder_edge_geometry_with_empty_linestring");
    }
    let valid = file_valid(&geo, false)
        && !geo_empty
        && geo_nonfinite.is_none()
        && file_valid(&rc, true)
        && file_valid(&vr, true)
        && (rc.value.is_none() || rc_len == n_geo)
        && !matches!(tol, Given::Bad(_))
        && !matches!(unit, Given::Bad(_))
        && !matches!(parser, Given::Bad(_));
    let is_ok = matches!(built, Ok(Ok(_)));
    if valid && !is_ok {
        ctx.fail(idx, "builder/rejects-valid", format!("{} -> {}", cfg, out));
    }
    if !valid && is_ok {
        ctx.fail(idx, "builder/accepts-malformed", format!("{} was accepted (road class lines {}, geometries {})", cfg, rc_len, n_geo));
    }
    if rc.value.is_some() && rc.exists && rc.content_ok && rc_len != n_geo {
        ctx.count("builder_road_class_length_mismatch");
    }
    if let (true, Some(matched)) = (valid, probe_ok) {
        let limit = match (&tol, &unit) {
            (Given::Good(_, t), Given::Good(_, u)) => Some(t * si_d(u)),
            (Given::Good(_, t), _) => Some(*t),
            _ => None,
        };
        match limit {
            None => {
                if !matched {
                    ctx.fail(idx, "builder/tolerance-semantics", format!("{}: no tolerance configured but the probe {} m away was rejected", cfg, gc));
                }
                if matches!(unit, Given::Good(..)) {
                    ctx.count("builder_unit_without_tolerance");
                }
            }
            Some(l) => {
                if matches!(unit, Given::Absent) {
                    ctx.count("builder_tolerance_without_unit");
                }
                if gc < l * (1.0 - SLACK) - 1e-9 && !matched {
                    ctx.fail(idx, "builder/tolerance-semantics", format!("{}: tolerance {} m, probe {} m away rejected", cfg, l, gc));
                }
                if gc > l * (1.0 + SLACK) + 1e-9 && matched {
                    ctx.fail(idx, "builder/tolerance-semantics", format!("{}: tolerance {} m, probe {} m away matched", cfg, l, gc));
                }
            }
        }
    }
}

// ------------------------------------------------------------------------------------------------
// h: haversine
// ------------------------------------------------------------------------------------------------

/// great-circle distance in f64 on a sphere of radius 6 371 000 m (the oracle's own)
fn own_great_circle(a: (f32, f32), b: (f32, f32)) -> f64 {
    let (lon1, lat1, lon2, lat2) = ((a.0 as f64).to_radians(), (a.1 as f64).to_radians(), (b.0 as f64).to_radians(), (b.1 as f64).to_radians());
    let h = ((lat2 - lat1) / 2.0).sin().powi(2) + lat1.cos() * lat2.cos() * ((lon2 - lon1) / 2.0).sin().powi(2);
    2.0 * 6_371_000.0 * h.sqrt().min(1.0).asin()
}

fn special_point(rng: &mut Rng) -> (f32, f32) {
    match rng.below(14) {
        0 => (0.0, 0.0),
        1 => (180.0, 0.0),
        2 => (-180.0, 0.0),
        3 => (rng.uniform(-180.0, 180.0) as f32, 90.0),
        4 => (rng.uniform(-180.0, 180.0) as f32, -90.0),
        5 => (179.9 + rng.uniform(0.0, 0.1) as f32, rng.uniform(-60.0, 60.0) as f32),
        6 => (-179.9 - rng.uniform(0.0, 0.1) as f32, rng.uniform(-60.0, 60.0) as f32),
        7 => (*rng.pick(&[180.00002f32, -180.00002, 200.0, -300.0, 1.0e30, f32::INFINITY]), rng.uniform(-90.0, 90.0) as f32),
        8 => (rng.uniform(-180.0, 180.0) as f32, *rng.pick(&[90.00001f32, -90.00001, 95.0, -1000.0, f32::NEG_INFINITY])),
        9 => (f32::NAN, 0.0),
        _ => (rng.uniform(-180.0, 180.0) as f32, rng.uniform(-90.0, 90.0) as f32),
    }
}

pub fn haversine_case(ctx: &mut Ctx, idx: usize) {
    let mut rng = Rng::for_case(ctx.seed, 16, idx as u64);
    let a = special_point(&mut rng);
    let (b, branch) = match rng.below(8) {
        0 => (a, "identical"),
        1 => ((if a.0 > 0.0 { a.0 - 180.0 } else { a.0 + 180.0 }, -a.1), "antipodal"),
        2 => ((a.0 + rng.uniform(-1e-4, 1e-4) as f32, a.1 + rng.uniform(-1e-4, 1e-4) as f32), "very_near"),
        3 => ((-a.0, a.1), "mirrored_across_meridian"),
        _ => (special_point(&mut rng), "pair"),
    };
    let u = *rng.pick(&D);
    let (ca, cb) = (Coord::from(a), Coord::from(b));
    let r = catch_unwind(AssertUnwindSafe(|| (haversine::coord_distance_meters(&ca, &cb), haversine::coord_distance(&ca, &cb, u))));
    let Ok((m, cu)) = r else {
        ctx.emit(idx, "h panic".into(), "panic".into());
        ctx.fail(idx, "haversine/panic", format!("{:?} {:?}", a, b));
        return;
    };
    let opt = |x: &Result<Distance, String>| match x {
        Ok(d) => format!("s {}", fbits(d.as_f64())),
        Err(_) => "n".to_string(),
    };
    let case = format!("h {} {} {} {} {} {}", fbits(a.0 as f64), fbits(a.1 as f64), fbits(b.0 as f64), fbits(b.1 as f64), opt(&m), unit_name(&u));
    ctx.emit(idx, case, format!("m {} u {}", opt(&m), opt(&cu)));
    ctx.count(&format!("haversine_{}", branch));
    ctx.nontrivial(&format!("h {:?} {:?} {}", a, b, u));
    // ---- oracle ----
    let in_range = |p: (f32, f32)| (-180.0..=180.0).contains(&p.0) && (-90.0..=90.0).contains(&p.1);
    let both = in_range(a) && in_range(b);
    ctx.count(if both { "haversine_in_range" } else { "haversine_out_of_range" });
    match (&m, both) {
        (Ok(_), false) => ctx.fail(idx, "haversine/accepts-out-of-range", format!("{:?} {:?}", a, b)),
        (Err(e), true) => ctx.fail(idx, "haversine/rejects-in-range", format!("{:?} {:?}: {}", a, b, e)),
        (Err(_), false) => {}
        (Ok(d), true) => {
            let d = d.as_f64();
            let own = own_great_circle(a, b);
            if d.is_nan() {
                ctx.fail(idx, "haversine/nan", format!("{:?} {:?}: NaN (own value {} m)", a, b, own));
            } else {
                // f32 trigonometry: sub-metre noise everywhere, and near the antipode asin amplifies the rounding of its argument
                let band = 1.0e-3 * own + 10.0 + if own > 0.9 * std::f64::consts::PI * 6_371_000.0 { 2.0e4 } else { 0.0 };
                if (d - own).abs() > band {
                    ctx.fail(idx, "haversine/value", format!("{:?} {:?}: {} m, own f64 great circle {} m", a, b, d, own));
                }
                if a == b && d != 0.0 {
                    ctx.fail(idx, "haversine/identical-not-zero", format!("{:?}: {}", a, d));
                }
                if let Ok(back) = haversine::coord_distance_meters(&cb, &ca) {
                    if (back.as_f64() - d).abs() > 1.0e-4 * d + 1.0 {
                        ctx.fail(idx, "haversine/asymmetric", format!("{:?} {:?}: {} vs {}", a, b, d, back.as_f64()));
                    }
                }
            }
        }
    }
    if m.is_ok() != cu.is_ok() {
        ctx.fail(idx, "haversine/variants-disagree", format!("{:?} {:?}", a, b));
    }
}
