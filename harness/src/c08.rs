//! C08 — vehicle energy and battery state follow the powertrain model along a route.
//! Correspondence, two constructions of the real code:
//! (a) in-process: the real `EnergyTraversalModel` (built through `EnergyTraversalModel::new`, hence
//! through the real `update_from_query`) over the real `SpeedTraversalModel` (speed table, real
//! `get_max_speed`) and the real ICE / BEV / PHEV vehicle types with real `PredictionModelRecord`s
//! (optionally with the real `FloatCachePolicy`) whose `PredictionModel` is a stub that is affine in
//! speed and grade;
//! (b) configured, the way the application builds it: `EnergyModelBuilder::build(config)` — the registered
//! `SpeedLookupBuilder` over a speed-table file, the grade-table file, `VehicleBuilder::{ICE,BEV,PHEV}`
//! over smartcore model files (`load_prediction_model`, `find_min_energy_rate`, cache from
//! `float_cache_policy`), `EnergyModelService::new` — then `service.build(query)` selecting the vehicle by
//! `model_name` (known, unknown, absent, not a string).  The builders cannot take a stub predictor, so
//! the model files are small trained forests and the bundled vehicle models; the real model's answers
//! (collected by an in-process twin of the case around the same files) reach the Lean model as data.
//! In both, the state model is built as `SearchApp::build_search_instance` builds it (real
//! `collect_features` over the query's `state_features`, then `StateModel::extend`); the state after
//! every `traverse_edge`, `best_case_energy`, `best_case_energy_state` and the real
//! `estimate_traversal` (its great-circle distance, computed by the real haversine code, is handed to
//! the model as data; a rejected coordinate is an error outcome) are compared bit for bit with the Lean
//! model.  `energy_model_ops::get_headings` has its own small family.
//! Oracle (independent of the model): start charge = query value, rejection outside [0,100], charge
//! within [0,100] after every edge, unclamped step = -100 E / capacity, clamp direction, per-edge energy =
//! rate(edge speed, edge grade) x adjustment x length (hand-written SI factors), additivity, PHEV switch,
//! best-case energy (direct and through estimate_traversal); for configured cases the same statements
//! with the CONFIGURED values (keys builder/battery-capacity, builder/starting-soc, builder/ideal-rate,
//! builder/real-world-adjustment, builder/prediction-record, service/vehicle-selection) and agreement with
//! the in-process twin (builder/in-process-twin).
use crate::ctx::{fbits, Ctx};
use crate::rng::Rng;
use routee_compass_core::model::network::{Edge, Vertex};
use routee_compass_core::model::state::{state_feature::StateFeature, state_model::StateModel};
use routee_compass_core::model::traversal::default::{
    speed_traversal_engine::SpeedTraversalEngine, speed_traversal_service::SpeedLookupService,
};
use routee_compass_core::model::traversal::traversal_model::TraversalModel;
use routee_compass_core::model::traversal::traversal_model_error::TraversalModelError;
use routee_compass_core::model::unit::as_f64::AsF64;
use routee_compass_core::model::unit::*;
use routee_compass_core::util::cache_policy::float_cache_policy::{FloatCachePolicy, FloatCachePolicyConfig};
use routee_compass_powertrain::routee::energy_model_service::EnergyModelService;
use routee_compass_powertrain::routee::energy_traversal_model::EnergyTraversalModel;
use routee_compass_powertrain::routee::prediction::{model_type::ModelType, PredictionModel, PredictionModelRecord};
use routee_compass_powertrain::routee::vehicle::{
    default::{bev::BEV, ice::ICE, phev::PHEV},
    VehicleType,
};
use std::collections::HashMap;
use std::sync::atomic::{AtomicUsize, Ordering};
use std::sync::Arc;

const D: [DistanceUnit; 5] = [
    DistanceUnit::Meters,
    DistanceUnit::Kilometers,
    DistanceUnit::Miles,
    DistanceUnit::Inches,
    DistanceUnit::Feet,
];
const T: [TimeUnit; 4] = [TimeUnit::Hours, TimeUnit::Minutes, TimeUnit::Seconds, TimeUnit::Milliseconds];
const S: [SpeedUnit; 3] = [SpeedUnit::KilometersPerHour, SpeedUnit::MilesPerHour, SpeedUnit::MetersPerSecond];
const E: [EnergyUnit; 3] = [EnergyUnit::GallonsGasoline, EnergyUnit::GallonsDiesel, EnergyUnit::KilowattHours];
const G: [GradeUnit; 3] = [GradeUnit::Percent, GradeUnit::Decimal, GradeUnit::Millis];
const ER: [EnergyRateUnit; 5] = [
    EnergyRateUnit::GallonsGasolinePerMile,
    EnergyRateUnit::GallonsDieselPerMile,
    EnergyRateUnit::KilowattHoursPerMile,
    EnergyRateUnit::KilowattHoursPerKilometer,
    EnergyRateUnit::KilowattHoursPerMeter,
];

// SI definitions, written independently of the source tables
fn si_d(u: &DistanceUnit) -> f64 {
    match u {
        DistanceUnit::Meters => 1.0,
        DistanceUnit::Kilometers => 1000.0,
        DistanceUnit::Miles => 1609.344,
        DistanceUnit::Inches => 0.0254,
        DistanceUnit::Feet => 0.3048,
    }
}
fn si_s(u: &SpeedUnit) -> f64 {
    match u {
        SpeedUnit::KilometersPerHour => 1000.0 / 3600.0,
        SpeedUnit::MilesPerHour => 1609.344 / 3600.0,
        SpeedUnit::MetersPerSecond => 1.0,
    }
}
fn si_g(u: &GradeUnit) -> f64 {
    match u {
        GradeUnit::Percent => 0.01,
        GradeUnit::Decimal => 1.0,
        GradeUnit::Millis => 0.001,
    }
}

const EPS: f64 = 2.220446049250313e-16;
/// worst-case accumulated deviation of the chained unit tables from the SI factors (C09: each
/// conversion is within 2.2e-4; at most ~10 conversions touch the speed, 3 the distance)
const CHAIN_TOL: f64 = 5.0e-3;
/// two paths through the energy table disagree by at most this (C09 round trip bound)
const TABLE_TOL: f64 = 1.5e-3;

#[derive(Clone, Copy, PartialEq, Eq, Debug)]
enum Kind {
    Ice,
    Bev,
    Phev,
}

#[derive(Clone, Debug)]
struct RecSpec {
    su: SpeedUnit,
    gu: GradeUnit,
    ru: EnergyRateUnit,
    a0: f64,
    a1: f64,
    a2: f64,
    ideal: f64,
    adj: f64,
    cache: Option<(usize, Vec<i32>)>,
    /// the predictor is a real smartcore model file (what the configuration builders can load); then
    /// a0..a2 are unused and `ideal` / `adj` hold the values in force (configured or defaulted)
    file: Option<FileRec>,
}

#[derive(Clone, Debug)]
struct FileRec {
    path: String,
    ideal_cfg: Option<f64>,
    adj_cfg: Option<f64>,
    /// (speed, grade) in the model's own units -> rate, as evaluated by the real model on this case's route
    table: Vec<(f64, f64, f64)>,
    /// the real model's predictions on the ideal-rate sweep (20..79 mph, zero grade)
    sweep: Vec<f64>,
}

#[derive(Clone, Debug)]
struct VehSpec {
    kind: Kind,
    rec: RecSpec,
    sustain: Option<RecSpec>,
    cap: f64,
    bunit: EnergyUnit,
}

#[derive(Clone, Debug)]
enum NameQuery {
    Absent,
    NonString,
    Name(usize),
}

/// the case is built the way the application builds it: `EnergyModelBuilder::build(config)` (speed
/// table and grade table files, `VehicleBuilder`s over model files) and `service.build(query)`
#[derive(Clone, Debug)]
struct CfgSpec {
    /// (name id, vehicle) in configuration order; the vehicle named by the query is also the Spec's own
    library: Vec<(usize, VehSpec)>,
    name: NameQuery,
    /// leave `distance_unit` / `time_unit` of the time model and `distance_unit` of the energy model
    /// out of the configuration (only when the unit in force is the default)
    omit_edu: bool,
    omit_etu: bool,
    omit_sdu: bool,
    /// a vertex coordinate outside the valid range: the haversine code fails
    bad_coord: bool,
    /// the configuration is made unreadable in one of several ways (see `break_config`)
    malformed: Option<usize>,
}

#[derive(Clone, Debug)]
enum Query {
    Absent,
    NonNum,
    Num(f64),
    Int(i64),
}

#[derive(Clone, Debug)]
struct Spec {
    kind: Kind,
    /// ICE / BEV record, or the PHEV's charge-depleting record
    rec: RecSpec,
    /// the PHEV's charge-sustaining record
    sustain: Option<RecSpec>,
    cap: f64,
    bunit: EnergyUnit,
    query: Query,
    tmsu: SpeedUnit,
    grades: Option<Vec<f64>>,
    ggu: GradeUnit,
    sdu: DistanceUnit,
    speeds: Vec<f64>,
    esu: SpeedUnit,
    edu: DistanceUnit,
    etu: TimeUnit,
    ftu: TimeUnit,
    fdu: DistanceUnit,
    flu: EnergyUnit,
    feu: EnergyUnit,
    edges: Vec<(usize, f64)>,
    bcd: f64,
    /// the two vertices `estimate_traversal` is asked about (x, y in degrees)
    od: ((f32, f32), (f32, f32)),
    /// the query carries a `state_features` section: units ftu/fdu/flu/feu and, when given, the
    /// initial value of `battery_state`
    state_features: bool,
    soc_override: Option<f64>,
    /// the query's `state_features` replaces `battery_state` by a feature of another format
    /// (signed_integer, unsigned_integer, boolean): a change of kind, to be refused
    soc_format: Option<&'static str>,
    cfg: Option<CfgSpec>,
}

fn rec_line(r: &RecSpec) -> String {
    let cache = match &r.cache {
        None => "n".to_string(),
        Some((size, precs)) => {
            let mut s = format!("s {} {}", size, precs.len());
            for p in precs {
                s.push_str(&format!(" {}", p));
            }
            s
        }
    };
    match &r.file {
        None => format!(
            "{} {} {} aff {} {} {} {} {} {}",
            r.su,
            r.gu,
            r.ru,
            fbits(r.a0),
            fbits(r.a1),
            fbits(r.a2),
            fbits(r.ideal),
            fbits(r.adj),
            cache
        ),
        Some(f) => {
            let mut t = format!("{}", f.table.len());
            for (sv, gv, rv) in &f.table {
                t.push_str(&format!(" {} {} {}", fbits(*sv), fbits(*gv), fbits(*rv)));
            }
            let opt = |x: &Option<f64>| match x {
                None => "n".to_string(),
                Some(v) => format!("s {}", fbits(*v)),
            };
            format!("{} {} {} tbl {} {} {} {} {}", r.su, r.gu, r.ru, t, opt(&f.ideal_cfg), list_line(&f.sweep), opt(&f.adj_cfg), cache)
        }
    }
}

fn list_line(xs: &[f64]) -> String {
    let mut s = format!("{}", xs.len());
    for x in xs {
        s.push(' ');
        s.push_str(&fbits(*x));
    }
    s
}

fn veh_line(kind: Kind, rec: &RecSpec, sustain: &Option<RecSpec>, cap: f64, bunit: &EnergyUnit) -> String {
    match kind {
        Kind::Ice => format!("ice {}", rec_line(rec)),
        Kind::Bev => format!("bev {} {} {}", rec_line(rec), fbits(cap), bunit),
        Kind::Phev => format!("phev {} {} {} {}", rec_line(sustain.as_ref().unwrap()), rec_line(rec), fbits(cap), bunit),
    }
}

fn case_line(sp: &Spec) -> String {
    let q = match &sp.query {
        Query::Absent => "absent".to_string(),
        Query::NonNum => "nonnum".to_string(),
        Query::Num(x) => format!("num {}", fbits(*x)),
        Query::Int(i) => format!("num {}", fbits(*i as f64)),
    };
    let opt_unit = |omit: bool, name: String| if omit { "n".to_string() } else { format!("s {}", name) };
    let head = match &sp.cfg {
        None => format!("{} {}", veh_line(sp.kind, &sp.rec, &sp.sustain, sp.cap, &sp.bunit), q),
        Some(c) => {
            let mut h = format!("cfg {} {}", if c.malformed.is_some() { 1 } else { 0 }, c.library.len());
            for (k, (id, v)) in c.library.iter().enumerate() {
                // the vehicle the query names carries the rate tables collected on this case's route
                let selected = matches!(&c.name, NameQuery::Name(n) if n == id) && !c.library[k + 1..].iter().any(|(j, _)| j == id);
                if selected {
                    h.push_str(&format!(" {} {}", id, veh_line(sp.kind, &sp.rec, &sp.sustain, sp.cap, &sp.bunit)));
                } else {
                    h.push_str(&format!(" {} {}", id, veh_line(v.kind, &v.rec, &v.sustain, v.cap, &v.bunit)));
                }
            }
            let nm = match &c.name {
                NameQuery::Absent => "absent".to_string(),
                NameQuery::NonString => "nonstr".to_string(),
                NameQuery::Name(k) => format!("name {}", k),
            };
            format!("{} {} {}", h, nm, q)
        }
    };
    let gt = match &sp.grades {
        None => "n".to_string(),
        Some(g) => format!("s {}", list_line(g)),
    };
    let mut edges = format!("{}", sp.edges.len());
    for (id, d) in &sp.edges {
        edges.push_str(&format!(" {} {}", id, fbits(*d)));
    }
    let (sdu, edu, etu, hm) = match &sp.cfg {
        None => (format!("{}", sp.sdu), format!("{}", sp.edu), format!("{}", sp.etu), fbits(haversine_m(sp).unwrap())),
        Some(c) => (
            opt_unit(c.omit_sdu, format!("{}", sp.sdu)),
            opt_unit(c.omit_edu, format!("{}", sp.edu)),
            opt_unit(c.omit_etu, format!("{}", sp.etu)),
            match haversine_m(sp) {
                Some(x) => format!("s {}", fbits(x)),
                None => "n".to_string(),
            },
        ),
    };
    format!(
        "{} {} {} {} {} {} {} {} {} {} {} {} {} {} {} {} {}",
        head,
        sp.tmsu,
        gt,
        sp.ggu,
        sdu,
        list_line(&sp.speeds),
        sp.esu,
        edu,
        etu,
        sp.ftu,
        sp.fdu,
        sp.flu,
        sp.feu,
        edges,
        fbits(sp.bcd),
        hm,
        format!(
            "{} {}",
            match sp.soc_override {
                None => "n".to_string(),
                Some(y) => format!("s {}", fbits(y)),
            },
            match sp.soc_format {
                None => "n".to_string(),
                Some(f) => format!("s {}", f),
            }
        )
    )
}

/// the great-circle distance of the case's vertex pair in metres, from the real haversine code (the
/// model takes it as data)
fn haversine_m(sp: &Spec) -> Option<f64> {
    let (src, dst) = od_vertices(sp);
    routee_compass_core::util::geo::haversine::coord_distance_meters(&src.coordinate, &dst.coordinate)
        .ok()
        .map(|d| d.as_f64())
}

fn od_vertices(sp: &Spec) -> (Vertex, Vertex) {
    let bad = sp.cfg.as_ref().map(|c| c.bad_coord).unwrap_or(false);
    let src = Vertex::new(0, sp.od.0 .0, sp.od.0 .1);
    let dst = if bad { Vertex::new(1, sp.od.1 .0, 91.5) } else { Vertex::new(1, sp.od.1 .0, sp.od.1 .1) };
    (src, dst)
}

type Seen = Arc<std::sync::Mutex<Option<(f64, String, f64, String)>>>;

/// what the harness observes of the predictor calls
#[derive(Clone)]
struct Probes {
    calls_main: Arc<AtomicUsize>,
    calls_sus: Arc<AtomicUsize>,
    /// what the real code handed to the predictor last: raw speed and grade with their units
    seen: Seen,
    /// the rate the predictor returned last
    last_rate: Arc<std::sync::Mutex<Option<f64>>>,
    /// every evaluation of a file-based predictor: (speed, grade) in the model's own units -> rate
    log_main: Arc<std::sync::Mutex<Vec<(f64, f64, f64)>>>,
    log_sus: Arc<std::sync::Mutex<Vec<(f64, f64, f64)>>>,
}

impl Probes {
    fn new() -> Probes {
        Probes {
            calls_main: Arc::new(AtomicUsize::new(0)),
            calls_sus: Arc::new(AtomicUsize::new(0)),
            seen: Arc::new(std::sync::Mutex::new(None)),
            last_rate: Arc::new(std::sync::Mutex::new(None)),
            log_main: Arc::new(std::sync::Mutex::new(vec![])),
            log_sus: Arc::new(std::sync::Mutex::new(vec![])),
        }
    }
}

/// the stub prediction model: converts its arguments to its own units exactly as the bundled
/// implementations do, then evaluates `a0 + a1 * speed + a2 * grade`
struct Stub {
    su: SpeedUnit,
    gu: GradeUnit,
    ru: EnergyRateUnit,
    a0: f64,
    a1: f64,
    a2: f64,
    calls: Arc<AtomicUsize>,
    seen: Seen,
    last_rate: Arc<std::sync::Mutex<Option<f64>>>,
}

impl PredictionModel for Stub {
    fn predict(
        &self,
        speed: (Speed, SpeedUnit),
        grade: (Grade, GradeUnit),
    ) -> Result<(EnergyRate, EnergyRateUnit), TraversalModelError> {
        let (speed, speed_unit) = speed;
        let (grade, grade_unit) = grade;
        let s = speed_unit.convert(&speed, &self.su).as_f64();
        let g = grade_unit.convert(&grade, &self.gu).as_f64();
        self.calls.fetch_add(1, Ordering::SeqCst);
        *self.seen.lock().unwrap() = Some((speed.as_f64(), format!("{}", speed_unit), grade.as_f64(), format!("{}", grade_unit)));
        let rate = self.a0 + self.a1 * s + self.a2 * g;
        *self.last_rate.lock().unwrap() = Some(rate);
        Ok((EnergyRate::new(rate), self.ru))
    }
}

/// a real prediction model (loaded from a model file by `load_prediction_model`) that records what it is
/// asked and what it answers
struct Recording {
    inner: Arc<dyn PredictionModel>,
    su: SpeedUnit,
    gu: GradeUnit,
    calls: Arc<AtomicUsize>,
    seen: Seen,
    last_rate: Arc<std::sync::Mutex<Option<f64>>>,
    log: Arc<std::sync::Mutex<Vec<(f64, f64, f64)>>>,
}

impl PredictionModel for Recording {
    fn predict(
        &self,
        speed: (Speed, SpeedUnit),
        grade: (Grade, GradeUnit),
    ) -> Result<(EnergyRate, EnergyRateUnit), TraversalModelError> {
        let r = self.inner.predict(speed, grade)?;
        let s = speed.1.convert(&speed.0, &self.su).as_f64();
        let g = grade.1.convert(&grade.0, &self.gu).as_f64();
        self.calls.fetch_add(1, Ordering::SeqCst);
        *self.seen.lock().unwrap() = Some((speed.0.as_f64(), format!("{}", speed.1), grade.0.as_f64(), format!("{}", grade.1)));
        *self.last_rate.lock().unwrap() = Some(r.0.as_f64());
        self.log.lock().unwrap().push((s, g, r.0.as_f64()));
        Ok(r)
    }
}

fn make_cache(r: &RecSpec) -> Option<FloatCachePolicy> {
    r.cache.as_ref().map(|(size, precs)| {
        FloatCachePolicy::from_config(FloatCachePolicyConfig { cache_size: *size, key_precisions: precs.clone() })
            .expect("cache config")
    })
}

fn build_record(name: &str, r: &RecSpec, calls: Arc<AtomicUsize>, log: Arc<std::sync::Mutex<Vec<(f64, f64, f64)>>>, pr: &Probes) -> PredictionModelRecord {
    match &r.file {
        None => PredictionModelRecord {
            name: name.to_string(),
            prediction_model: Arc::new(Stub { su: r.su, gu: r.gu, ru: r.ru, a0: r.a0, a1: r.a1, a2: r.a2, calls, seen: pr.seen.clone(), last_rate: pr.last_rate.clone() }),
            model_type: ModelType::Smartcore,
            speed_unit: r.su,
            grade_unit: r.gu,
            energy_rate_unit: r.ru,
            ideal_energy_rate: EnergyRate::new(r.ideal),
            real_world_energy_adjustment: r.adj,
            cache: make_cache(r),
        },
        Some(f) => {
            // the in-process twin of a configured record: the same model file, wrapped so that its
            // evaluations can be handed to the Lean model as data
            let mut rec = routee_compass_powertrain::routee::prediction::load_prediction_model(
                name.to_string(),
                &f.path,
                ModelType::Smartcore,
                r.su,
                r.gu,
                r.ru,
                Some(EnergyRate::new(r.ideal)),
                Some(r.adj),
                make_cache(r),
            )
            .expect("model file loads");
            rec.prediction_model = Arc::new(Recording { inner: rec.prediction_model.clone(), su: r.su, gu: r.gu, calls, seen: pr.seen.clone(), last_rate: pr.last_rate.clone(), log });
            rec
        }
    }
}

/// values of the vehicle's features, each in its feature unit: [time, distance, liquid?, electric?, soc?]
#[derive(Clone, Debug, Default)]
struct Obs {
    time: f64,
    distance: f64,
    liquid: f64,
    electric: f64,
    soc: f64,
}

fn read_state(sp: &Spec, sm: &StateModel, st: &[routee_compass_core::model::traversal::state::state_variable::StateVar]) -> Obs {
    let mut o = Obs::default();
    o.time = sm.get_time(st, &"time".to_string(), &sp.ftu).unwrap().as_f64();
    o.distance = sm.get_distance(st, &"distance".to_string(), &sp.fdu).unwrap().as_f64();
    if sp.kind != Kind::Bev {
        o.liquid = sm.get_energy(st, &"energy_liquid".to_string(), &sp.flu).unwrap().as_f64();
    }
    if sp.kind != Kind::Ice {
        o.electric = sm.get_energy(st, &"energy_electric".to_string(), &sp.feu).unwrap().as_f64();
        o.soc = sm.get_custom_f64(st, &"battery_state".to_string()).unwrap();
    }
    o
}

fn show(sp: &Spec, o: &Obs) -> String {
    match sp.kind {
        Kind::Ice => format!("{} {} {}", fbits(o.time), fbits(o.distance), fbits(o.liquid)),
        Kind::Bev => format!("{} {} {} {}", fbits(o.time), fbits(o.distance), fbits(o.electric), fbits(o.soc)),
        Kind::Phev => format!(
            "{} {} {} {} {}",
            fbits(o.time),
            fbits(o.distance),
            fbits(o.liquid),
            fbits(o.electric),
            fbits(o.soc)
        ),
    }
}

enum Step {
    /// state after the edge; whether the main / sustain stub was called during the edge; the raw
    /// (speed, grade) the predictor was handed (only recorded when no cache is configured); the rate the
    /// predictor returned on this edge (None: it was not called)
    Ok(Obs, bool, bool, Option<(f64, f64)>, Option<f64>),
    Err(&'static str),
}

struct Outcome {
    rejected: bool,
    init: Obs,
    steps: Vec<Step>,
    last: Obs,
    bc: Option<(f64, EnergyUnit)>,
    bcs: Obs,
    /// state after `estimate_traversal` from `last` (None: error)
    est: Option<Obs>,
    engine_rejected: bool,
    /// configured battery vehicle: the initial charge its builder gives it before any query
    built_soc: Option<f64>,
}

fn empty_outcome() -> Outcome {
    Outcome { rejected: false, init: Obs::default(), steps: vec![], last: Obs::default(), bc: None, bcs: Obs::default(), est: None, engine_rejected: false, built_soc: None }
}

/// the query: `model_name`, `starting_soc_percent`, `state_features`
fn query_json(sp: &Spec, model_name: Option<serde_json::Value>) -> serde_json::Value {
    let mut conf = serde_json::json!({});
    if let Some(n) = model_name {
        conf["model_name"] = n;
    }
    match &sp.query {
        Query::Absent => {}
        Query::NonNum => conf["starting_soc_percent"] = serde_json::json!("fifty"),
        Query::Num(x) => conf["starting_soc_percent"] = serde_json::json!(*x),
        Query::Int(i) => conf["starting_soc_percent"] = serde_json::json!(*i),
    }
    if sp.state_features {
        let mut sf = serde_json::Map::new();
        sf.insert("time".to_string(), serde_json::json!({ "time_unit": sp.ftu, "initial": 0.0 }));
        sf.insert("distance".to_string(), serde_json::json!({ "distance_unit": sp.fdu, "initial": 0.0 }));
        if sp.kind != Kind::Bev {
            sf.insert("energy_liquid".to_string(), serde_json::json!({ "energy_unit": sp.flu, "initial": 0.0 }));
        }
        if sp.kind != Kind::Ice {
            sf.insert("energy_electric".to_string(), serde_json::json!({ "energy_unit": sp.feu, "initial": 0.0 }));
            if let Some(f) = sp.soc_format {
                let initial = if f == "boolean" { serde_json::json!(true) } else { serde_json::json!(50) };
                let mut fmt = serde_json::Map::new();
                fmt.insert(f.to_string(), serde_json::json!({ "initial": initial }));
                sf.insert("battery_state".to_string(), serde_json::json!({ "type": "soc", "unit": "percent", "format": fmt }));
            } else if let Some(y) = sp.soc_override {
                sf.insert(
                    "battery_state".to_string(),
                    serde_json::json!({ "type": "soc", "unit": "percent", "format": { "floating_point": { "initial": y } } }),
                );
            }
        }
        conf["state_features"] = serde_json::Value::Object(sf);
    }
    conf
}

/// in-process construction from the crates' public structs (predictor: stub or recording model file)
fn execute(sp: &Spec, pr: &Probes) -> (String, Outcome) {
    let name = "veh".to_string();
    let vehicle: Arc<dyn VehicleType> = match sp.kind {
        Kind::Ice => Arc::new(ICE::new(name.clone(), build_record("rec", &sp.rec, pr.calls_main.clone(), pr.log_main.clone(), pr)).unwrap()),
        Kind::Bev => Arc::new(BEV::new(
            name.clone(),
            build_record("rec", &sp.rec, pr.calls_main.clone(), pr.log_main.clone(), pr),
            Energy::new(sp.cap),
            Energy::new(sp.cap),
            sp.bunit,
        )),
        Kind::Phev => Arc::new(
            PHEV::new(
                name.clone(),
                build_record("sustain", sp.sustain.as_ref().unwrap(), pr.calls_sus.clone(), pr.log_sus.clone(), pr),
                build_record("deplete", &sp.rec, pr.calls_main.clone(), pr.log_main.clone(), pr),
                Energy::new(sp.cap),
                Energy::new(sp.cap),
                sp.bunit,
                None,
            )
            .unwrap(),
        ),
    };
    let mut library: HashMap<String, Arc<dyn VehicleType>> = HashMap::new();
    library.insert(name.clone(), vehicle);
    let speed_table: Box<[Speed]> = sp.speeds.iter().map(|s| Speed::new(*s)).collect();
    let mut out = empty_outcome();
    let max_speed = match routee_compass_core::model::traversal::default::speed_traversal_engine::get_max_speed(&speed_table) {
        Ok(m) => m,
        Err(_) => {
            out.rejected = true;
            out.engine_rejected = true;
            return ("engine_rejected".to_string(), out);
        }
    };
    let engine = SpeedTraversalEngine {
        speed_table,
        speed_unit: sp.esu,
        time_unit: sp.etu,
        distance_unit: sp.edu,
        max_speed,
    };
    let grade_table: Option<Box<[Grade]>> = sp.grades.as_ref().map(|g| g.iter().map(|x| Grade::new(*x)).collect());
    let service = EnergyModelService {
        time_model_service: Arc::new(SpeedLookupService { e: Arc::new(engine) }),
        time_model_speed_unit: sp.tmsu,
        grade_table: Arc::new(grade_table),
        grade_table_grade_unit: sp.ggu,
        time_unit: sp.etu,
        distance_unit: sp.sdu,
        vehicle_library: library,
    };
    let conf = query_json(sp, Some(serde_json::json!(name)));
    let model = match EnergyTraversalModel::new(Arc::new(service), &conf) {
        Ok(m) => m,
        Err(_) => {
            out.rejected = true;
            return ("rejected".to_string(), out);
        }
    };
    let vehicle = model.vehicle.clone();
    drive(sp, Arc::new(model), Some(vehicle), &conf, pr)
}

fn cfg_record_json(name: &str, r: &RecSpec) -> serde_json::Value {
    let f = r.file.as_ref().expect("configured records are model files");
    let mut j = serde_json::json!({
        "name": name,
        "model_input_file": f.path,
        "model_type": "smartcore",
        "speed_unit": r.su,
        "grade_unit": r.gu,
        "energy_rate_unit": r.ru,
    });
    if let Some(x) = f.ideal_cfg {
        j["ideal_energy_rate"] = serde_json::json!(x);
    }
    if let Some(x) = f.adj_cfg {
        j["real_world_energy_adjustment"] = serde_json::json!(x);
    }
    if let Some((size, precs)) = &r.cache {
        j["float_cache_policy"] = serde_json::json!({ "cache_size": size, "key_precisions": precs });
    }
    j
}

fn cfg_vehicle_json(id: usize, v: &VehSpec) -> serde_json::Value {
    let name = format!("v{}", id);
    match v.kind {
        Kind::Ice => {
            let mut j = cfg_record_json(&name, &v.rec);
            j["type"] = serde_json::json!("ice");
            j
        }
        Kind::Bev => {
            let mut j = cfg_record_json(&name, &v.rec);
            j["type"] = serde_json::json!("bev");
            j["battery_capacity"] = serde_json::json!(v.cap);
            j["battery_capacity_unit"] = serde_json::json!(v.bunit);
            j
        }
        Kind::Phev => serde_json::json!({
            "type": "phev",
            "name": name,
            "battery_capacity": v.cap,
            "battery_capacity_unit": v.bunit,
            "charge_depleting": cfg_record_json(&format!("{}_cd", name), &v.rec),
            "charge_sustaining": cfg_record_json(&format!("{}_cs", name), v.sustain.as_ref().unwrap()),
        }),
    }
}

fn write_table(path: &str, xs: &[f64]) {
    let mut t = String::new();
    for x in xs {
        t.push_str(&format!("{}\n", x));
    }
    std::fs::write(path, t).expect("table file written");
}

/// make the configuration unreadable: every variant must end in a build error
fn break_config(params: &mut serde_json::Value, k: usize, grade_file: &str) {
    let n = params["vehicles"].as_array().map(|a| a.len()).unwrap_or(0);
    let battery = (0..n).find(|i| params["vehicles"][*i]["type"] != "ice");
    let phev = (0..n).find(|i| params["vehicles"][*i]["type"] == "phev");
    // the first record section of the first vehicle
    let first_is_phev = params["vehicles"][0]["type"] == "phev";
    match k {
        1 if battery.is_some() => {
            params["vehicles"][battery.unwrap()].as_object_mut().unwrap().remove("battery_capacity");
        }
        2 if phev.is_some() => {
            params["vehicles"][phev.unwrap()].as_object_mut().unwrap().remove("charge_depleting");
        }
        3 => params["time_model"]["type"] = serde_json::json!("warp"),
        4 => {
            params.as_object_mut().unwrap().remove("time_model");
        }
        5 => {
            params.as_object_mut().unwrap().remove("grade_table_grade_unit");
        }
        6 => {
            if first_is_phev {
                params["vehicles"][0]["charge_sustaining"]["model_input_file"] = serde_json::json!("work/C08_cfg/no_such_model.bin");
            } else {
                params["vehicles"][0]["model_input_file"] = serde_json::json!("work/C08_cfg/no_such_model.bin");
            }
        }
        7 | 8 => {
            let policy = if k == 7 { serde_json::json!({ "cache_size": 0, "key_precisions": [2, 2] }) } else { serde_json::json!({ "cache_size": 10, "key_precisions": [11, 2] }) };
            if first_is_phev {
                params["vehicles"][0]["charge_depleting"]["float_cache_policy"] = policy;
            } else {
                params["vehicles"][0]["float_cache_policy"] = policy;
            }
        }
        9 => {
            std::fs::write(grade_file, "0.01\nabc\n0.02\n").expect("grade file");
            params["grade_table_input_file"] = serde_json::json!(grade_file);
        }
        10 => {
            params.as_object_mut().unwrap().remove("vehicles");
        }
        11 if battery.is_some() => params["vehicles"][battery.unwrap()]["battery_capacity_unit"] = serde_json::json!("joules"),
        12 => params["time_model"]["speed_table_input_file"] = serde_json::json!("work/C08_cfg/no_such_speeds.txt"),
        13 => {
            params["vehicles"][0].as_object_mut().unwrap().remove("type");
        }
        // NaN and the infinities have no JSON form: the capacity arrives as null
        14 | 15 if battery.is_some() => params["vehicles"][battery.unwrap()]["battery_capacity"] = serde_json::json!(if k == 14 { f64::NAN } else { f64::INFINITY }),
        _ => params["vehicles"][0]["type"] = serde_json::json!("hovercraft"),
    }
}

/// construction the way the application does it: `EnergyModelBuilder::build(config)` — the registered
/// speed-table builder over a speed file, the grade file, `VehicleBuilder::from_string(type).build(..)` per
/// vehicle over its model file(s), `EnergyModelService::new` — then `service.build(query)`
fn execute_cfg(sp: &Spec, c: &CfgSpec, idx: usize) -> (String, Outcome) {
    use routee_compass::app::compass::config::traversal_model::{energy_model_builder::EnergyModelBuilder, speed_lookup_builder::SpeedLookupBuilder};
    use routee_compass_core::model::traversal::traversal_model_builder::TraversalModelBuilder;
    let dir = "work/C08_cfg";
    std::fs::create_dir_all(dir).expect("work dir");
    let speed_file = format!("{}/speeds_{}_{}.txt", dir, std::process::id(), idx);
    let grade_file = format!("{}/grades_{}_{}.txt", dir, std::process::id(), idx);
    write_table(&speed_file, &sp.speeds);
    let mut time_model = serde_json::json!({ "type": "speed_table", "speed_table_input_file": speed_file, "speed_unit": sp.tmsu });
    if !c.omit_edu {
        time_model["distance_unit"] = serde_json::json!(sp.edu);
    }
    if !c.omit_etu {
        time_model["time_unit"] = serde_json::json!(sp.etu);
    }
    let mut params = serde_json::json!({
        "type": "energy_model",
        "time_model": time_model,
        "grade_table_grade_unit": sp.ggu,
        "vehicles": c.library.iter().map(|(id, v)| cfg_vehicle_json(*id, v)).collect::<Vec<_>>(),
    });
    if let Some(g) = &sp.grades {
        write_table(&grade_file, g);
        params["grade_table_input_file"] = serde_json::json!(grade_file);
    }
    if !c.omit_sdu {
        params["distance_unit"] = serde_json::json!(sp.sdu);
    }
    if let Some(k) = c.malformed {
        break_config(&mut params, k, &grade_file);
    }
    let mut time_models: HashMap<String, std::rc::Rc<dyn TraversalModelBuilder>> = HashMap::new();
    time_models.insert("speed_table".to_string(), std::rc::Rc::new(SpeedLookupBuilder {}));
    let built = EnergyModelBuilder::new(time_models).build(&params);
    let _ = std::fs::remove_file(&speed_file);
    let _ = std::fs::remove_file(&grade_file);
    let mut out = empty_outcome();
    let service = match built {
        Ok(s) => s,
        Err(_) => {
            out.rejected = true;
            out.engine_rejected = true;
            return ("engine_rejected".to_string(), out);
        }
    };
    // the vehicle the query names, as its builder leaves it (before any query): a battery vehicle starts full
    let named = match &c.name {
        NameQuery::Name(k) => c.library.iter().rev().find(|(id, _)| id == k),
        _ => None,
    };
    let built = match named {
        Some((id, v)) if v.kind != Kind::Ice => {
            use routee_compass::app::compass::config::traversal_model::energy_model_vehicle_builders::VehicleBuilder;
            let ty = match v.kind { Kind::Ice => "ice", Kind::Bev => "bev", Kind::Phev => "phev" };
            let vehicle = VehicleBuilder::from_string(ty.to_string()).expect("vehicle type").build(&cfg_vehicle_json(*id, v)).expect("vehicle builds");
            let soc = vehicle
                .state_features()
                .into_iter()
                .find(|(n, _)| n == "battery_state")
                .map(|(_, f)| f.get_initial().expect("initial").0)
                .expect("battery_state feature");
            out.built_soc = Some(soc);
            format!("built {} | ", fbits(soc))
        }
        _ => "built - | ".to_string(),
    };
    let name = match &c.name {
        NameQuery::Absent => None,
        NameQuery::NonString => Some(serde_json::json!(17)),
        NameQuery::Name(k) => Some(serde_json::json!(format!("v{}", k))),
    };
    let conf = query_json(sp, name);
    let model = match service.build(&conf) {
        Ok(m) => m,
        Err(_) => {
            out.rejected = true;
            return (format!("{}rejected", built), out);
        }
    };
    let (line, mut oc) = drive(sp, model, None, &conf, &Probes::new());
    oc.built_soc = out.built_soc;
    (format!("{}{}", built, line), oc)
}

/// the route, the best case and the estimate on a built model
fn drive(sp: &Spec, model: Arc<dyn TraversalModel>, vehicle: Option<Arc<dyn VehicleType>>, conf: &serde_json::Value, pr: &Probes) -> (String, Outcome) {
    let mut out = empty_outcome();
    let no_cache = sp.rec.cache.is_none() && sp.sustain.as_ref().map(|r| r.cache.is_none()).unwrap_or(true);
    let report_probe = no_cache && sp.cfg.is_none();
    // the state model, built the way `SearchApp::build_search_instance` builds it: the model's features,
    // overridden by the query's `state_features`, extend the (empty) base state model
    let features: Vec<(String, StateFeature)> = routee_compass::app::search::search_app_ops::collect_features(
        conf,
        model.clone(),
        Arc::new(routee_compass_core::model::access::default::no_access_model::NoAccessModel {}),
    )
    .expect("collect_features");
    // (as `build_search_instance` does: a failing `extend` is a build error for this query)
    let sm = match StateModel::empty().extend(features) {
        Ok(sm) => sm,
        Err(_) => {
            out.rejected = true;
            return ("rejected".to_string(), out);
        }
    };
    let mut state = sm.initial_state().unwrap();
    let v = Vertex::new(0, 0.0, 0.0);
    out.init = read_state(sp, &sm, &state);
    let mut parts = vec![format!("init {}", show(sp, &out.init))];
    out.last = out.init.clone();
    for (id, d) in &sp.edges {
        let edge = Edge::new(*id, 0, 1, *d);
        let before = state.clone();
        let cm = pr.calls_main.load(Ordering::SeqCst);
        let cs = pr.calls_sus.load(Ordering::SeqCst);
        *pr.last_rate.lock().unwrap() = None;
        match model.traverse_edge((&v, &edge, &v), &mut state, &sm) {
            Ok(()) => {
                let o = read_state(sp, &sm, &state);
                // without a cache the predictor is called on every edge: report what it was handed
                let mut handed = None;
                let probe = if report_probe {
                    match pr.seen.lock().unwrap().take() {
                        Some((s, su, g, gu)) => {
                            handed = Some((s, g));
                            format!(" p {} {} {} {}", fbits(s), fbits(g), su, gu)
                        }
                        None => " p none".to_string(),
                    }
                } else {
                    String::new()
                };
                parts.push(format!("ok {}{}", show(sp, &o), probe));
                out.last = o.clone();
                out.steps.push(Step::Ok(
                    o,
                    pr.calls_main.load(Ordering::SeqCst) > cm,
                    pr.calls_sus.load(Ordering::SeqCst) > cs,
                    handed,
                    pr.last_rate.lock().unwrap().take(),
                ));
            }
            Err(e) => {
                let k = match e {
                    TraversalModelError::UnitsFailure { .. } => "units",
                    TraversalModelError::TraversalModelFailure(_) => "failure",
                    TraversalModelError::StateError { .. } => "state",
                    TraversalModelError::CacheFailure { .. } => "cache",
                    _ => "other",
                };
                parts.push(format!("err {}", k));
                out.steps.push(Step::Err(k));
                state = before;
                break;
            }
        }
    }
    if let Some(vehicle) = &vehicle {
        let dist = (Distance::new(sp.bcd), sp.sdu);
        match vehicle.best_case_energy(dist) {
            Ok((e, u)) => {
                parts.push(format!("bc {} {}", fbits(e.as_f64()), u));
                out.bc = Some((e.as_f64(), u));
            }
            Err(_) => parts.push("bc err".to_string()),
        }
        let mut st2 = state.clone();
        match vehicle.best_case_energy_state(dist, &mut st2, &sm) {
            Ok(()) => {
                out.bcs = read_state(sp, &sm, &st2);
                parts.push(format!("bcs {}", show(sp, &out.bcs)));
            }
            Err(_) => parts.push("bcs err".to_string()),
        }
    }
    let (src, dst) = od_vertices(sp);
    let mut st3 = state.clone();
    match model.estimate_traversal((&src, &dst), &mut st3, &sm) {
        Ok(()) => {
            let o = read_state(sp, &sm, &st3);
            parts.push(format!("est ok {}", show(sp, &o)));
            out.est = Some(o);
        }
        Err(e) => {
            let k = match e {
                TraversalModelError::UnitsFailure { .. } => "units",
                TraversalModelError::TraversalModelFailure(_) => "failure",
                _ => "other",
            };
            parts.push(format!("est err {}", k));
        }
    }
    (parts.join(" | "), out)
}

fn conv_e(from: &EnergyUnit, to: &EnergyUnit, x: f64) -> f64 {
    from.convert(&Energy::new(x), to).as_f64()
}

fn same_e(a: &EnergyUnit, b: &EnergyUnit) -> bool {
    a == b
}

/// the stub's rate at the edge's own speed (speed table entry) and grade (grade table entry), with the
/// sum of the absolute values of its terms (for a sound tolerance), both times adjustment x length in
/// the rate's distance unit: energy in the rate's energy unit
fn expected_energy(sp: &Spec, r: &RecSpec, id: usize, d_m: f64) -> (f64, f64) {
    let s = sp.speeds[id] * si_s(&sp.esu) / si_s(&r.su);
    let g = match &sp.grades {
        None => 0.0,
        Some(gt) => gt[id] * si_g(&sp.ggu) / si_g(&r.gu),
    };
    let dist = d_m / si_d(&r.ru.associated_distance_unit());
    let rate = r.a0 + r.a1 * s + r.a2 * g;
    let abs = r.a0.abs() + (r.a1 * s).abs() + (r.a2 * g).abs();
    (rate * r.adj * dist, abs * r.adj.abs() * dist)
}

/// collected oracle failures (key, message)
struct Fails(Vec<(String, String)>);

impl Fails {
    fn fail(&mut self, _idx: usize, key: &str, msg: String) {
        self.0.push((key.to_string(), msg));
    }
}

/// `twin`: for a configured case, the outcome of the same case constructed in-process around the same
/// model files with recording predictors (which edges called the predictor, and the rate it returned)
///
/// `unc`: for a case with a prediction cache, the outcome of the same case run with the cache switched off
/// (the predictor is then called on every edge, so the inputs it is handed on every edge are known)
fn oracle(ctx: &mut Ctx, idx: usize, sp: &Spec, oc: &Outcome, twin: Option<&Outcome>, unc: Option<&Outcome>) {
    let mut fails = Fails(vec![]);
    oracle_inner(&mut fails, idx, sp, oc, twin, unc);
    for (key, msg) in fails.0 {
        // a configured case reports a deviation under the configured value that is not in force
        let key = if sp.cfg.is_some() {
            match key.as_str() {
                "soc/step" | "soc/clamp" => "builder/battery-capacity",
                "soc/start" => "builder/starting-soc",
                "estimate/best-case" => "builder/ideal-rate",
                "edge_energy/definition" | "energy/additivity" => "builder/prediction-record",
                k => k,
            }
            .to_string()
        } else {
            key
        };
        ctx.fail(idx, &key, msg);
    }
}

/// the DOCUMENTED cache key ("the key is rounded to the specified precision"): every input times ten to its
/// precision, rounded to the nearest integer (halves away from zero) — computed here, not by the code under
/// test, so that a key function that merges more inputs than rounding does is not mistaken for the recorded
/// rounding trade-off
fn key_policy(r: &RecSpec) -> Option<Vec<i32>> {
    r.cache.as_ref().map(|(_, precs)| precs.clone())
}

fn documented_key(precs: &[i32], inputs: &[f64]) -> Vec<i64> {
    inputs.iter().zip(precs.iter()).map(|(v, p)| (v * 10f64.powi(*p)).round() as i64).collect()
}

fn oracle_inner(ctx: &mut Fails, idx: usize, sp: &Spec, oc: &Outcome, twin: Option<&Outcome>, unc: Option<&Outcome>) {
    let battery = sp.kind != Kind::Ice;
    let bad_len = |r: &RecSpec| r.cache.as_ref().map(|(_, p)| p.len() != 2).unwrap_or(false);
    if let Some(c) = &sp.cfg {
        // a float_cache_policy without one key_precisions entry per model input is a configuration error
        let any_bad = c.library.iter().any(|(_, v)| bad_len(&v.rec) || v.sustain.as_ref().map(bad_len).unwrap_or(false));
        if any_bad && !oc.engine_rejected {
            ctx.fail(idx, "predict/cache-key-length", "a vehicle with a float_cache_policy whose key_precisions does not have two entries was built from configuration".to_string());
            return;
        }
    }
    if sp.cfg.is_some() {
        let bad_speed = sp.speeds.iter().any(|x| x.is_nan() || *x < 0.0);
        let bad_grade = sp.grades.as_ref().map(|g| g.iter().any(|x| !x.is_finite())).unwrap_or(false);
        if (bad_speed || bad_grade) && !oc.engine_rejected {
            ctx.fail(idx, "builder/table-row-invalid", format!("a speed table with a NaN / negative row ({}) or a grade table with a row that is not finite ({}) was built", bad_speed, bad_grade));
            return;
        }
    }
    if let Some(c) = &sp.cfg {
        // a battery capacity that is not a finite positive number is a configuration error
        if let Some((id, v)) = c.library.iter().find(|(_, v)| v.kind != Kind::Ice && !(v.cap.is_finite() && v.cap > 0.0)) {
            if !oc.engine_rejected {
                ctx.fail(idx, "builder/battery-capacity-invalid", format!("vehicle v{} with battery_capacity {} {} was built from configuration; the vehicle named by the query starts with charge {:?} (as built) / {} (initial state)", id, v.cap, v.bunit, oc.built_soc, oc.init.soc));
                return;
            }
        }
    }
    if oc.engine_rejected {
        return;
    }
    if let Some(c) = &sp.cfg {
        if let Some(k) = c.malformed {
            ctx.fail(idx, "builder/accepts-malformed", format!("the unreadable configuration (variant {}) was built", k));
            return;
        }
    }
    // --- the query's model_name selects the vehicle; anything that names no configured vehicle is an error
    if let Some(c) = &sp.cfg {
        let valid = matches!(&c.name, NameQuery::Name(k) if c.library.iter().any(|(id, _)| id == k));
        if !valid {
            if !oc.rejected {
                ctx.fail(idx, "service/vehicle-selection", format!("model_name {:?} names no vehicle of the library {:?} but a model was built", c.name, c.library.iter().map(|(id, _)| *id).collect::<Vec<_>>()));
            }
            return;
        }
    }
    // --- a configured battery vehicle starts full
    if let Some(b) = oc.built_soc {
        if b != 100.0 {
            ctx.fail(idx, "builder/starting-soc", format!("the vehicle builder gives the vehicle an initial charge of {} percent (capacity {} {})", b, sp.cap, sp.bunit));
        }
    }
    // --- a query may not change the format of battery_state
    if battery {
        if let Some(f) = sp.soc_format {
            if !oc.rejected {
                ctx.fail(idx, "state_features/format-change", format!("the query's state_features replaced the floating-point battery_state by a {} feature and a model was built", f));
            }
            return;
        }
    }
    // --- rejection of the starting charge
    let q: Option<f64> = match &sp.query {
        Query::Num(x) => Some(*x),
        Query::Int(i) => Some(*i as f64),
        _ => None,
    };
    if battery {
        match (&sp.query, q) {
            (_, Some(x)) => {
                let inside = (0.0..=100.0).contains(&x);
                if inside && oc.rejected {
                    ctx.fail(idx, "update_from_query/rejects-in-range", format!("starting_soc_percent {} was rejected", x));
                }
                if !inside && !oc.rejected {
                    ctx.fail(idx, "update_from_query/accepts-out-of-range", format!("starting_soc_percent {} was accepted; initial charge {}", x, oc.init.soc));
                }
            }
            (Query::NonNum, _) => {
                if !oc.rejected {
                    ctx.fail(idx, "update_from_query/accepts-non-numeric", "a non-numeric starting_soc_percent was accepted".to_string());
                }
            }
            _ => {}
        }
    } else if oc.rejected {
        ctx.fail(idx, "update_from_query/ice-rejected", "an ICE query was rejected".to_string());
    }
    if oc.rejected {
        return;
    }
    // --- a starting charge given through `state_features` is not range-checked
    if let Some(y) = sp.soc_override {
        if !(0.0..=100.0).contains(&y) {
            ctx.fail(idx, "state_features/soc-unchecked", format!("the query's state_features set battery_state to {} and it was accepted; the route starts with charge {}", y, oc.init.soc));
        }
    }
    // --- the charge starts at the query's value
    if battery && sp.soc_override.is_none() {
        let want = match (&sp.query, q) {
            (_, Some(x)) => Some(x),
            (Query::Absent, _) if sp.kind == Kind::Bev => Some(100.0),
            _ => None,
        };
        if let Some(x) = want {
            if !((oc.init.soc - x).abs() <= 1e-9 * x.abs() + 1e-300) {
                ctx.fail(idx, "soc/start", format!("query starting_soc_percent {} but the initial state has {}", x, oc.init.soc));
            }
        }
    }
    // --- along the route
    let main_eu = sp.rec.ru.associated_energy_unit();
    let units_equal = same_e(&main_eu, &sp.feu) && same_e(&sp.feu, &sp.bunit);
    let mut prev = oc.init.clone();
    let mut sum_liq = (0.0f64, 0.0f64);
    let mut sum_el = (0.0f64, 0.0f64);
    let mut all_ok = true;
    // --- the cache must be transparent: what the predictor would be handed on every edge is known from the
    // run without cache (it depends on the time state only); the cache key of those inputs is the documented
    // one (`documented_key`: rounding), not the code's own `float_key_to_int_key`.  An edge all of whose same-key predecessors (same record) were handed
    // the same inputs must be charged the rate at its own inputs whether it is a hit or a miss; when a
    // predecessor with the same key was handed different inputs, the recorded finding
    // predict/cache-rounding-collision applies instead.
    let unc_inputs: Vec<Option<(f64, f64)>> = match unc {
        Some(u) => u.steps.iter().map(|s| match s { Step::Ok(_, _, _, h, _) => *h, Step::Err(_) => None }).collect(),
        None => vec![],
    };
    let policy_main = key_policy(&sp.rec);
    let policy_sus = sp.sustain.as_ref().and_then(key_policy);
    let mut used_main: Vec<bool> = vec![];
    let mut route_collision = false;
    let same_inputs = |a: (f64, f64), b: (f64, f64)| (a.0 - b.0).abs() <= 1e-9 * a.0.abs().max(b.0.abs()) && a.1 == b.1;
    for (i, step) in oc.steps.iter().enumerate() {
        let (id, d_m) = sp.edges[i];
        let (cur, mut called_main, mut called_sus, handed, mut rate) = match step {
            Step::Ok(o, a, b, h, r) => (o, *a, *b, *h, *r),
            Step::Err(_) => {
                all_ok = false;
                break;
            }
        };
        if sp.cfg.is_some() {
            // the configured model's predictor cannot be observed: take the calls and rates of the twin
            match twin.and_then(|t| t.steps.get(i)) {
                Some(Step::Ok(_, a, b, _, r)) => {
                    called_main = *a;
                    called_sus = *b;
                    rate = *r;
                }
                _ => {
                    ctx.fail(idx, "builder/in-process-twin", format!("edge #{} was traversed by the configured model but not by the model constructed in-process", i));
                    return;
                }
            }
        }
        // the speed and grade handed to the predictor are the edge's own (speed table / grade table entries)
        if let Some((hs, hg)) = handed {
            let want_s = sp.speeds[id] * si_s(&sp.esu) / si_s(&sp.tmsu);
            let want_g = sp.grades.as_ref().map(|g| g[id]).unwrap_or(0.0);
            if !((hs - want_s).abs() <= CHAIN_TOL * want_s.abs()) || hg != want_g {
                ctx.fail(idx, "traverse_edge/predictor-inputs", format!("edge #{} (id {}): the predictor was handed speed {} {} and grade {} but the tables say {} {} and {}", i, id, hs, sp.tmsu, hg, want_s, sp.tmsu, want_g));
            }
        }
        // which record the property says is used on this edge, and into which feature
        let (rec, electric, called) = match sp.kind {
            Kind::Ice => (&sp.rec, false, called_main),
            Kind::Bev => (&sp.rec, true, called_main),
            Kind::Phev => {
                if prev.soc > 0.0 {
                    (&sp.rec, true, called_main)
                } else {
                    (sp.sustain.as_ref().unwrap(), false, called_sus)
                }
            }
        };
        if bad_len(rec) {
            ctx.fail(idx, "predict/cache-key-length", format!("edge #{} was served by a record whose float_cache_policy has key_precisions {:?}: inputs are dropped from the cache key", i, rec.cache.as_ref().map(|(_, p)| p.clone())));
            return;
        }
        let is_main = std::ptr::eq(rec, &sp.rec);
        // could the cache hold, under this edge's key, a rate computed for different inputs?
        let collision_possible = if rec.cache.is_some() {
            let policy = if is_main { policy_main.as_ref() } else { policy_sus.as_ref() };
            match (policy, unc_inputs.get(i).copied().flatten()) {
                (Some(p), Some(mine)) => {
                    let my_key = documented_key(p, &[mine.0, mine.1]);
                    (0..i).any(|k| {
                        used_main[k] == is_main
                            && match unc_inputs.get(k).copied().flatten() {
                                Some(theirs) => documented_key(p, &[theirs.0, theirs.1]) == my_key && !same_inputs(mine, theirs),
                                None => true,
                            }
                    })
                }
                _ => true,
            }
        } else {
            false
        };
        route_collision |= collision_possible;
        used_main.push(is_main);
        let rec_eu = rec.ru.associated_energy_unit();
        let (fu, p_acc, c_acc) = if electric { (sp.feu, prev.electric, cur.electric) } else { (sp.flu, prev.liquid, cur.liquid) };
        let (e, eabs) = if rec.file.is_some() {
            // a model file: the rate is what the real model answered on this edge (unknown on a cache hit)
            match rate {
                Some(r) => {
                    let dist = d_m / si_d(&rec.ru.associated_distance_unit());
                    (r * rec.adj * dist, r.abs() * rec.adj.abs() * dist)
                }
                None => {
                    all_ok = false;
                    (f64::NAN, f64::NAN)
                }
            }
        } else {
            expected_energy(sp, rec, id, d_m)
        };
        let k = conv_e(&rec_eu, &fu, 1.0).abs();
        let e_f = conv_e(&rec_eu, &fu, e);
        let delta = c_acc - p_acc;
        let cancel = 16.0 * EPS * (p_acc.abs() + c_acc.abs());
        let tol = CHAIN_TOL * eabs * k + cancel + 1e-300;
        if e.is_nan() {
            // (a model file on a cache hit: the rate in force is not observable)
        } else if electric {
            sum_el = (sum_el.0 + e_f, sum_el.1 + eabs * k);
        } else {
            sum_liq = (sum_liq.0 + e_f, sum_liq.1 + eabs * k);
        }
        if !e.is_nan() && !((delta - e_f).abs() <= tol) {
            let key = if rec.cache.is_some() && !called && !collision_possible {
                "cache/not-transparent"
            } else if rec.cache.is_some() && !called {
                // the documented trade-off of a rounding cache: different inputs under one rounded key
                "predict/cache-rounding-collision"
            } else if sp.cfg.is_some() && (delta - e_f / rec.adj).abs() <= tol {
                "builder/real-world-adjustment"
            } else {
                "edge_energy/definition"
            };
            let note = if key == "cache/not-transparent" { " — a cache hit, and every earlier edge with this cache key was handed the same speed and grade" } else { "" };
            ctx.fail(idx, key, format!(
                "edge #{} (id {}, {} m, speed {} {}, grade {:?} {}): recorded energy {} {} but rate(speed,grade) x adjustment x length = {} {} (tolerance {}){}",
                i, id, d_m, sp.speeds[id], sp.esu, sp.grades.as_ref().map(|g| g[id]), sp.ggu, delta, fu, e_f, fu, tol, note));
        }
        // PHEV: only electricity with charge remaining, only liquid fuel when empty
        if sp.kind == Kind::Phev {
            let (other_prev, other_cur, other_fu, what) = if electric {
                (prev.liquid, cur.liquid, sp.flu, "liquid")
            } else {
                (prev.electric, cur.electric, sp.feu, "electric")
            };
            if other_cur != other_prev {
                let key = if electric {
                    "phev/liquid-used-with-charge"
                } else {
                    "phev/electric-used-when-empty"
                };
                ctx.fail(idx, key, format!("edge #{} entered with charge {}: {} energy went from {} to {} {}", i, prev.soc, what, other_prev, other_cur, other_fu));
            }
        }
        // battery state
        if battery {
            if !(cur.soc >= 0.0 && cur.soc <= 100.0) {
                ctx.fail(idx, "soc/out-of-bounds", format!("edge #{}: charge {} (capacity {} {})", i, cur.soc, sp.cap, sp.bunit));
            } else {
                let used_f = cur.electric - prev.electric;
                let used_b = conv_e(&sp.feu, &sp.bunit, used_f);
                let kb = conv_e(&sp.feu, &sp.bunit, 1.0).abs();
                let expect = prev.soc - 100.0 * used_b / sp.cap;
                // the energy table is not transitive (gasoline -> diesel -> kWh differs from gasoline -> kWh by 9 %):
                // when the feature unit is a third unit the recorded energy reaches the battery unit by another path
                let rel = if units_equal {
                    1e-9
                } else if same_e(&sp.feu, &main_eu) || same_e(&sp.feu, &sp.bunit) {
                    TABLE_TOL
                } else {
                    0.11
                };
                let tol = rel * (100.0 * used_b / sp.cap).abs()
                    + 100.0 / sp.cap * kb * (16.0 * EPS * (prev.electric.abs() + cur.electric.abs()))
                    + 256.0 * EPS * 100.0;
                if cur.soc > 0.0 && cur.soc < 100.0 {
                    if !((cur.soc - expect).abs() <= tol) {
                        ctx.fail(idx, "soc/step", format!("edge #{}: charge {} -> {} but -100 x {} {} / {} predicts {}", i, prev.soc, cur.soc, used_b, sp.bunit, sp.cap, expect));
                    }
                } else if cur.soc == 0.0 {
                    if !(expect <= tol) {
                        ctx.fail(idx, "soc/clamp", format!("edge #{}: charge {} -> 0 but the unclamped value is {}", i, prev.soc, expect));
                    }
                } else if !(expect >= 100.0 - tol) {
                    ctx.fail(idx, "soc/clamp", format!("edge #{}: charge {} -> 100 but the unclamped value is {}", i, prev.soc, expect));
                }
            }
        }
        prev = cur.clone();
    }
    // --- additivity over the whole route
    if all_ok && !oc.steps.is_empty() {
        let checks = [(oc.last.liquid, sum_liq, sp.flu, sp.kind != Kind::Bev, "energy_liquid"), (oc.last.electric, sum_el, sp.feu, sp.kind != Kind::Ice, "energy_electric")];
        for (got, (want, abs), fu, present, name) in checks.iter() {
            if !*present {
                continue;
            }
            let cached = sp.rec.cache.is_some() || sp.sustain.as_ref().map(|s| s.cache.is_some()).unwrap_or(false);
            if !((got - want).abs() <= CHAIN_TOL * abs + 1e-300) {
                let key = if cached && !route_collision {
                    "cache/not-transparent"
                } else if cached {
                    "predict/cache-rounding-collision"
                } else {
                    "energy/additivity"
                };
                ctx.fail(idx, key, format!("{} after {} edges is {} {} but the per-edge energies sum to {}", name, oc.steps.len(), got, fu, want));
            }
        }
    }
    // --- with the cache the route must end where it ends without the cache (unless keys collided)
    if let Some(u) = unc {
        if all_ok && !route_collision && u.steps.len() == oc.steps.len() && u.steps.iter().all(|s| matches!(s, Step::Ok(..))) {
            let pairs = [(oc.last.liquid, u.last.liquid, sum_liq.1, sp.flu, sp.kind != Kind::Bev, "energy_liquid"), (oc.last.electric, u.last.electric, sum_el.1, sp.feu, sp.kind != Kind::Ice, "energy_electric")];
            for (with, without, abs, fu, present, name) in pairs.iter() {
                if *present && !((with - without).abs() <= 1e-6 * abs + 1e-300) {
                    ctx.fail(idx, "cache/not-transparent", format!("{} after {} edges is {} {} with the prediction cache and {} {} without it (no two edges with the same cache key were handed different inputs)", name, oc.steps.len(), with, fu, without, fu));
                }
            }
        }
    }
    // --- best case
    if let Some((bc, bu)) = oc.bc {
        let r = &sp.rec;
        let want = r.ideal * (sp.bcd * si_d(&sp.sdu) / si_d(&r.ru.associated_distance_unit()));
        if !((bc - want).abs() <= 1e-3 * want.abs() + 1e-300) || bu != r.ru.associated_energy_unit() {
            ctx.fail(idx, "best_case/definition", format!("best case energy for {} {} is {} {} but ideal rate {} {} x distance = {}", sp.bcd, sp.sdu, bc, bu, r.ideal, r.ru, want));
        }
        // best_case_energy_state: the same energy goes into the vehicle's feature (and the battery)
        let (fu, p_acc, c_acc) = if sp.kind == Kind::Ice { (sp.flu, oc.last.liquid, oc.bcs.liquid) } else { (sp.feu, oc.last.electric, oc.bcs.electric) };
        let e_f = conv_e(&bu, &fu, bc);
        let delta = c_acc - p_acc;
        let tol = TABLE_TOL * e_f.abs() + 16.0 * EPS * (p_acc.abs() + c_acc.abs()) + 1e-300;
        let mixed = battery && !same_e(&bu, &sp.bunit);
        if !((delta - e_f).abs() <= tol) {
            let key = if mixed {
                "best_case_energy_state/unit-mix"
            } else {
                "best_case_energy_state/definition"
            };
            ctx.fail(idx, key, format!("best case energy {} {} over {} {}: feature went from {} to {} {} (expected +{})", bc, bu, sp.bcd, sp.sdu, p_acc, c_acc, fu, e_f));
        }
        if battery {
            let s = oc.bcs.soc;
            if !(s >= 0.0 && s <= 100.0) {
                ctx.fail(idx, "soc/out-of-bounds", format!("best_case_energy_state: charge {}", s));
            } else if s > 0.0 && s < 100.0 {
                let used_b = conv_e(&bu, &sp.bunit, bc);
                let expect = oc.last.soc - 100.0 * used_b / sp.cap;
                let tol = TABLE_TOL * (100.0 * used_b / sp.cap).abs() + 256.0 * EPS * 100.0;
                if !((s - expect).abs() <= tol) {
                    let key = if mixed { "best_case_energy_state/unit-mix" } else { "best_case_energy_state/soc" };
                    ctx.fail(idx, key, format!("best case energy {} {} with a {} {} battery: charge {} -> {} but -100 E / capacity predicts {}", bc, bu, sp.cap, sp.bunit, oc.last.soc, s, expect));
                }
            }
        }
    }
    // --- estimate_traversal: the energy that orders the search is the ideal rate x the great-circle distance
    if let Some(o) = &oc.est {
        let r = &sp.rec;
        let hm = haversine_m(sp).unwrap_or(0.0);
        let bu = r.ru.associated_energy_unit();
        let want = r.ideal * (hm / si_d(&r.ru.associated_distance_unit()));
        let (fu, p_acc, c_acc) = if sp.kind == Kind::Ice { (sp.flu, oc.last.liquid, o.liquid) } else { (sp.feu, oc.last.electric, o.electric) };
        let e_f = conv_e(&bu, &fu, want);
        let delta = c_acc - p_acc;
        let tol = 2.0 * TABLE_TOL * e_f.abs() + 16.0 * EPS * (p_acc.abs() + c_acc.abs()) + 1e-300;
        if !((delta - e_f).abs() <= tol) {
            let key = if battery && !same_e(&bu, &sp.bunit) { "best_case_energy_state/unit-mix" } else { "estimate/best-case" };
            ctx.fail(idx, key, format!("estimate over {} m: feature went from {} to {} {} but ideal rate {} {} x distance = {} {}", hm, p_acc, c_acc, fu, r.ideal, r.ru, e_f, fu));
        }
        // (a charge set out of range through state_features is reported under its own key)
        if battery && (oc.last.soc >= 0.0 && oc.last.soc <= 100.0) && !(o.soc >= 0.0 && o.soc <= 100.0) {
            ctx.fail(idx, "soc/out-of-bounds", format!("estimate_traversal: charge {}", o.soc));
        }
    }
}

// ---------------------------------------------------------------------------------------------
// generation

fn nominal_rate(ru: &EnergyRateUnit) -> f64 {
    match ru {
        EnergyRateUnit::GallonsGasolinePerMile => 0.035,
        EnergyRateUnit::GallonsDieselPerMile => 0.03,
        EnergyRateUnit::KilowattHoursPerMile => 0.28,
        EnergyRateUnit::KilowattHoursPerKilometer => 0.17,
        EnergyRateUnit::KilowattHoursPerMeter => 0.00017,
    }
}

fn gen_cache(rng: &mut Rng) -> Option<(usize, Vec<i32>)> {
    if rng.chance(1, 2) {
        return None;
    }
    // the size only bounds the cache: a huge one must cost nothing
    let size = if rng.chance(1, 20) { *rng.pick(&[usize::MAX, 4_000_000_000_000usize]) } else { *rng.pick(&[1usize, 2, 3, 8, 100]) };
    // a policy must have one precision per model input (speed, grade); other lengths are refused
    let precs: Vec<i32> = match rng.below(24) {
        0 => vec![],
        1 => vec![1],
        2 => vec![3, 3, 3],
        3..=6 => vec![0, 0],
        7..=10 => vec![2, 4],
        11..=14 => vec![8, 8],
        15..=17 => vec![-1, 2],
        18 => vec![*rng.pick(&[-10, 10]), *rng.pick(&[-10, 10])],
        _ => vec![rng.range(-2, 10) as i32, rng.range(-2, 10) as i32],
    };
    Some((size, precs))
}

fn gen_rec(rng: &mut Rng, electric: bool, any_unit: bool) -> RecSpec {
    let ru = if any_unit {
        *rng.pick(&ER)
    } else if electric {
        *rng.pick(&ER[2..5])
    } else {
        *rng.pick(&ER[0..2])
    };
    let su = *rng.pick(&S);
    let gu = *rng.pick(&G);
    let nominal = nominal_rate(&ru);
    let a0 = nominal * rng.uniform(0.4, 1.2);
    // per unit of speed in the model's unit: ~ +-0.5 % of nominal per km/h
    let a1 = nominal * rng.uniform(-0.003, 0.008) * (si_s(&su) / si_s(&SpeedUnit::KilometersPerHour));
    // per unit of grade in the model's unit: 8..30 x nominal per unit of rise over run: negative below ~ -5 %
    let a2 = nominal * rng.uniform(8.0, 30.0) * si_g(&gu);
    let ideal = nominal * rng.uniform(0.3, 1.0);
    let adj = if rng.chance(1, 4) { 1.0 } else { rng.uniform(1.0, 1.5) };
    RecSpec { su, gu, ru, a0, a1, a2, ideal, adj, cache: gen_cache(rng), file: None }
}

fn gen_query(rng: &mut Rng) -> Query {
    match rng.below(20) {
        0 => Query::Absent,
        1 => Query::NonNum,
        2 => Query::Num(*rng.pick(&[-0.0000001, -1.0, -50.0, 100.0000001, 101.0, 250.0, 1.0e9, -1.0e9])),
        3 => Query::Int(*rng.pick(&[-1i64, 101, 1000, -100])),
        4 => Query::Int(*rng.pick(&[0i64, 1, 50, 99, 100])),
        5 => Query::Num(*rng.pick(&[0.0, -0.0, 100.0, 1e-9, 99.999999999])),
        6 | 7 => Query::Num(rng.uniform(0.0, 5.0)),
        8 | 9 => Query::Num(rng.uniform(95.0, 100.0)),
        10 => Query::Num(rng.small_decimal(100, 1)),
        _ => Query::Num(rng.uniform(0.0, 100.0)),
    }
}

fn generate(rng: &mut Rng) -> Spec {
    let kind = *rng.pick(&[Kind::Ice, Kind::Bev, Kind::Bev, Kind::Phev, Kind::Phev]);
    let odd_units = rng.chance(1, 10);
    let rec = gen_rec(rng, kind != Kind::Ice, odd_units);
    let sustain = if kind == Kind::Phev { Some(gen_rec(rng, false, odd_units)) } else { None };
    let bunit = if rng.chance(1, 8) { *rng.pick(&E) } else if kind == Kind::Ice { rec.ru.associated_energy_unit() } else { EnergyUnit::KilowattHours };
    // network
    let n_ids = 1 + rng.below(40);
    let esu = *rng.pick(&S);
    let edu = *rng.pick(&D);
    let etu = *rng.pick(&T);
    let tmsu = if rng.chance(1, 6) { *rng.pick(&S) } else { esu };
    let ggu = *rng.pick(&G);
    let sdu = *rng.pick(&D);
    let profile = rng.below(5); // 0 mixed, 1 long uphill, 2 steep downhill, 3 flat, 4 mixed with repeats
    let mut speeds: Vec<f64> = (0..n_ids)
        .map(|_| {
            let kph = if rng.chance(1, 5) { *rng.pick(&[10.0, 30.0, 50.0, 80.0, 100.0, 120.0]) } else { rng.uniform(5.0, 130.0) };
            kph * si_s(&SpeedUnit::KilometersPerHour) / si_s(&esu)
        })
        .collect();
    let mut grades: Vec<f64> = (0..n_ids)
        .map(|_| {
            let dec = match profile {
                1 => rng.uniform(0.02, 0.15),
                2 => rng.uniform(-0.25, -0.06),
                3 => 0.0,
                _ => {
                    if rng.chance(1, 4) {
                        *rng.pick(&[-0.1, -0.05, 0.0, 0.05, 0.1])
                    } else {
                        rng.uniform(-0.15, 0.15)
                    }
                }
            };
            dec / si_g(&ggu)
        })
        .collect();
    // near-colliding speeds for the cache: a copy of an earlier entry, nudged
    if n_ids >= 2 && rng.chance(1, 3) {
        let a = rng.below(n_ids);
        let b = rng.below(n_ids);
        speeds[b] = speeds[a] * (1.0 + rng.uniform(-1e-3, 1e-3));
        if rng.chance(1, 2) {
            grades[b] = grades[a];
        }
    }
    // grades around the rounding boundaries of the cache key: several ids at ONE speed whose grades, in the
    // model's own unit and scaled by the grade precision, are -1.4, -0.6, -0.5, 0, 0.4, 0.5 … — a rounded key
    // keeps -1.4 / -0.6 / -0.5 (key -1) apart from 0 / 0.4 (key 0) and from 0.5 / 1.0 (key 1)
    let mut special: Vec<usize> = vec![];
    if let Some((_, precs)) = &rec.cache {
        if precs.len() == 2 && n_ids >= 3 && rng.chance(1, 2) {
            let p = precs[1];
            let a = rng.below(n_ids);
            special.push(a);
            let m = 2 + rng.below(4.min(n_ids - 1));
            for _ in 0..m {
                let b = rng.below(n_ids);
                speeds[b] = speeds[a];
                let t = *rng.pick(&[-1.4, -1.0, -0.6, -0.5, -0.4, 0.0, 0.0, 0.4, 0.5, 0.6, 1.0, -2.5, 2.5]);
                grades[b] = t / 10f64.powi(p) * si_g(&rec.gu) / si_g(&ggu);
                special.push(b);
            }
        }
    }
    // malformed: a non-positive speed, a short grade table
    if rng.chance(1, 40) {
        let a = rng.below(n_ids);
        speeds[a] = *rng.pick(&[0.0, -3.0]);
    }
    let grades = if rng.chance(1, 7) {
        None
    } else if rng.chance(1, 30) {
        grades.truncate(n_ids / 2);
        Some(grades)
    } else {
        Some(grades)
    };
    let n_edges = match rng.below(10) {
        0 => 1,
        1 => 2,
        2 => 60,
        _ => 1 + rng.below(60),
    };
    let long = profile == 1 || rng.chance(1, 4);
    let zero_len = rng.chance(1, 30);
    let mut edges: Vec<(usize, f64)> = (0..n_edges)
        .map(|_| {
            let id = if !special.is_empty() && rng.chance(1, 2) { *rng.pick(&special) } else if profile == 4 { rng.below(n_ids.min(3)) } else { rng.below(n_ids) };
            let d = if zero_len && rng.chance(1, 20) {
                0.0
            } else if long {
                rng.uniform(500.0, 20000.0)
            } else if rng.chance(1, 5) {
                *rng.pick(&[1.0, 10.0, 100.0, 250.0, 1000.0])
            } else {
                rng.uniform(1.0, 3000.0)
            };
            (id, d)
        })
        .collect();
    if rng.chance(1, 50) {
        // an edge id outside the speed table
        let k = rng.below(edges.len());
        edges[k].0 = n_ids + rng.below(3);
    }
    // capacity: relative to what the route needs, so that clamping at 0 and at 100 both happen often
    let mut need = 0.0;
    let tmp = Spec {
        kind, rec: rec.clone(), sustain: None, cap: 1.0, bunit, query: Query::Absent, tmsu, grades: grades.clone(), ggu, sdu,
        speeds: speeds.clone(), esu, edu, etu, ftu: etu, fdu: edu, flu: bunit, feu: bunit, edges: vec![], bcd: 0.0, od: ((0.0, 0.0), (0.0, 0.0)), state_features: false, soc_override: None, soc_format: None, cfg: None,
    };
    for (id, d) in &edges {
        if *id < n_ids && grades.as_ref().map(|g| *id < g.len()).unwrap_or(true) && speeds[*id] > 0.0 {
            need += expected_energy(&tmp, &rec, *id, *d).0;
        }
    }
    let need_b = conv_e(&rec.ru.associated_energy_unit(), &bunit, need).abs().max(1e-6);
    let cap = match rng.below(12) {
        0 => 1.0e-6,
        1 => 1.0e9,
        2 => need_b * 0.01,
        3 | 4 => need_b * rng.uniform(0.1, 0.9),
        5 | 6 => need_b * rng.uniform(1.0, 3.0),
        7 => need_b * 100.0,
        8 => *rng.pick(&[12.0, 60.0, 75.0, 100.0]),
        _ => 10f64.powf(rng.uniform(-3.0, 6.0)),
    };
    // feature units: the vehicle's own, or overridden (query `state_features`)
    let own_liquid = match kind {
        Kind::Phev => sustain.as_ref().unwrap().ru.associated_energy_unit(),
        _ => rec.ru.associated_energy_unit(),
    };
    let state_features = rng.chance(1, 4);
    let (ftu, fdu, flu, feu) = if state_features {
        (*rng.pick(&T), *rng.pick(&D), *rng.pick(&E), *rng.pick(&E))
    } else {
        (etu, edu, own_liquid, bunit)
    };
    let soc_override = if state_features && kind != Kind::Ice && rng.chance(1, 3) {
        Some(match rng.below(4) {
            0 => *rng.pick(&[250.0, 100.5, -5.0, -0.001, 1.0e6]),
            1 => *rng.pick(&[0.0, 100.0]),
            _ => rng.uniform(0.0, 100.0),
        })
    } else {
        None
    };
    let bcd = if rng.chance(1, 10) { 0.0 } else { rng.uniform(0.0, 30000.0) / si_d(&sdu) };
    let x0 = rng.uniform(-105.5, -104.5) as f32;
    let y0 = rng.uniform(39.2, 40.2) as f32;
    let od = if rng.chance(1, 12) {
        ((x0, y0), (x0, y0))
    } else {
        ((x0, y0), (x0 + rng.uniform(-0.2, 0.2) as f32, y0 + rng.uniform(-0.2, 0.2) as f32))
    };
    let soc_format = if state_features && kind != Kind::Ice && rng.chance(1, 10) { Some(*rng.pick(&["signed_integer", "unsigned_integer", "boolean"])) } else { None };
    Spec { kind, rec, sustain, cap, bunit, query: gen_query(rng), tmsu, grades, ggu, sdu, speeds, esu, edu, etu, ftu, fdu, flu, feu, edges, bcd, od, state_features, soc_override, soc_format, cfg: None }
}

fn plain_rec(ru: EnergyRateUnit, a0: f64, a1: f64, a2: f64, ideal: f64, cache: Option<(usize, Vec<i32>)>) -> RecSpec {
    RecSpec { su: SpeedUnit::MilesPerHour, gu: GradeUnit::Decimal, ru, a0, a1, a2, ideal, adj: 1.0, cache, file: None }
}

fn base_spec(kind: Kind, rec: RecSpec, sustain: Option<RecSpec>, cap: f64, bunit: EnergyUnit, query: Query) -> Spec {
    let flu = match (&kind, &sustain) {
        (Kind::Phev, Some(s)) => s.ru.associated_energy_unit(),
        _ => rec.ru.associated_energy_unit(),
    };
    Spec {
        kind, rec, sustain, cap, bunit, query,
        tmsu: SpeedUnit::MilesPerHour,
        grades: Some(vec![0.0, 0.05, -0.1]),
        ggu: GradeUnit::Decimal,
        sdu: DistanceUnit::Miles,
        speeds: vec![30.0, 30.4, 60.0],
        esu: SpeedUnit::MilesPerHour,
        edu: DistanceUnit::Miles,
        etu: TimeUnit::Hours,
        ftu: TimeUnit::Hours,
        fdu: DistanceUnit::Miles,
        flu,
        feu: bunit,
        edges: vec![(0, 1609.34), (1, 1609.34), (2, 1609.34)],
        bcd: 10.0,
        od: ((-105.0, 39.7), (-104.9, 39.75)),
        state_features: false,
        soc_override: None,
        soc_format: None,
        cfg: None,
    }
}

/// hand-written cases: witnesses of the recorded findings and boundary cases, always run first
fn corpus() -> Vec<Spec> {
    let kwh = EnergyRateUnit::KilowattHoursPerMile;
    let gas = EnergyRateUnit::GallonsGasolinePerMile;
    let mut v = vec![];
    // 0: plain BEV, 3 edges, no cache
    v.push(base_spec(Kind::Bev, plain_rec(kwh, 0.2, 0.001, 3.0, 0.2, None), None, 60.0, EnergyUnit::KilowattHours, Query::Num(50.0)));
    // 1: regression witness of the repaired best_case_energy_state/unit-mix — battery in gallons of gasoline, rate in kWh per mile
    v.push(base_spec(Kind::Bev, plain_rec(kwh, 0.2, 0.001, 3.0, 0.2, None), None, 2.0, EnergyUnit::GallonsGasoline, Query::Num(50.0)));
    // 2: regression witness of the repaired predict/cache-key-length — key_precisions = [2]: the grade is not part of the key, so the
    //    uphill edge 1 and the downhill edge 2 (same speed as edge 0 after the table below) reuse edge 0's rate
    let mut s = base_spec(Kind::Bev, plain_rec(kwh, 0.2, 0.001, 3.0, 0.2, Some((100, vec![2]))), None, 60.0, EnergyUnit::KilowattHours, Query::Num(50.0));
    s.speeds = vec![30.0, 30.0, 30.0];
    v.push(s);
    // 3: witness predict/cache-rounding-collision — key_precisions = [0, 0]: 30.0 and 30.4 mph share a key
    let mut s = base_spec(Kind::Ice, plain_rec(gas, 0.03, 0.001, 0.5, 0.02, Some((100, vec![0, 0]))), None, 1.0, EnergyUnit::GallonsGasoline, Query::Absent);
    s.grades = None;
    v.push(s);
    // 4: energy_electric kept in gallons of gasoline (drifted before /repo 7251c8c: add_energy converted the running total there and back)
    let mut s = base_spec(Kind::Bev, plain_rec(kwh, 0.2, 0.001, 3.0, 0.2, None), None, 60.0, EnergyUnit::KilowattHours, Query::Num(80.0));
    s.feu = EnergyUnit::GallonsGasoline;
    s.state_features = true;
    s.edges = vec![(0, 160934.0), (0, 1.0), (0, 1.0)];
    v.push(s);
    // 5: PHEV runs empty on the first edge and switches to liquid fuel
    let mut s = base_spec(Kind::Phev, plain_rec(kwh, 0.3, 0.0, 3.0, 0.2, None), Some(plain_rec(gas, 0.03, 0.0, 0.3, 0.02, None)), 0.5, EnergyUnit::KilowattHours, Query::Num(50.0));
    s.grades = Some(vec![0.0, 0.05, -0.2]);
    v.push(s);
    // 6: PHEV entered empty stays empty even downhill
    v.push(base_spec(Kind::Phev, plain_rec(kwh, 0.3, 0.0, 3.0, 0.2, None), Some(plain_rec(gas, 0.03, 0.0, 0.3, 0.02, None)), 12.0, EnergyUnit::KilowattHours, Query::Num(0.0)));
    // 7..: starting charge at and just outside the bounds
    for q in [Query::Num(-0.0000001), Query::Num(100.0000001), Query::Int(100), Query::Int(0), Query::Int(101), Query::NonNum, Query::Absent] {
        v.push(base_spec(Kind::Bev, plain_rec(kwh, 0.2, 0.001, 3.0, 0.2, None), None, 60.0, EnergyUnit::KilowattHours, q.clone()));
        v.push(base_spec(Kind::Phev, plain_rec(kwh, 0.3, 0.0, 3.0, 0.2, None), Some(plain_rec(gas, 0.03, 0.0, 0.3, 0.02, None)), 12.0, EnergyUnit::KilowattHours, q));
    }
    // witness state_features/soc-unchecked: the query sets the initial battery_state to 250 % through state_features
    let mut s = base_spec(Kind::Bev, plain_rec(kwh, 0.2, 0.001, 3.0, 0.2, None), None, 60.0, EnergyUnit::KilowattHours, Query::Num(50.0));
    s.state_features = true;
    s.soc_override = Some(250.0);
    v.push(s);
    // regeneration beyond 100 %
    let mut s = base_spec(Kind::Bev, plain_rec(kwh, 0.2, 0.001, 3.0, 0.2, None), None, 0.1, EnergyUnit::KilowattHours, Query::Num(99.0));
    s.edges = vec![(2, 5000.0), (2, 5000.0), (1, 100.0)];
    v.push(s);
    v
}

// ---------------------------------------------------------------------------------------------
// configured cases: model files, vehicle builders, EnergyModelBuilder, service.build(query)

const MODEL_DIR: &str = "/repo/rust/routee-compass-powertrain/src/routee/test";
const BUNDLED: [&str; 4] = [
    "Toyota_Camry.bin",
    "2017_CHEVROLET_Bolt.bin",
    "2016_CHEVROLET_Volt_Charge_Depleting.bin",
    "2016_CHEVROLET_Volt_Charge_Sustaining.bin",
];

/// a small random forest over (speed, grade) that goes negative on a steep downhill, written as a
/// smartcore model file (the only kind of file the vehicle builders can load without the onnx feature)
fn train_stub(seed: u64, k: usize, dir: &str) -> String {
    use smartcore::ensemble::random_forest_regressor::{RandomForestRegressor, RandomForestRegressorParameters};
    use smartcore::linalg::basic::matrix::DenseMatrix;
    let mut rng = Rng::for_case(seed, 808, k as u64);
    let n = 40 + rng.below(60);
    // inputs in whatever units the record will declare: speeds up to 140, grades from -300 (millis) to 300
    let gscale = *rng.pick(&[0.3, 30.0, 300.0]);
    let (a0, a1, a2) = (rng.uniform(0.1, 0.4), rng.uniform(-0.0005, 0.003), rng.uniform(1.0, 4.0) / gscale);
    let mut rows = vec![];
    let mut ys = vec![];
    for _ in 0..n {
        let sv = rng.uniform(0.0, 140.0);
        let gv = rng.uniform(-gscale, gscale);
        rows.push(vec![sv, gv]);
        ys.push(a0 + a1 * sv + a2 * gv);
    }
    let x = DenseMatrix::from_2d_vec(&rows);
    let params = RandomForestRegressorParameters::default()
        .with_n_trees(1 + k % 3)
        .with_max_depth(8)
        .with_min_samples_leaf(1)
        .with_min_samples_split(2)
        .with_m(2)
        .with_seed(seed ^ (k as u64 + 1));
    let rf: RandomForestRegressor<f64, f64, DenseMatrix<f64>, Vec<f64>> =
        RandomForestRegressor::fit(&x, &ys, params).expect("stub forest trains");
    std::fs::create_dir_all(dir).expect("stub dir");
    let path = format!("{}/stub_{}_{}.bin", dir, std::process::id(), k);
    std::fs::write(&path, bincode::serialize(&rf).expect("stub serialises")).expect("stub written");
    path
}

/// the real model's answers on the sweep `find_min_energy_rate` performs (20..79 mph, zero grade)
fn sweep_of(path: &str, su: SpeedUnit, gu: GradeUnit, ru: EnergyRateUnit, memo: &mut HashMap<String, Vec<f64>>) -> Vec<f64> {
    let key = format!("{} {} {}", path, su, gu);
    if let Some(v) = memo.get(&key) {
        return v.clone();
    }
    use routee_compass_powertrain::routee::prediction::smartcore::smartcore_speed_grade_model::SmartcoreSpeedGradeModel;
    let m = SmartcoreSpeedGradeModel::new(&path.to_string(), su, gu, ru).expect("model file loads");
    let v: Vec<f64> = (20..80)
        .map(|i| m.predict((Speed::new(i as f64), SpeedUnit::MilesPerHour), (Grade::new(0.0), GradeUnit::Percent)).expect("sweep").0.as_f64())
        .collect();
    memo.insert(key, v.clone());
    v
}

fn gen_file_rec(rng: &mut Rng, electric: bool, models: &[String], memo: &mut HashMap<String, Vec<f64>>) -> RecSpec {
    let ru = if rng.chance(1, 12) { *rng.pick(&ER) } else if electric { *rng.pick(&ER[2..5]) } else { *rng.pick(&ER[0..2]) };
    let su = *rng.pick(&S);
    let gu = *rng.pick(&G);
    let path = rng.pick(models).clone();
    let sweep = sweep_of(&path, su, gu, ru, memo);
    let min = sweep.iter().cloned().fold(f64::MAX, |m, r| if r < m { r } else { m });
    let ideal_cfg = if rng.chance(2, 3) { Some(min.abs().max(0.01) * rng.uniform(0.3, 1.0)) } else { None };
    let adj_cfg = if rng.chance(2, 3) { Some(if rng.chance(1, 4) { 1.0 } else { rng.uniform(1.0, 1.5) }) } else { None };
    let adj_cfg = if rng.chance(1, 25) { Some(*rng.pick(&[0.0, -1.0])) } else { adj_cfg };
    let ideal_cfg = if rng.chance(1, 25) { Some(*rng.pick(&[0.0, -0.1])) } else { ideal_cfg };
    let cache = if rng.chance(1, 2) { None } else { gen_cache(rng) };
    RecSpec {
        su,
        gu,
        ru,
        // (only used to size the battery relative to the route)
        a0: min.abs().max(0.01),
        a1: 0.0,
        a2: 0.0,
        ideal: ideal_cfg.unwrap_or(min),
        adj: adj_cfg.unwrap_or(1.0),
        cache,
        file: Some(FileRec { path, ideal_cfg, adj_cfg, table: vec![], sweep }),
    }
}

fn gen_vehicle(rng: &mut Rng, models: &[String], memo: &mut HashMap<String, Vec<f64>>, route_miles: f64) -> VehSpec {
    let kind = *rng.pick(&[Kind::Ice, Kind::Bev, Kind::Bev, Kind::Phev, Kind::Phev]);
    let rec = gen_file_rec(rng, kind != Kind::Ice, models, memo);
    let sustain = if kind == Kind::Phev { Some(gen_file_rec(rng, false, models, memo)) } else { None };
    let bunit = if rng.chance(1, 8) { *rng.pick(&E) } else if kind == Kind::Ice { rec.ru.associated_energy_unit() } else { EnergyUnit::KilowattHours };
    let need_b = conv_e(&rec.ru.associated_energy_unit(), &bunit, rec.a0 * route_miles * si_d(&DistanceUnit::Miles) / si_d(&rec.ru.associated_distance_unit())).abs().max(1e-6);
    let cap = match rng.below(10) {
        0 => 1.0e-6,
        1 => 1.0e9,
        2 => need_b * 0.01,
        3 | 4 => need_b * rng.uniform(0.1, 0.9),
        5 | 6 => need_b * rng.uniform(1.0, 3.0),
        7 => *rng.pick(&[12.0, 60.0, 75.0, 100.0]),
        _ => 10f64.powf(rng.uniform(-3.0, 6.0)),
    };
    // a battery capacity that is not a positive number: the builders must refuse it (zero makes the
    // charge NaN, a negative capacity turns consumption into charging)
    let cap = if kind != Kind::Ice && rng.chance(1, 16) { *rng.pick(&[0.0, -0.0, -5.0, -1.0e-6]) } else { cap };
    VehSpec { kind, rec, sustain, cap, bunit }
}

fn generate_cfg(rng: &mut Rng, models: &[String], memo: &mut HashMap<String, Vec<f64>>) -> Spec {
    let mut sp = generate(rng);
    // the time model's `speed_unit` entry is both the engine's unit and the service's
    sp.tmsu = sp.esu;
    let route_miles: f64 = sp.edges.iter().map(|(_, d)| d / 1609.344).sum();
    let n = 1 + rng.below(3);
    let mut library: Vec<(usize, VehSpec)> = (0..n).map(|k| (k, gen_vehicle(rng, models, memo, route_miles))).collect();
    if n >= 2 && rng.chance(1, 12) {
        // two vehicles of the same name: the later one replaces the earlier one in the library
        library[n - 1].0 = library[0].0;
    }
    let name = match rng.below(30) {
        0 => NameQuery::Absent,
        1 => NameQuery::NonString,
        2 | 3 => NameQuery::Name(n + rng.below(3)),
        _ => NameQuery::Name(library[rng.below(n)].0),
    };
    // the vehicle in force: the last one of that name
    let chosen = match &name {
        NameQuery::Name(k) => library.iter().rev().find(|(id, _)| id == k).map(|(_, v)| v.clone()),
        _ => None,
    }
    .unwrap_or_else(|| library[0].1.clone());
    sp.kind = chosen.kind;
    sp.rec = chosen.rec;
    sp.sustain = chosen.sustain;
    sp.cap = chosen.cap;
    sp.bunit = chosen.bunit;
    // defaults in force when the configuration leaves a unit out
    let omit_edu = rng.chance(1, 3);
    let omit_etu = rng.chance(1, 3);
    let omit_sdu = rng.chance(1, 3);
    if omit_edu {
        sp.edu = DistanceUnit::Meters;
    }
    if omit_etu {
        sp.etu = TimeUnit::Seconds;
    }
    if omit_sdu {
        sp.sdu = DistanceUnit::Meters;
    }
    if !sp.state_features {
        sp.ftu = sp.etu;
        sp.fdu = sp.edu;
        sp.flu = match sp.kind {
            Kind::Phev => sp.sustain.as_ref().unwrap().ru.associated_energy_unit(),
            _ => sp.rec.ru.associated_energy_unit(),
        };
        sp.feu = sp.bunit;
    }
    if sp.kind == Kind::Ice {
        sp.soc_override = None;
        sp.soc_format = None;
    } else if sp.state_features && sp.soc_format.is_none() && rng.chance(1, 10) {
        sp.soc_format = Some(*rng.pick(&["signed_integer", "unsigned_integer", "boolean"]));
    }
    // rows the file readers must refuse (NaN and negative speeds, grades that are not finite) and an
    // infinite speed, which is accepted (edge time 0)
    if rng.chance(1, 10) {
        let k = rng.below(sp.speeds.len());
        sp.speeds[k] = *rng.pick(&[f64::NAN, f64::INFINITY, f64::INFINITY, f64::NEG_INFINITY]);
    }
    if rng.chance(1, 12) {
        if let Some(g) = sp.grades.as_mut() {
            if !g.is_empty() {
                let k = rng.below(g.len());
                g[k] = *rng.pick(&[f64::NAN, f64::INFINITY, f64::NEG_INFINITY]);
            }
        }
    }
    sp.cfg = Some(CfgSpec { library, name, omit_edu, omit_etu, omit_sdu, bad_coord: rng.chance(1, 20), malformed: if rng.chance(1, 14) { Some(rng.below(16)) } else { None } });
    sp
}

fn dedup_table(log: &[(f64, f64, f64)]) -> Vec<(f64, f64, f64)> {
    let mut out: Vec<(f64, f64, f64)> = vec![];
    for (s, g, r) in log {
        if !out.iter().any(|(a, b, _)| a.to_bits() == s.to_bits() && b.to_bits() == g.to_bits()) {
            out.push((*s, *g, *r));
        }
    }
    out
}

/// the outcome line without what only the in-process construction can report
fn strip_direct(line: &str) -> String {
    line.split(" | ").filter(|p| !p.starts_with("bc ") && !p.starts_with("bcs ")).collect::<Vec<_>>().join(" | ")
}

fn run_headings(ctx: &mut Ctx, n: usize) {
    use routee_compass_core::model::access::default::turn_delays::edge_heading::EdgeHeading;
    use routee_compass_core::model::network::edge_id::EdgeId;
    use routee_compass_powertrain::routee::energy_model_ops::get_headings;
    for k in 0..n {
        let Some(idx) = ctx.begin() else { continue };
        let mut rng = Rng::for_case(ctx.seed, 8008, k as u64);
        let len = rng.below(6);
        let rows: Vec<(i16, i16)> = (0..len).map(|_| (rng.range(0, 359) as i16, rng.range(0, 359) as i16)).collect();
        let id = rng.below(len + 2);
        let table: Vec<EdgeHeading> = rows.iter().map(|(a, d)| EdgeHeading::new(*a, *d)).collect();
        let mut line = format!("hd {}", rows.len());
        for (a, d) in &rows {
            line.push_str(&format!(" {} {}", a, d));
        }
        line.push_str(&format!(" {}", id));
        let out = match get_headings(&table, EdgeId(id)) {
            Ok(h) => {
                if id >= rows.len() || (h.start_heading(), h.end_heading()) != rows[id] {
                    ctx.fail(idx, "get_headings/row", format!("row {} of {:?} gave ({}, {})", id, rows, h.start_heading(), h.end_heading()));
                }
                format!("ok {} {}", h.start_heading(), h.end_heading())
            }
            Err(_) => {
                if id < rows.len() {
                    ctx.fail(idx, "get_headings/row", format!("row {} of {:?} was not found", id, rows));
                }
                "err failure".to_string()
            }
        };
        ctx.emit(idx, line, out);
        ctx.count("get_headings");
    }
}

fn count_outcome(ctx: &mut Ctx, sp: &Spec, oc: &Outcome, line: &str) {
    ctx.count(match sp.kind { Kind::Ice => "vehicle_ice", Kind::Bev => "vehicle_bev", Kind::Phev => "vehicle_phev" });
    if oc.engine_rejected {
        ctx.count("engine_rejected");
    } else if oc.rejected {
        ctx.count("query_rejected");
    } else {
        let okn = oc.steps.iter().filter(|s| matches!(s, Step::Ok(..))).count();
        ctx.count_n("edges_traversed", okn as u64);
        if sp.rec.cache.is_some() { ctx.count("with_cache"); } else { ctx.count("without_cache"); }
        for s in oc.steps.iter() {
            match s {
                Step::Ok(o, cm, cs, _, _) => {
                    if sp.kind != Kind::Ice {
                        if o.soc == 0.0 { ctx.count("soc_clamped_at_0"); }
                        else if o.soc == 100.0 { ctx.count("soc_at_100"); }
                        else { ctx.count("soc_unclamped"); }
                    }
                    if sp.cfg.is_none() {
                        if !cm && !cs { ctx.count("cache_hit"); }
                        if *cs { ctx.count("phev_liquid_edge"); }
                    }
                }
                Step::Err(k) => ctx.count(&format!("edge_error_{}", k)),
            }
        }
        if sp.ftu != sp.etu || sp.fdu != sp.edu { ctx.count("feature_unit_overridden"); }
        if sp.soc_override.is_some() { ctx.count("soc_set_through_state_features"); }
        if format!("{}", sp.tmsu) != format!("{}", sp.esu) { ctx.count("time_model_speed_unit_differs"); }
        if okn >= 2 { ctx.nontrivial(line); }
    }
}

pub fn run(ctx: &mut Ctx) -> &'static str {
    let mut specs = corpus();
    let n = ctx.n(6000, 150000);
    let n_cfg = ctx.n(900, 12000);
    let n_corpus = specs.len();
    for k in 0..n {
        // the generator is a pure function of (seed, case index)
        let mut rng = Rng::for_case(ctx.seed, 8, (n_corpus + k) as u64);
        specs.push(generate(&mut rng));
    }
    for sp in specs.iter() {
        let Some(idx) = ctx.begin() else { continue };
        let line = case_line(sp);
        let r = std::panic::catch_unwind(std::panic::AssertUnwindSafe(|| execute(sp, &Probes::new())));
        match r {
            Err(_) => {
                ctx.emit(idx, line, "panic".to_string());
                ctx.fail(idx, "traverse/panic", "the implementation panicked".to_string());
                ctx.count("panic");
            }
            Ok((out, oc)) => {
                ctx.emit(idx, line.clone(), out);
                count_outcome(ctx, sp, &oc, &line);
                // the same case with the cache switched off
                let cached = sp.rec.cache.is_some() || sp.sustain.as_ref().map(|r| r.cache.is_some()).unwrap_or(false);
                let unc = if cached && !oc.rejected {
                    let mut nc = sp.clone();
                    nc.rec.cache = None;
                    if let Some(r) = nc.sustain.as_mut() {
                        r.cache = None;
                    }
                    std::panic::catch_unwind(std::panic::AssertUnwindSafe(|| execute(&nc, &Probes::new()).1)).ok()
                } else {
                    None
                };
                if unc.is_some() { ctx.count("rerun_without_cache"); }
                oracle(ctx, idx, sp, &oc, None, unc.as_ref());
            }
        }
    }
    // --- configured cases
    let dir = "work/C08_cfg";
    let mut models: Vec<String> = (0..6).map(|k| train_stub(ctx.seed, k, dir)).collect();
    let n_stub = models.len();
    let mut memo: HashMap<String, Vec<f64>> = HashMap::new();
    for k in 0..n_cfg {
        let Some(idx) = ctx.begin() else { continue };
        let mut rng = Rng::for_case(ctx.seed, 88, k as u64);
        // mostly the small trained forests (fast to load), sometimes the bundled vehicle models
        let pool: Vec<String> = if rng.chance(1, 8) { BUNDLED.iter().map(|m| format!("{}/{}", MODEL_DIR, m)).collect() } else { models[..n_stub].to_vec() };
        let sp0 = generate_cfg(&mut rng, &pool, &mut memo);
        let cfg = sp0.cfg.clone().unwrap();
        let r = std::panic::catch_unwind(std::panic::AssertUnwindSafe(|| {
            // the twin: the same case constructed in-process around the same model files, recording
            let pr = Probes::new();
            let (twin_out, twin) = execute(&sp0, &pr);
            let mut sp = sp0.clone();
            if let Some(f) = sp.rec.file.as_mut() {
                f.table = dedup_table(&pr.log_main.lock().unwrap());
            }
            if let Some(f) = sp.sustain.as_mut().and_then(|r| r.file.as_mut()) {
                f.table = dedup_table(&pr.log_sus.lock().unwrap());
            }
            let (out, oc) = execute_cfg(&sp, &cfg, idx);
            (sp, out, oc, twin_out, twin)
        }));
        match r {
            Err(_) => {
                ctx.emit(idx, case_line(&sp0), "panic".to_string());
                ctx.fail(idx, "builder/panic", "the implementation panicked".to_string());
                ctx.count("panic");
            }
            Ok((sp, out, oc, twin_out, twin)) => {
                let line = case_line(&sp);
                ctx.emit(idx, line.clone(), out.clone());
                ctx.count("configured_case");
                ctx.count(match &cfg.name {
                    NameQuery::Absent => "cfg_model_name_absent",
                    NameQuery::NonString => "cfg_model_name_not_a_string",
                    NameQuery::Name(k) if cfg.library.iter().any(|(id, _)| id == k) => "cfg_model_name_known",
                    NameQuery::Name(_) => "cfg_model_name_unknown",
                });
                ctx.count_n("cfg_vehicles_built", cfg.library.len() as u64);
                if sp.rec.file.as_ref().map(|f| f.path.starts_with(MODEL_DIR)).unwrap_or(false) { ctx.count("cfg_bundled_model"); }
                if sp.rec.file.as_ref().map(|f| f.ideal_cfg.is_none()).unwrap_or(false) { ctx.count("cfg_ideal_rate_swept"); }
                if sp.rec.file.as_ref().map(|f| f.adj_cfg.is_none()).unwrap_or(false) { ctx.count("cfg_adjustment_defaulted"); }
                if cfg.omit_edu || cfg.omit_etu || cfg.omit_sdu { ctx.count("cfg_unit_defaulted"); }
                if cfg.bad_coord { ctx.count("cfg_haversine_error"); }
                if let Some(k) = cfg.malformed { ctx.count(&format!("cfg_malformed_{:02}", k)); }
                count_outcome(ctx, &sp, &oc, &line);
                oracle(ctx, idx, &sp, &oc, Some(&twin), None);
                // the two constructions of the real code must agree (the speed file reader alone rejects
                // a negative speed, the in-process engine is a struct literal)
                let valid_name = matches!(&cfg.name, NameQuery::Name(k) if cfg.library.iter().any(|(id, _)| id == k));
                let bad_policy = cfg.library.iter().any(|(_, v)| {
                    let bad = |r: &RecSpec| r.cache.as_ref().map(|(_, p)| p.len() != 2).unwrap_or(false);
                    bad(&v.rec) || v.sustain.as_ref().map(bad).unwrap_or(false)
                });
                let bad_capacity = cfg.library.iter().any(|(_, v)| v.kind != Kind::Ice && !(v.cap.is_finite() && v.cap > 0.0));
                if bad_capacity { ctx.count("cfg_battery_capacity_not_positive"); }
                if bad_policy { ctx.count("cfg_cache_policy_wrong_length"); }
                let bad_policy = bad_policy || bad_capacity;
                if valid_name && cfg.malformed.is_none() && !bad_policy && !sp.speeds.iter().any(|x| *x < 0.0 || x.is_nan()) && !sp.grades.as_ref().map(|g| g.iter().any(|x| !x.is_finite())).unwrap_or(false) && strip_direct(&twin_out) != (if out.starts_with("built ") { out.splitn(2, " | ").nth(1).unwrap_or("") } else { out.as_str() }) {
                    ctx.fail(idx, "builder/in-process-twin", format!("the model built from configuration gives `{}` where the same vehicle constructed in-process gives `{}`", out.chars().take(300).collect::<String>(), strip_direct(&twin_out).chars().take(300).collect::<String>()));
                }
            }
        }
    }
    for m in models.drain(..) {
        let _ = std::fs::remove_file(m);
    }
    run_headings(ctx, 60);
    "real EnergyTraversalModel (via ::new and the real update_from_query; traverse_edge and estimate_traversal) over the real speed-table time model, real ICE/BEV/PHEV and PredictionModelRecord (with/without the real FloatCachePolicy) around an affine stub predictor, state model through the real collect_features/extend; plus configured cases built the way the application builds them: EnergyModelBuilder::build over a speed-table file, a grade file and VehicleBuilder (ice/bev/phev) over smartcore model files (small trained forests and the bundled vehicle models; the model's answers reach the Lean side as data), 1-3 vehicles per library, service.build(query) selecting by model_name (known, unknown, absent, not a string), ideal rate configured or swept, adjustment configured or defaulted, units configured or defaulted, cache configured or not; 1-60 edges, every unit of every configurable quantity (prediction model speed/grade/rate units, time model speed/distance/time units, service speed/grade/distance units, battery unit, state feature units via the query's state_features), capacities 1e-6..1e9 and relative to the route's need, starting charge inside/at/outside [0,100], absent, non-numeric and set through state_features, steep downhill, long uphill, missing table rows, non-positive speeds, zero-length edges, coordinates the haversine code rejects; get_headings rows; non-trivial = accepted query with at least two traversed edges; distinct by full case text"
}
