//! C07, second part: the functions and arms of the anchor files that the `api` / `ops` streams of
//! `c07.rs` do not reach (found by a line-coverage run), each with its own case stream:
//!
//! * `agg …`  — `CostAggregation::agg_iter` and `agg` called directly: empty / single / many components,
//!   zeros, negatives, infinities, NaN, `Err` items at every position (which `Err` is returned);
//! * `cost …` — `unit/cost.rs`: arithmetic (`+ - * / neg`, `Sum`), the order derived through `OrderedFloat`
//!   (`cmp`, `< <= > >= ==`, `max`, `min`, NaN, signed zeros, infinities), `ReverseCost`, `enforce_*`, every
//!   `From` conversion, `AsF64`, `Deref`/`DerefMut`, `Display`, serde in both directions;
//! * `et …`   — `EdgeTraversal::forward_traversal` / `reverse_traversal` with every error arm (unknown edge,
//!   edge whose end vertex is not in the graph, unknown neighbouring edge, failing access model, failing
//!   traversal model, failing cost model) and `Display for EdgeTraversal`;
//! * `ser …`  — `CostModel::serialize_cost` / `serialize_cost_info` (every rate variant, nested `Combined`,
//!   lookups with entries, state too short, features named `total_cost` / `cost_aggregation`) and the serde
//!   round trip of every rate;
//! * `cfg …`  — `CostModelBuilder::build` on configuration JSON and `CostModelService::build` on query JSON
//!   (valid and malformed: wrong types, missing fields, unknown variants, both serde forms of the tagged
//!   enums, unknown weights with and without the ignore flag, weights summing to zero), then the API;
//! * `ncb …`  — `NetworkCostRateBuilder::build` on CSV files written here (plain / gzip / truncated gzip /
//!   missing / empty / header only / missing column / undecodable cells / short rows / repeated keys /
//!   non-finite costs), the built rate probed on hits and misses.
use super::*;
use crate::jsonproto;
use routee_compass::app::compass::config::compass_configuration_error::CompassConfigurationError;
use routee_compass::app::compass::config::cost_model::cost_model_builder::CostModelBuilder;
use routee_compass_core::algorithm::search::search_error::SearchError;
use routee_compass_core::model::cost::cost_model_error::CostModelError;
use routee_compass_core::model::cost::network::network_cost_rate_builder::NetworkCostRateBuilder;
use routee_compass_core::model::unit::cost::ReverseCost;
use routee_compass_core::model::unit::Speed;
use serde_json::{json, Value};
use std::io::Write;

/// a double including the special values
fn fval(rng: &mut Rng) -> f64 {
    match rng.below(24) {
        0 => 0.0,
        1 => -0.0,
        2 => f64::INFINITY,
        3 => f64::NEG_INFINITY,
        4 => f64::NAN,
        5 => f64::MAX,
        6 => f64::MIN_POSITIVE,
        7 => 5e-324,
        8 => Cost::MIN_COST.as_f64(),
        9 => 1.0,
        _ => value(rng),
    }
}

/// a double on the input side of the protocol: always its bit pattern (`fbits` prints every NaN as `nan`)
fn ibits(x: f64) -> String {
    x.to_bits().to_string()
}

fn bit(b: bool) -> &'static str {
    if b {
        "1"
    } else {
        "0"
    }
}

fn ord(o: std::cmp::Ordering) -> &'static str {
    match o {
        std::cmp::Ordering::Less => "lt",
        std::cmp::Ordering::Equal => "eq",
        std::cmp::Ordering::Greater => "gt",
    }
}

/// protocol encoding of a JSON value produced by the implementation: numbers by their f64 bits only (the
/// model cannot print decimal text), entries of a `lookup` object (a HashMap in the code) sorted by edge id
fn enc_bits(v: &Value, out: &mut Vec<String>, sort_numeric: bool) {
    match v {
        Value::Null => out.push("z".into()),
        Value::Bool(true) => out.push("t".into()),
        Value::Bool(false) => out.push("f".into()),
        Value::Number(n) => {
            out.push("n".into());
            out.push("x".into());
            out.push(n.as_f64().map(|x| x.to_bits()).unwrap_or(0).to_string());
        }
        Value::String(s) => {
            out.push("s".into());
            out.push(jsonproto::hex(s));
        }
        Value::Array(xs) => {
            out.push("a".into());
            out.push(xs.len().to_string());
            for x in xs {
                enc_bits(x, out, false);
            }
        }
        Value::Object(m) => {
            out.push("o".into());
            out.push(m.len().to_string());
            let mut entries: Vec<(&String, &Value)> = m.iter().collect();
            if sort_numeric {
                entries.sort_by_key(|(k, _)| k.parse::<u64>().unwrap_or(u64::MAX));
            }
            for (k, x) in entries {
                out.push(jsonproto::hex(k));
                enc_bits(x, out, k == "lookup");
            }
        }
    }
}

fn enc_bits_str(v: &Value) -> String {
    let mut out = vec![];
    enc_bits(v, &mut out, false);
    out.join(" ")
}

// ------------------------------------------------------------------------------------------------
// agg
// ------------------------------------------------------------------------------------------------

fn agg_case(ctx: &mut Ctx, idx: usize, rng: &mut Rng, fixed: Option<(bool, Vec<Option<f64>>)>) {
    let (mul, items) = fixed.unwrap_or_else(|| {
        let mul = rng.chance(1, 2);
        let n = match rng.below(8) {
            0 => 0,
            1 => 1,
            _ => 1 + rng.below(6),
        };
        let err_rate = if rng.chance(1, 2) { 0 } else { 4 };
        let items = (0..n)
            .map(|_| {
                if err_rate > 0 && rng.chance(1, err_rate) {
                    None
                } else if rng.chance(1, 2) {
                    Some(fval(rng))
                } else {
                    Some(value(rng))
                }
            })
            .collect();
        (mul, items)
    });
    let names: Vec<String> = (0..items.len()).map(|k| format!("f{}", k)).collect();
    let agg = if mul { CostAggregation::Mul } else { CostAggregation::Sum };
    let mut line: Vec<String> = vec!["agg".into(), if mul { "mul".into() } else { "sum".into() }, items.len().to_string()];
    for it in &items {
        match it {
            Some(x) => {
                line.push("s".into());
                line.push(ibits(*x));
            }
            None => line.push("n".into()),
        }
    }
    let r = catch_unwind(AssertUnwindSafe(|| {
        let it = items.iter().enumerate().map(|(k, it)| match it {
            Some(x) => Ok((&names[k], Cost::new(*x))),
            None => Err(CostModelError::StateIndexOutOfBounds(k, names[k].clone())),
        });
        let r = agg.agg_iter(it);
        let slice = if items.iter().all(|x| x.is_some()) {
            let v: Vec<(&String, Cost)> = items.iter().enumerate().map(|(k, x)| (&names[k], Cost::new(x.unwrap()))).collect();
            Some(agg.agg(&v).as_f64())
        } else {
            None
        };
        (r, slice)
    }));
    ctx.count(if mul { "agg_mul_direct" } else { "agg_sum_direct" });
    match r {
        Err(_) => {
            ctx.emit(idx, line.join(" "), "panic".into());
            ctx.fail(idx, "cost_aggregation/panic", "agg_iter panicked".into());
        }
        Ok((r, slice)) => {
            let first_err = items.iter().position(|x| x.is_none());
            let rs = match &r {
                Ok(c) => fbits(c.as_f64()),
                Err(CostModelError::StateIndexOutOfBounds(k, _)) => format!("err {}", k),
                Err(_) => "err other".into(),
            };
            ctx.emit(idx, line.join(" "), format!("agg {} {}", rs, slice.map(fbits).unwrap_or("na".into())));
            // oracle: the first error wins; otherwise the plain sum / product in order, zero for no component
            match (&r, first_err) {
                (Err(CostModelError::StateIndexOutOfBounds(k, _)), Some(f)) if *k == f => ctx.count("agg_error_item"),
                (Ok(c), None) => {
                    let vals: Vec<f64> = items.iter().map(|x| x.unwrap()).collect();
                    let expect = if mul {
                        if vals.is_empty() {
                            0.0
                        } else {
                            vals.iter().fold(1.0, |a, b| a * b)
                        }
                    } else {
                        vals.iter().fold(0.0, |a, b| a + b)
                    };
                    let same = |x: f64, y: f64| x.to_bits() == y.to_bits() || (x.is_nan() && y.is_nan());
                    if !same(c.as_f64(), expect) {
                        ctx.fail(idx, "cost_aggregation/value", format!("agg_iter gave {} expected {}", c.as_f64(), expect));
                    }
                    if !same(slice.unwrap(), expect) {
                        ctx.fail(idx, "cost_aggregation/agg-differs-from-agg_iter", format!("agg gave {} agg_iter {}", slice.unwrap(), c.as_f64()));
                    }
                    if vals.is_empty() {
                        ctx.count("agg_empty");
                    }
                    if vals.iter().any(|x| !x.is_finite()) {
                        ctx.count("agg_nonfinite_component");
                    }
                    ctx.nontrivial(&line.join(" "));
                }
                _ => ctx.fail(idx, "cost_aggregation/wrong-error", format!("result {:?} but the first error item is {:?}", r.as_ref().map(|c| c.as_f64()).map_err(|e| e.to_string()), first_err)),
            }
        }
    }
}

// ------------------------------------------------------------------------------------------------
// cost
// ------------------------------------------------------------------------------------------------

fn parse_display(s: &str) -> Option<f64> {
    let inner = s.strip_prefix("InternalFloat(")?.strip_suffix(")")?;
    inner.parse::<f64>().ok()
}

fn cost_case(ctx: &mut Ctx, idx: usize, rng: &mut Rng, fixed: Option<(f64, f64)>) {
    let (a, b) = fixed.unwrap_or_else(|| {
        let a = fval(rng);
        let b = match rng.below(6) {
            0 => a,
            1 => -a,
            _ => fval(rng),
        };
        (a, b)
    });
    let k = fval(rng);
    let nx = rng.below(5);
    let xs: Vec<f64> = (0..nx).map(|_| fval(rng)).collect();
    let mut line: Vec<String> = vec!["cost".into(), ibits(a), ibits(b), ibits(k), xs.len().to_string()];
    line.extend(xs.iter().map(|x| ibits(*x)));
    let same = |x: f64, y: f64| x.to_bits() == y.to_bits() || (x.is_nan() && y.is_nan());
    let r = catch_unwind(AssertUnwindSafe(|| {
        let (ca, cb) = (Cost::new(a), Cost::new(b));
        let sum: Cost = xs.iter().map(|x| Cost::new(*x)).sum();
        let sum = if sum.as_f64() == 0.0 { 0.0 } else { sum.as_f64() };
        // every way in and out of a Cost is the identity on the double
        let mut rc = ReverseCost::from(ca);
        let through_deref = (*rc).0.as_f64();
        *rc = std::cmp::Reverse(ca);
        let conv = [
            Cost::from(a).as_f64(),
            f64::from(ca),
            Cost::from(Distance::new(a)).as_f64(),
            Cost::from(Time::new(a)).as_f64(),
            Cost::from(Energy::new(a)).as_f64(),
            Cost::from(Speed::new(a)).as_f64(),
            through_deref,
            (*rc).0.as_f64(),
        ];
        let shown = format!("{}", ca);
        let conv_tok = if !conv.iter().all(|x| same(*x, a)) {
            "conversion-differs".to_string()
        } else {
            match parse_display(&shown) {
                Some(x) if same(x, a) => fbits(a),
                _ => format!("display-bad:{}", shown.replace(' ', "_")),
            }
        };
        let ser = serde_json::to_value(ca);
        let ser_tok = match &ser {
            Ok(v) => enc_bits_str(v),
            Err(_) => "ser-err".into(),
        };
        let back: Option<Result<Cost, String>> = ser.ok().map(|v| serde_json::from_value::<Cost>(v).map_err(|e| e.to_string()));
        let toks = vec![
            "cost".to_string(),
            fbits((ca + cb).as_f64()),
            fbits((ca - cb).as_f64()),
            fbits((ca * k).as_f64()),
            fbits((ca / k).as_f64()),
            fbits((-ca).as_f64()),
            fbits(sum),
            ord(ca.cmp(&cb)).to_string(),
            bit(ca < cb).to_string(),
            bit(ca <= cb).to_string(),
            bit(ca > cb).to_string(),
            bit(ca >= cb).to_string(),
            bit(ca == cb).to_string(),
            fbits(ca.max(cb).as_f64()),
            fbits(ca.min(cb).as_f64()),
            ord(ReverseCost::from(ca).cmp(&ReverseCost::from(cb))).to_string(),
            fbits(Cost::enforce_strictly_positive(ca).as_f64()),
            fbits(Cost::enforce_non_negative(ca).as_f64()),
            fbits(Cost::enforce_strictly_positive(ca).as_f64()),
            fbits(Cost::enforce_non_negative(ca).as_f64()),
            conv_tok,
            ser_tok,
        ];
        (toks, ca.cmp(&cb), cb.cmp(&ca), ca.partial_cmp(&cb), back)
    }));
    ctx.count("cost_unit_case");
    match r {
        Err(_) => {
            ctx.emit(idx, line.join(" "), "panic".into());
            ctx.fail(idx, "cost_unit/panic", format!("an operation of unit/cost.rs panicked on {} {}", a, b));
        }
        Ok((toks, ab, ba, pab, back)) => {
            ctx.emit(idx, line.join(" "), toks.join(" "));
            ctx.nontrivial(&line.join(" "));
            // oracle: a total order that extends the order of the doubles, NaN on top
            if ab != ba.reverse() {
                ctx.fail(idx, "cost_unit/order-not-antisymmetric", format!("cmp({}, {}) = {:?} but cmp({}, {}) = {:?}", a, b, ab, b, a, ba));
            }
            if pab != Some(ab) {
                ctx.fail(idx, "cost_unit/partial-cmp-differs", format!("{} {}", a, b));
            }
            let expect = match (a.is_nan(), b.is_nan()) {
                (true, true) => std::cmp::Ordering::Equal,
                (true, false) => std::cmp::Ordering::Greater,
                (false, true) => std::cmp::Ordering::Less,
                _ => a.partial_cmp(&b).unwrap(),
            };
            if ab != expect {
                ctx.fail(idx, "cost_unit/order", format!("cmp({}, {}) = {:?} expected {:?}", a, b, ab, expect));
            }
            if a.is_nan() || b.is_nan() {
                ctx.count("cost_order_nan");
            }
            if a == 0.0 && b == 0.0 && a.to_bits() != b.to_bits() {
                ctx.count("cost_order_signed_zeros");
            }
            // the floor / clip on every finite value
            let sp = Cost::enforce_strictly_positive(Cost::new(a)).as_f64();
            let nn = Cost::enforce_non_negative(Cost::new(a)).as_f64();
            if !a.is_nan() && !(sp > 0.0) {
                ctx.fail(idx, "cost_unit/enforce-strictly-positive", format!("{} -> {}", a, sp));
            }
            if !a.is_nan() && !(nn >= 0.0) {
                ctx.fail(idx, "cost_unit/enforce-non-negative", format!("{} -> {}", a, nn));
            }
            if a.is_nan() {
                ctx.count("cost_enforce_nan_passes_through");
            }
            // serde: a finite cost survives the round trip, a non-finite one is written as null
            match back {
                Some(Ok(c)) => {
                    if !a.is_finite() || c.as_f64().to_bits() != a.to_bits() {
                        ctx.fail(idx, "cost_unit/serde-roundtrip", format!("{} came back as {}", a, c.as_f64()));
                    }
                }
                Some(Err(_)) => {
                    if a.is_finite() {
                        ctx.fail(idx, "cost_unit/serde-roundtrip", format!("{} does not deserialize from its own serialization", a));
                    } else {
                        ctx.count("cost_serde_nonfinite_null");
                    }
                }
                None => ctx.fail(idx, "cost_unit/serde-roundtrip", format!("{} does not serialize", a)),
            }
        }
    }
}

// ------------------------------------------------------------------------------------------------
// et: forward_traversal / reverse_traversal, every arm
// ------------------------------------------------------------------------------------------------

struct FallibleTraversal(Option<Vec<StateVar>>);
impl TraversalModel for FallibleTraversal {
    fn state_features(&self) -> Vec<(String, StateFeature)> {
        vec![]
    }
    fn traverse_edge(&self, _: (&Vertex, &Edge, &Vertex), state: &mut Vec<StateVar>, _: &StateModel) -> Result<(), TraversalModelError> {
        match &self.0 {
            Some(s) => {
                *state = s.clone();
                Ok(())
            }
            None => Err(TraversalModelError::TraversalModelFailure("scripted failure".into())),
        }
    }
    fn estimate_traversal(&self, _: (&Vertex, &Vertex), _: &mut Vec<StateVar>, _: &StateModel) -> Result<(), TraversalModelError> {
        Ok(())
    }
}

struct FallibleAccess(Option<Vec<StateVar>>);
impl AccessModel for FallibleAccess {
    fn state_features(&self) -> Vec<(String, StateFeature)> {
        vec![]
    }
    fn access_edge(&self, _: (&Vertex, &Edge, &Vertex, &Edge, &Vertex), state: &mut Vec<StateVar>, _: &StateModel) -> Result<(), AccessModelError> {
        match &self.0 {
            Some(s) => {
                *state = s.clone();
                Ok(())
            }
            None => Err(AccessModelError::RuntimeError { name: "scripted".into(), error: "scripted failure".into() }),
        }
    }
}

/// `edge <id> acost:<cost> tcost:<cost> state:[StateVar(x), …]` parsed back
fn parse_edge_traversal_display(s: &str) -> Option<(usize, f64, f64, Vec<f64>)> {
    let rest = s.strip_prefix("edge ")?;
    let (id, rest) = rest.split_once(" acost:")?;
    let (ac, rest) = rest.split_once(" tcost:")?;
    let (tc, st) = rest.split_once(" state:")?;
    let st = st.strip_prefix('[')?.strip_suffix(']')?;
    let mut state = vec![];
    if !st.is_empty() {
        for part in st.split(", ") {
            state.push(part.strip_prefix("StateVar(")?.strip_suffix(')')?.parse::<f64>().ok()?);
        }
    }
    Some((id.parse().ok()?, parse_display(ac)?, parse_display(tc)?, state))
}

fn et_case(ctx: &mut Ctx, idx: usize, rng: &mut Rng) {
    // a small cost model that always builds
    let n = 1 + rng.below(3);
    let feats: Vec<Feature> = (0..n)
        .map(|k| Feature {
            name: format!("f{}", k),
            weight: Some(if k == 0 { 1.0 + value(rng).abs() } else { value(rng).abs() }),
            vrate: Some(gen_vr(rng, 2)),
            nrate: if rng.chance(1, 2) { Some(gen_nr(rng, 2)) } else { None },
        })
        .collect();
    let mul = rng.chance(1, 4);
    // the graph: 5 edges; an edge may point at a vertex that does not exist
    let nv = 6;
    let mut edges: Vec<(usize, usize)> = (0..5).map(|k| (k, k + 1)).collect();
    let fault = rng.below(12);
    if fault == 0 {
        let k = rng.below(5);
        edges[k].0 = nv + rng.below(3);
    }
    if fault == 1 {
        let k = rng.below(5);
        edges[k].1 = nv + rng.below(3);
    }
    let edge_id = |rng: &mut Rng| if rng.chance(1, 8) { 5 + rng.below(3) } else { rng.below(5) };
    let trav = edge_id(rng);
    let nbr = if rng.chance(1, 4) { None } else { Some(edge_id(rng)) };
    let forward = rng.chance(1, 2);
    // a missing end vertex on the neighbouring edge: only one of its two ends is looked up
    if let Some(k) = nbr {
        if k < 5 && k != trav && (2..5).contains(&fault) {
            if rng.chance(1, 2) {
                edges[k].0 = nv + 1;
            } else {
                edges[k].1 = nv + 1;
            }
        }
    }
    // the turn surcharge depends on the order of the pair
    let mut feats = feats;
    if let Some(k) = nbr {
        let mut table = vec![((k, trav), 0.5 + value(rng).abs())];
        if k != trav {
            table.push(((trav, k), 100.0 + value(rng).abs()));
        }
        let turn = NR::Pair(table);
        feats[0].nrate = Some(match feats[0].nrate.take() {
            Some(r) if rng.chance(1, 2) => NR::Combined(vec![r, turn]),
            _ => turn,
        });
    }
    let state = |rng: &mut Rng, n: usize| -> Vec<f64> { (0..n).map(|_| value(rng).abs()).collect() };
    let prev = state(rng, n);
    let short = |rng: &mut Rng| if rng.chance(1, 10) { rng.below(n) } else { n };
    let access: Option<Vec<f64>> = if rng.chance(1, 8) { None } else { let k = short(rng); Some(state(rng, k)) };
    let traverse: Option<Vec<f64>> = if rng.chance(1, 8) { None } else { let k = short(rng); Some(state(rng, k)) };

    let mut line: Vec<String> = vec!["et".into(), if mul { "mul".into() } else { "sum".into() }, n.to_string()];
    for f in &feats {
        line.push("s".into());
        line.push(fbits(f.weight.unwrap()));
        line.push("s".into());
        f.vrate.as_ref().unwrap().enc(&mut line);
        match &f.nrate {
            Some(r) => {
                line.push("s".into());
                r.enc(&mut line);
            }
            None => line.push("n".into()),
        }
    }
    line.push(edges.len().to_string());
    for (s, d) in &edges {
        line.push(s.to_string());
        line.push(d.to_string());
    }
    line.push(nv.to_string());
    for st in [&access, &traverse] {
        match st {
            Some(v) => {
                line.push("s".into());
                line.push(v.len().to_string());
                line.extend(v.iter().map(|x| fbits(*x)));
            }
            None => line.push("n".into()),
        }
    }
    line.push(prev.len().to_string());
    line.extend(prev.iter().map(|x| fbits(*x)));
    line.push(bit(forward).into());
    line.push(trav.to_string());
    match nbr {
        Some(k) => {
            line.push("s".into());
            line.push(k.to_string());
        }
        None => line.push("n".into()),
    }

    let sv = |v: &Vec<f64>| -> Vec<StateVar> { v.iter().map(|x| StateVar(*x)).collect() };
    let r = catch_unwind(AssertUnwindSafe(|| {
        let sm = Arc::new(StateModel::new(feats.iter().enumerate().map(|(k, f)| (f.name.clone(), state_feature(k))).collect::<Vec<_>>()));
        let mut w = HashMap::new();
        let mut v = HashMap::new();
        let mut nr = HashMap::new();
        for f in &feats {
            w.insert(f.name.clone(), f.weight.unwrap());
            v.insert(f.name.clone(), f.vrate.as_ref().unwrap().real());
            if let Some(r) = &f.nrate {
                nr.insert(f.name.clone(), r.real());
            }
        }
        let agg = if mul { CostAggregation::Mul } else { CostAggregation::Sum };
        let cm = match CostModel::new(Arc::new(w), Arc::new(v), Arc::new(nr), agg, sm.clone()) {
            Ok(cm) => cm,
            Err(_) => return None,
        };
        let vertices: Vec<Vertex> = (0..nv).map(|k| Vertex::new(k, k as f32 * 0.001, 0.0)).collect();
        let es: Vec<Edge> = edges.iter().enumerate().map(|(k, (s, d))| Edge::new(k, *s, *d, 1.0)).collect();
        let adj: Vec<CompactOrderedHashMap<EdgeId, routee_compass_core::model::network::VertexId>> = (0..nv).map(|_| CompactOrderedHashMap::empty()).collect();
        let graph = Graph { adj: adj.clone().into_boxed_slice(), rev: adj.into_boxed_slice(), edges: es.into_boxed_slice(), vertices: vertices.into_boxed_slice() };
        let si = SearchInstance {
            directed_graph: Arc::new(graph),
            state_model: sm,
            traversal_model: Arc::new(FallibleTraversal(traverse.as_ref().map(sv))),
            access_model: Arc::new(FallibleAccess(access.as_ref().map(sv))),
            cost_model: Arc::new(cm),
            frontier_model: Arc::new(NoRestriction {}),
            termination_model: Arc::new(TerminationModel::IterationsLimit { limit: 10 }),
        };
        let p = sv(&prev);
        let r = if forward {
            EdgeTraversal::forward_traversal(EdgeId(trav), nbr.map(EdgeId), &p, &si)
        } else {
            EdgeTraversal::reverse_traversal(EdgeId(trav), nbr.map(EdgeId), &p, &si)
        };
        Some(r.map(|et| {
            let shown = format!("{}", et);
            // what traversal_cost charges for this edge on the state the traversal model left
            let charged = si
                .directed_graph
                .get_edge(&EdgeId(trav))
                .ok()
                .and_then(|e| si.cost_model.traversal_cost(e, &p, &et.result_state).ok())
                .map(|c| c.as_f64())
                .unwrap_or(f64::NAN);
            (et.edge_id.0, et.access_cost.as_f64(), et.traversal_cost.as_f64(), et.total_cost().as_f64(), et.result_state.iter().map(|x| x.0).collect::<Vec<f64>>(), shown, charged)
        }))
    }));
    ctx.count(if forward { "et_forward" } else { "et_reverse" });
    let out = match &r {
        Err(_) => "panic".to_string(),
        Ok(None) => "new-err".to_string(),
        Ok(Some(Err(e))) => format!(
            "err {}",
            match e {
                SearchError::NetworkFailure { .. } => "network",
                SearchError::AccessModelFailure { .. } => "access",
                SearchError::TraversalModelFailure { .. } => "traversal",
                SearchError::CostFailure { .. } => "cost",
                _ => "other",
            }
        ),
        Ok(Some(Ok((id, a, s, t, state, shown, _)))) => {
            let same = |x: f64, y: f64| x.to_bits() == y.to_bits() || (x.is_nan() && y.is_nan());
            let disp = match parse_edge_traversal_display(shown) {
                Some((pid, pa, ps, pst)) if pid == *id && same(pa, *a) && same(ps, *s) && pst.len() == state.len() && pst.iter().zip(state.iter()).all(|(x, y)| same(*x, *y)) => "display-ok".to_string(),
                _ => format!("display-bad:{}", shown.replace(' ', "_")),
            };
            format!("ok {} {} {} {}", fbits(*a), fbits(*s), fbits(*t), disp)
        }
    };
    ctx.emit(idx, line.join(" "), out.clone());
    ctx.count(&format!("et_outcome_{}", if out.starts_with("ok") { "ok".to_string() } else { out.replace(' ', "_") }));
    ctx.nontrivial(&line.join(" "));
    // oracle (independent of the model): which outcome the inputs prescribe
    if let Ok(Some(res)) = &r {
        let exists = |e: usize| e < edges.len();
        let vertex_ok = |v: usize| v < nv;
        let triplet_ok = exists(trav) && vertex_ok(edges[trav].0) && vertex_ok(edges[trav].1);
        let expected: &str = if !triplet_ok {
            "network"
        } else if nbr.map(|k| !exists(k) || !vertex_ok(if forward { edges[k].0 } else { edges[k].1 })).unwrap_or(false) {
            "network"
        } else if nbr.is_some() && access.is_none() {
            "access"
        } else if nbr.is_some() && access.as_ref().unwrap().len() < n {
            "cost"
        } else if traverse.is_none() {
            "traversal"
        } else if traverse.as_ref().unwrap().len() < n {
            "cost"
        } else {
            "ok"
        };
        let got = match res {
            Ok(_) => "ok",
            Err(SearchError::NetworkFailure { .. }) => "network",
            Err(SearchError::AccessModelFailure { .. }) => "access",
            Err(SearchError::TraversalModelFailure { .. }) => "traversal",
            Err(SearchError::CostFailure { .. }) => "cost",
            Err(_) => "other",
        };
        if got != expected {
            ctx.fail(idx, "edge_traversal/outcome", format!("{} traversal of edge {} with neighbour {:?}: {} expected {}", if forward { "forward" } else { "reverse" }, trav, nbr, got, expected));
        }
        if let Ok((_, a, _, t, state, _, charged)) = res {
            if *t == 0.0 && *charged > 0.0 && *charged <= a * f64::EPSILON {
                // the recorded rounding finding: the charged total is below one ulp of the access share
                ctx.fail(idx, "edge_traversal/floor-absorbed", format!("access {} + (total {} - access) = {}", a, charged, t));
            } else if !(t.is_finite() && *t > 0.0) {
                ctx.fail(idx, "edge_traversal/total-not-positive", format!("total_cost() = {} (access {}, charged {})", t, a, charged));
            } else if (t - charged).abs() > REL * (a.abs() + charged.abs()) {
                ctx.fail(idx, "edge_traversal/total-differs", format!("total_cost() = {} but traversal_cost charged {} (access {})", t, charged, a));
            }
            if state.len() != traverse.as_ref().map(|s| s.len()).unwrap_or(usize::MAX) {
                ctx.fail(idx, "edge_traversal/result-state", "result_state is not what the traversal model left".into());
            }
        }
    } else if r.is_err() {
        ctx.fail(idx, "edge_traversal/panic", "forward_traversal / reverse_traversal panicked".into());
    }
}

// ------------------------------------------------------------------------------------------------
// ser: serialize_cost / serialize_cost_info, serde round trip of the rates
// ------------------------------------------------------------------------------------------------

fn sort_nr(r: &mut NR) {
    match r {
        NR::Edge(t) => t.sort_by_key(|p| p.0),
        NR::Pair(t) => t.sort_by_key(|p| p.0),
        NR::Combined(rs) => rs.iter_mut().for_each(sort_nr),
        NR::Zero => {}
    }
}

fn vr_serializable(r: &VR) -> bool {
    !matches!(r, VR::Combined(_))
}

fn nr_serializable(r: &NR) -> bool {
    match r {
        NR::Combined(_) => false,
        NR::Pair(t) => t.is_empty(),
        _ => true,
    }
}

fn ser_case(ctx: &mut Ctx, idx: usize, rng: &mut Rng, fixed: Option<(bool, Vec<Feature>, Vec<f64>)>) {
    let (mul, mut feats, state) = fixed.unwrap_or_else(|| {
        let mut case = gen_case(rng);
        if case.feats.is_empty() || rng.chance(1, 3) {
            // mostly serialisable models: simple rates only
            let n = 1 + rng.below(5);
            case.feats = (0..n)
                .map(|k| Feature {
                    name: format!("{}{}", rng.pick(&["distance", "time", "energy", "k"]), k),
                    weight: if rng.chance(1, 6) { None } else { Some(0.5 + value(rng).abs()) },
                    vrate: match rng.below(6) {
                        0 => None,
                        1 => Some(VR::Zero),
                        2 => Some(VR::Raw),
                        3 => Some(VR::Offset(value(rng))),
                        _ => Some(VR::Factor(value(rng))),
                    },
                    nrate: match rng.below(5) {
                        0 => None,
                        1 => Some(NR::Zero),
                        2 => Some(NR::Pair(vec![])),
                        _ => Some(NR::Edge((0..rng.below(4)).map(|k| (k * 3 + rng.below(3), value(rng))).collect())),
                    },
                })
                .collect();
            case.next = (0..n).map(|_| value(rng)).collect();
        }
        // colliding names
        if !case.feats.is_empty() && rng.chance(1, 12) {
            let k = rng.below(case.feats.len());
            case.feats[k].name = if rng.chance(1, 2) { "total_cost".into() } else { "cost_aggregation".into() };
        }
        (case.mul, case.feats, case.next)
    });
    for f in feats.iter_mut() {
        if let Some(r) = f.nrate.as_mut() {
            sort_nr(r);
        }
    }
    let mut line: Vec<String> = vec!["ser".into(), if mul { "mul".into() } else { "sum".into() }];
    let sm = Arc::new(StateModel::new(feats.iter().enumerate().map(|(k, f)| (f.name.clone(), state_feature(k))).collect::<Vec<_>>()));
    let order: Vec<String> = sm.indexed_iter().map(|(_, (name, _))| name.clone()).collect();
    line.push(order.len().to_string());
    for name in &order {
        let f = feats.iter().rev().find(|f| &f.name == name).unwrap();
        line.push(jsonproto::hex(name));
        match f.weight {
            Some(x) => {
                line.push("s".into());
                line.push(fbits(x));
            }
            None => line.push("n".into()),
        }
        match &f.vrate {
            Some(r) => {
                line.push("s".into());
                r.enc(&mut line);
            }
            None => line.push("n".into()),
        }
        match &f.nrate {
            Some(r) => {
                line.push("s".into());
                r.enc(&mut line);
            }
            None => line.push("n".into()),
        }
    }
    line.push(state.len().to_string());
    line.extend(state.iter().map(|x| fbits(*x)));

    let mut w = HashMap::new();
    let mut v = HashMap::new();
    let mut nr = HashMap::new();
    for f in &feats {
        if let Some(x) = f.weight {
            w.insert(f.name.clone(), x);
        }
        if let Some(r) = &f.vrate {
            v.insert(f.name.clone(), r.real());
        }
        if let Some(r) = &f.nrate {
            nr.insert(f.name.clone(), r.real());
        }
    }
    let agg = if mul { CostAggregation::Mul } else { CostAggregation::Sum };
    ctx.count("ser_case");
    let cm = match catch_unwind(AssertUnwindSafe(|| CostModel::new(Arc::new(w), Arc::new(v), Arc::new(nr), agg, sm.clone()))) {
        Ok(Ok(cm)) => cm,
        _ => {
            ctx.emit(idx, line.join(" "), "new-err".into());
            return;
        }
    };
    let st: Vec<StateVar> = state.iter().map(|x| StateVar(*x)).collect();
    let cost = catch_unwind(AssertUnwindSafe(|| cm.serialize_cost(&st)));
    let info = catch_unwind(AssertUnwindSafe(|| cm.serialize_cost_info()));
    let cost_tok = match &cost {
        Err(_) => "panic".to_string(),
        Ok(Err(_)) => "err".to_string(),
        Ok(Ok(Value::Object(m))) => {
            let mut entries: Vec<(&String, &Value)> = m.iter().collect();
            entries.sort_by(|a, b| a.0.cmp(b.0));
            let mut toks = vec![entries.len().to_string()];
            for (k, x) in entries {
                toks.push(jsonproto::hex(k));
                toks.push(enc_bits_str(x));
            }
            toks.join(" ")
        }
        Ok(Ok(_)) => "not-an-object".to_string(),
    };
    let info_tok = match &info {
        Err(_) => "panic".to_string(),
        Ok(Err(_)) => "err".to_string(),
        Ok(Ok(v)) => enc_bits_str(v),
    };
    ctx.emit(idx, line.join(" "), format!("cost {} info {}", cost_tok, info_tok));
    ctx.nontrivial(&line.join(" "));

    // ---- oracle, from the configuration only
    let n = order.len();
    let spec_feats: Vec<&Feature> = order.iter().map(|name| feats.iter().rev().find(|f| &f.name == name).unwrap()).collect();
    if cost.is_err() {
        ctx.fail(idx, "serialize_cost/panic", "serialize_cost panicked".into());
    }
    if info.is_err() {
        ctx.fail(idx, "serialize_cost_info/panic", "serialize_cost_info panicked".into());
    }
    if let Ok(res) = &cost {
        if state.len() < n {
            if res.is_ok() {
                ctx.fail(idx, "serialize_cost/short-state-accepted", "a state shorter than the state model was serialised".into());
            }
            ctx.count("ser_cost_short_state");
        } else {
            match res {
                Err(e) => ctx.fail(idx, "serialize_cost/unexpected-error", e.to_string()),
                Ok(v) => {
                    // every feature under its name with the rated value of its state variable; total_cost = their sum
                    let rated: Vec<f64> = (0..n).map(|i| spec_feats[i].vrate.as_ref().map(|r| r.apply(state[i])).unwrap_or(0.0)).collect();
                    let total: f64 = rated.iter().sum();
                    let abs: f64 = rated.iter().map(|x| x.abs()).sum();
                    let num = |k: &str| v.get(k).and_then(|x| x.as_f64());
                    let collides = order.iter().any(|nm| nm == "total_cost");
                    if rated.iter().all(|x| x.is_finite()) && total.is_finite() {
                        for i in 0..n {
                            if order[i] == "total_cost" {
                                continue;
                            }
                            if num(&order[i]).map(|x| x.to_bits()) != Some(rated[i].to_bits()) && !(rated[i] == 0.0 && num(&order[i]) == Some(0.0)) {
                                ctx.fail(idx, "serialize_cost/feature-cost", format!("{} reported as {:?}, rated state value is {}", order[i], num(&order[i]), rated[i]));
                            }
                        }
                        match num("total_cost") {
                            Some(t) if (t - total).abs() <= REL * abs => {}
                            other => ctx.fail(idx, "serialize_cost/total", format!("total_cost {:?}, the feature costs sum to {}", other, total)),
                        }
                        if collides {
                            ctx.count("ser_cost_feature_named_total_cost");
                            ctx.fail(idx, "serialize_cost/feature-named-total_cost-lost", "the cost of the state feature named total_cost is replaced by the total".into());
                        } else if v.as_object().map(|m| m.len()) != Some(n + 1) {
                            ctx.fail(idx, "serialize_cost/entries", format!("{} entries for {} features", v.as_object().map(|m| m.len()).unwrap_or(0), n));
                        }
                    }
                }
            }
        }
    }
    if let Ok(res) = &info {
        let all_ser = spec_feats.iter().all(|f| f.vrate.as_ref().map(vr_serializable).unwrap_or(true) && f.nrate.as_ref().map(nr_serializable).unwrap_or(true));
        match res {
            Ok(v) => {
                ctx.count("ser_info_ok");
                let collides = order.iter().any(|nm| nm == "cost_aggregation");
                let m = v.as_object();
                if m.map(|m| m.len()) != Some(if collides { n } else { n + 1 }) {
                    ctx.fail(idx, "serialize_cost_info/entries", format!("{} entries for {} features", m.map(|m| m.len()).unwrap_or(0), n));
                }
                if v.get("cost_aggregation") != Some(&json!(if mul { "mul" } else { "sum" })) {
                    ctx.fail(idx, "serialize_cost_info/aggregation", format!("{:?}", v.get("cost_aggregation")));
                }
                if collides {
                    ctx.count("ser_info_feature_named_cost_aggregation");
                    ctx.fail(idx, "serialize_cost_info/feature-named-cost_aggregation-lost", "the entry of the state feature named cost_aggregation is replaced by the aggregation".into());
                }
                for (i, nm) in order.iter().enumerate() {
                    if nm == "cost_aggregation" {
                        continue;
                    }
                    let e = v.get(nm);
                    let wt = spec_feats[i].weight.unwrap_or(0.0);
                    let ok = e.and_then(|e| e.get("feature")) == Some(&json!(nm))
                        && e.and_then(|e| e.get("weight")).and_then(|x| x.as_f64()).map(|x| x == wt).unwrap_or(false)
                        && e.and_then(|e| e.get("vehicle_rate")).and_then(|x| x.get("type")).is_some()
                        && e.and_then(|e| e.get("network_rate")).and_then(|x| x.get("type")).is_some();
                    if !ok {
                        ctx.fail(idx, "serialize_cost_info/feature-entry", format!("entry of {}: {:?}", nm, e));
                    }
                }
            }
            Err(_) => {
                ctx.count("ser_info_err");
                if all_ser {
                    ctx.fail(idx, "serialize_cost_info/unexpected-error", "every rate is serialisable but serialize_cost_info failed".into());
                } else {
                    // the information about a valid cost model cannot be reported
                    ctx.fail(idx, "cost_rate_serde/not-serializable", "serialize_cost_info fails on a valid cost model: a Combined rate or an edge-pair lookup with entries has no serde form".into());
                }
            }
        }
    }
    // serde round trip of every rate of the case: what is written can be read back
    for f in &spec_feats {
        if let Some(r) = &f.vrate {
            match serde_json::to_value(r.real()) {
                Err(_) => {
                    ctx.count("rate_not_serializable");
                    ctx.fail(idx, "cost_rate_serde/not-serializable", format!("vehicle rate {:?} cannot be serialised", r));
                }
                Ok(j) => {
                    if serde_json::from_value::<VehicleCostRate>(j.clone()).is_err() {
                        ctx.fail(idx, "cost_rate_serde/vehicle-roundtrip", format!("{} does not deserialize", j));
                    }
                }
            }
        }
        if let Some(r) = &f.nrate {
            match serde_json::to_value(r.real()) {
                Err(_) => {
                    ctx.count("rate_not_serializable");
                    ctx.fail(idx, "cost_rate_serde/not-serializable", format!("network rate {:?} cannot be serialised", r));
                }
                Ok(j) => {
                    if serde_json::from_value::<NetworkCostRate>(j.clone()).is_err() {
                        ctx.count("lookup_not_deserializable");
                        ctx.fail(idx, "cost_rate_serde/lookup-not-deserializable", format!("{} is what serde writes for a network rate and it does not deserialize", j));
                    }
                }
            }
        }
    }
}

// ------------------------------------------------------------------------------------------------
// cfg: CostModelBuilder::build + CostModelService::build
// ------------------------------------------------------------------------------------------------

fn num_json(rng: &mut Rng, x: f64) -> Value {
    if x.fract() == 0.0 && x.abs() < 1e15 && !(x == 0.0 && x.is_sign_negative()) && rng.chance(1, 2) {
        json!(x as i64)
    } else {
        json!(x)
    }
}

/// the JSON of a vehicle rate in a form serde accepts (`valid`) or a malformed variation of it
fn vr_json(rng: &mut Rng, r: &VR, valid: &mut bool) -> Value {
    let mutate = rng.chance(1, 14);
    let j = match r {
        VR::Zero | VR::Raw => {
            let tag = if matches!(r, VR::Zero) { "zero" } else { "raw" };
            match rng.below(4) {
                0 => json!([tag]),
                1 => json!({"type": tag, "comment": "ignored"}),
                _ => json!({"type": tag}),
            }
        }
        VR::Factor(x) | VR::Offset(x) => {
            let tag = if matches!(r, VR::Factor(_)) { "factor" } else { "offset" };
            let xv = num_json(rng, *x);
            match rng.below(5) {
                0 => json!([tag, xv]),
                1 => {
                    let mut m = serde_json::Map::new();
                    m.insert(tag.to_string(), xv);
                    m.insert("unit".into(), json!("usd"));
                    m.insert("type".into(), json!(tag));
                    Value::Object(m)
                }
                _ => {
                    let mut m = serde_json::Map::new();
                    m.insert("type".into(), json!(tag));
                    m.insert(tag.to_string(), xv);
                    Value::Object(m)
                }
            }
        }
        VR::Combined(rs) => {
            let mut xs = vec![json!("combined")];
            for r in rs {
                xs.push(vr_json(rng, r, valid));
            }
            Value::Array(xs)
        }
    };
    if !mutate {
        return j;
    }
    *valid = false;
    match rng.below(12) {
        0 => json!(null),
        1 => json!("factor"),
        2 => json!({"type": "Factor", "factor": 1.0}),
        3 => json!({"type": "factor"}),
        4 => json!({"type": "factor", "factor": "2"}),
        5 => json!({"type": "offset", "offset": null}),
        6 => json!({"factor": 2.0}),
        7 => json!({"type": 3}),
        8 => json!({"type": "combined", "mappings": [{"type": "raw"}]}),
        9 => json!(["factor", 1.0, 2.0]),
        10 => json!(["zero", 1]),
        _ => json!([]),
    }
}

fn nr_json(rng: &mut Rng, r: &NR, valid: &mut bool) -> Value {
    match r {
        NR::Zero => {
            if rng.chance(1, 3) {
                json!(["zero"])
            } else {
                json!({"type": "zero"})
            }
        }
        NR::Edge(t) => {
            let mut m = serde_json::Map::new();
            for (k, v) in t {
                m.insert(k.to_string(), json!(v));
            }
            if !t.is_empty() {
                *valid = false; // (the form serde itself writes; it is not read back)
            }
            json!({"type": "edge_lookup", "lookup": m})
        }
        NR::Pair(t) => {
            let mut m = serde_json::Map::new();
            for ((a, b), v) in t {
                m.insert(format!("({},{})", a, b), json!(v));
            }
            if !t.is_empty() {
                *valid = false;
            }
            if rng.chance(1, 4) {
                json!(["edge_edge_lookup", m])
            } else {
                json!({"type": "edge_edge_lookup", "lookup": m})
            }
        }
        NR::Combined(rs) => {
            let mut xs = vec![json!("combined")];
            for r in rs {
                xs.push(nr_json(rng, r, valid));
            }
            if rng.chance(1, 10) {
                *valid = false;
                return json!({"type": "combined", "rates": xs[1..].to_vec()});
            }
            Value::Array(xs)
        }
    }
}

/// drops the lookup entries (they cannot be configured) so that a configurable rate remains
fn strip_lookups(r: &NR) -> NR {
    match r {
        NR::Edge(_) => NR::Edge(vec![]),
        NR::Pair(_) => NR::Pair(vec![]),
        NR::Combined(rs) => NR::Combined(rs.iter().map(strip_lookups).collect()),
        NR::Zero => NR::Zero,
    }
}

fn cfg_case(ctx: &mut Ctx, idx: usize, rng: &mut Rng) {
    let n = 1 + rng.below(4);
    let pool = ["distance", "time", "energy_liquid", "energy_electric", "battery_state", "trip_count"];
    let mut names: Vec<String> = pool.iter().map(|s| s.to_string()).collect();
    rng.shuffle(&mut names);
    names.truncate(n);
    // configuration
    let mut cfg_valid = true;
    let mut cfg = serde_json::Map::new();
    let mut cfg_w: HashMap<String, f64> = HashMap::new();
    let mut cfg_v: HashMap<String, VR> = HashMap::new();
    let mut cfg_n: HashMap<String, NR> = HashMap::new();
    let mut cfg_mul = false;
    let mut ignore = true;
    if !rng.chance(1, 8) {
        let mut m = serde_json::Map::new();
        for nm in &names {
            if rng.chance(4, 5) {
                let r = gen_vr(rng, 1);
                m.insert(nm.clone(), vr_json(rng, &r, &mut cfg_valid));
                cfg_v.insert(nm.clone(), r);
            }
        }
        cfg.insert("vehicle_rates".into(), Value::Object(m));
    }
    if !rng.chance(1, 3) {
        let mut m = serde_json::Map::new();
        for nm in &names {
            if rng.chance(1, 2) {
                let r = if rng.chance(4, 5) { strip_lookups(&gen_nr(rng, 1)) } else { gen_nr(rng, 1) };
                m.insert(nm.clone(), nr_json(rng, &r, &mut cfg_valid));
                cfg_n.insert(nm.clone(), r);
            }
        }
        cfg.insert("network_rates".into(), Value::Object(m));
    }
    if !rng.chance(1, 6) {
        let mut m = serde_json::Map::new();
        for nm in &names {
            if rng.chance(4, 5) {
                let x = if rng.chance(1, 8) { 0.0 } else { value(rng).abs() };
                m.insert(nm.clone(), num_json(rng, x));
                cfg_w.insert(nm.clone(), x);
            }
        }
        if rng.chance(1, 8) {
            m.insert("toll".into(), json!(2.0));
            cfg_w.insert("toll".into(), 2.0);
        }
        cfg.insert("weights".into(), Value::Object(m));
    }
    match rng.below(6) {
        0 => {
            cfg.insert("cost_aggregation".into(), json!("mul"));
            cfg_mul = true;
        }
        1 => {
            cfg.insert("cost_aggregation".into(), json!("sum"));
        }
        2 => {
            cfg.insert("cost_aggregation".into(), json!({"mul": null}));
            cfg_mul = true;
        }
        3 => {
            cfg.insert("cost_aggregation".into(), json!({"sum": null}));
        }
        _ => {}
    }
    match rng.below(5) {
        0 => {
            cfg.insert("ignore_unknown_user_provided_weights".into(), json!(false));
            ignore = false;
        }
        1 => {
            cfg.insert("ignore_unknown_user_provided_weights".into(), json!(true));
        }
        _ => {}
    }
    let mut config = Value::Object(cfg);
    // malformed configuration sections
    if rng.chance(1, 12) {
        cfg_valid = false;
        let m = config.as_object_mut().unwrap();
        match rng.below(8) {
            0 => {
                m.insert("weights".into(), json!([1.0, 2.0]));
            }
            1 => {
                m.insert("weights".into(), json!({"distance": "1"}));
            }
            2 => {
                m.insert("cost_aggregation".into(), json!("Sum"));
            }
            3 => {
                m.insert("cost_aggregation".into(), if rng.chance(1, 2) { json!({"sum": null, "mul": null}) } else { json!({"sum": true}) });
            }
            4 => {
                m.insert("ignore_unknown_user_provided_weights".into(), json!("yes"));
            }
            5 => {
                m.insert("vehicle_rates".into(), json!(null));
            }
            6 => {
                m.insert("network_rates".into(), json!([{"type": "zero"}]));
            }
            _ => {
                m.insert("weights".into(), json!({"distance": null}));
            }
        }
    }
    let whole_config_not_object = rng.chance(1, 40);
    if whole_config_not_object {
        config = if rng.chance(1, 2) { json!(null) } else { json!([1, 2]) };
        cfg_w.clear();
        cfg_v.clear();
        cfg_n.clear();
        cfg_mul = false;
        ignore = true;
        cfg_valid = true;
    }
    // query
    let mut q_valid = true;
    let mut q = serde_json::Map::new();
    q.insert("origin_vertex".into(), json!(0));
    let mut q_w: Option<HashMap<String, f64>> = None;
    let mut q_v: Option<HashMap<String, VR>> = None;
    let mut q_mul: Option<bool> = None;
    if rng.chance(1, 2) {
        let mut m = serde_json::Map::new();
        let mut w = HashMap::new();
        for nm in &names {
            if rng.chance(3, 4) {
                let x = if rng.chance(1, 8) { 0.0 } else { value(rng).abs() };
                m.insert(nm.clone(), num_json(rng, x));
                w.insert(nm.clone(), x);
            }
        }
        if rng.chance(1, 4) {
            m.insert("unknown_feature".into(), json!(1.5));
            w.insert("unknown_feature".into(), 1.5);
        }
        q.insert("weights".into(), Value::Object(m));
        q_w = Some(w);
    }
    if rng.chance(1, 3) {
        let mut m = serde_json::Map::new();
        let mut v = HashMap::new();
        for nm in &names {
            if rng.chance(2, 3) {
                let r = gen_vr(rng, 1);
                m.insert(nm.clone(), vr_json(rng, &r, &mut q_valid));
                v.insert(nm.clone(), r);
            }
        }
        q.insert("vehicle_rates".into(), Value::Object(m));
        q_v = Some(v);
    }
    match rng.below(6) {
        0 => {
            q.insert("cost_aggregation".into(), json!("mul"));
            q_mul = Some(true);
        }
        1 => {
            q.insert("cost_aggregation".into(), json!("sum"));
            q_mul = Some(false);
        }
        _ => {}
    }
    if rng.chance(1, 14) {
        q_valid = false;
        match rng.below(4) {
            0 => {
                q.insert("weights".into(), json!("distance"));
            }
            1 => {
                q.insert("weights".into(), json!({"distance": true}));
            }
            2 => {
                q.insert("cost_aggregation".into(), json!(7));
            }
            _ => {
                q.insert("vehicle_rates".into(), json!({"distance": 1.0}));
            }
        }
    }
    let query = Value::Object(q);
    let prev: Vec<f64> = (0..n).map(|_| value(rng).abs()).collect();
    let next: Vec<f64> = prev.iter().map(|p| p + value(rng).abs()).collect();
    let (e, pe, ne) = (rng.below(6), rng.below(4), rng.below(4));

    let mut line: Vec<String> = vec!["cfg".into(), jsonproto::enc(&config), jsonproto::enc(&query), names.len().to_string()];
    line.extend(names.iter().map(|s| jsonproto::hex(s)));
    line.push(prev.len().to_string());
    line.extend(prev.iter().map(|x| fbits(*x)));
    line.push(next.len().to_string());
    line.extend(next.iter().map(|x| fbits(*x)));
    line.push(e.to_string());
    line.push(pe.to_string());
    line.push(ne.to_string());

    let sm = Arc::new(StateModel::new(names.iter().enumerate().map(|(k, nm)| (nm.clone(), state_feature(k))).collect::<Vec<_>>()));
    let p: Vec<StateVar> = prev.iter().map(|x| StateVar(*x)).collect();
    let nx: Vec<StateVar> = next.iter().map(|x| StateVar(*x)).collect();
    ctx.count("cfg_case");
    #[derive(Debug)]
    enum Res {
        Builder,
        Service(&'static str),
        Ok(Option<f64>, Option<f64>, Option<f64>, String),
    }
    let r = catch_unwind(AssertUnwindSafe(|| {
        let svc = match (CostModelBuilder {}).build(&config) {
            Ok(s) => s,
            Err(_) => return Res::Builder,
        };
        let cm = match svc.build(&query, sm.clone()) {
            Ok(cm) => cm,
            Err(CompassConfigurationError::SerdeDeserializationError(_)) => return Res::Service("serde"),
            Err(CompassConfigurationError::UserConfigurationError(msg)) => {
                return Res::Service(if msg.starts_with("unknown weights in query") {
                    "unknown-weights"
                } else if msg.starts_with("failed to build cost model") {
                    "new-failed"
                } else {
                    "other"
                })
            }
            Err(_) => return Res::Service("other"),
        };
        let edge = Edge::new(e, 0, 1, 1.0);
        let t = cm.traversal_cost(&edge, &p, &nx).ok().map(|c| c.as_f64());
        let a = cm.access_cost(&Edge::new(pe, 2, 0, 1.0), &Edge::new(ne, 0, 1, 1.0), &p, &nx).ok().map(|c| c.as_f64());
        let est = cm.cost_estimate(&p, &nx).ok().map(|c| c.as_f64());
        let info = match cm.serialize_cost_info() {
            Ok(v) => enc_bits_str(&v),
            Err(_) => "err".to_string(),
        };
        Res::Ok(t, a, est, info)
    }));
    let out = match &r {
        Err(_) => "panic".to_string(),
        Ok(Res::Builder) => "builder-err".to_string(),
        Ok(Res::Service(k)) => format!("service-err {}", k),
        Ok(Res::Ok(t, a, est, info)) => format!("ok {} {} {} info {}", fopt(*t), fopt(*a), fopt(*est), info),
    };
    ctx.emit(idx, line.join(" "), out);
    ctx.nontrivial(&line.join(" "));
    // ---- oracle: what the configuration means, computed from the generator's own description
    match &r {
        Err(_) => ctx.fail(idx, "cost_model_config/panic", "building a cost model from configuration panicked".into()),
        Ok(res) => {
            ctx.count(match res {
                Res::Builder => "cfg_builder_error",
                Res::Service("serde") => "cfg_service_serde_error",
                Res::Service("unknown-weights") => "cfg_unknown_weights_error",
                Res::Service("new-failed") => "cfg_new_failed",
                Res::Service(_) => "cfg_service_other_error",
                Res::Ok(..) => "cfg_ok",
            });
            if !cfg_valid {
                ctx.count("cfg_malformed_config");
                if !matches!(res, Res::Builder) {
                    ctx.fail(idx, "cost_model_builder/accepts-malformed", format!("malformed cost configuration accepted: {}", config));
                }
                return;
            }
            if matches!(res, Res::Builder) {
                ctx.fail(idx, "cost_model_builder/rejects-valid", format!("valid cost configuration rejected: {}", config));
                return;
            }
            let weights = q_w.clone().unwrap_or(cfg_w.clone());
            let known = names.iter().filter(|nm| weights.contains_key(*nm)).count();
            let unknown = weights.len() != known;
            // the code parses the query's weights first, then checks unknown names, then parses the rest;
            // `q_valid = false` covers a malformed field anywhere in the query, so only the clear cases are decided
            if !q_valid {
                ctx.count("cfg_malformed_query");
                if matches!(res, Res::Ok(..)) {
                    ctx.fail(idx, "cost_model_service/accepts-malformed", format!("malformed query accepted: {}", query));
                }
                return;
            }
            if unknown && !ignore {
                if !matches!(res, Res::Service("unknown-weights")) {
                    ctx.fail(idx, "cost_model_service/unknown-weights-not-rejected", format!("weights {:?} for features {:?} with ignore flag off: {:?}", weights.keys().collect::<Vec<_>>(), names, res));
                }
                return;
            }
            if unknown {
                ctx.count("cfg_unknown_weights_ignored");
            }
            let wsum: f64 = names.iter().map(|nm| weights.get(nm).copied().unwrap_or(0.0)).sum();
            if wsum == 0.0 {
                if !matches!(res, Res::Service("new-failed")) {
                    ctx.fail(idx, "cost_model_service/zero-weights-accepted", format!("weights sum to zero: {:?}", res));
                }
                return;
            }
            let Res::Ok(t, a, est, _) = res else {
                ctx.fail(idx, "cost_model_service/rejects-valid", format!("valid configuration and query rejected: {:?} config {} query {}", res, config, query));
                return;
            };
            // the same cost model built through the API gives the same three results
            let vr = q_v.clone().unwrap_or(cfg_v.clone());
            let mul = q_mul.unwrap_or(cfg_mul);
            let w2: HashMap<String, f64> = weights.clone();
            let v2: HashMap<String, VehicleCostRate> = vr.iter().map(|(k, r)| (k.clone(), r.real())).collect();
            let n2: HashMap<String, NetworkCostRate> = cfg_n.iter().map(|(k, r)| (k.clone(), r.real())).collect();
            let agg = if mul { CostAggregation::Mul } else { CostAggregation::Sum };
            if let Ok(cm) = CostModel::new(Arc::new(w2), Arc::new(v2), Arc::new(n2), agg, sm.clone()) {
                let t2 = cm.traversal_cost(&Edge::new(e, 0, 1, 1.0), &p, &nx).ok().map(|c| c.as_f64());
                let a2 = cm.access_cost(&Edge::new(pe, 2, 0, 1.0), &Edge::new(ne, 0, 1, 1.0), &p, &nx).ok().map(|c| c.as_f64());
                let e2 = cm.cost_estimate(&p, &nx).ok().map(|c| c.as_f64());
                let same = |x: &Option<f64>, y: &Option<f64>| x.map(|v| v.to_bits()) == y.map(|v| v.to_bits());
                if !same(t, &t2) || !same(a, &a2) || !same(est, &e2) {
                    ctx.fail(idx, "cost_model_config/differs-from-api", format!("configured model gives {:?} {:?} {:?}, the same model built through CostModel::new gives {:?} {:?} {:?}", t, a, est, t2, a2, e2));
                }
                ctx.count("cfg_compared_with_api");
            } else {
                ctx.fail(idx, "cost_model_config/differs-from-api", "CostModel::new rejects what the service built".into());
            }
        }
    }
}

// ------------------------------------------------------------------------------------------------
// ncb: NetworkCostRateBuilder::build
// ------------------------------------------------------------------------------------------------

#[derive(Clone, Debug)]
enum FileFault {
    None,
    Missing,
    Empty,
    HeaderOnly,
    MissingColumn,
    TruncatedGzip,
}

#[derive(Clone, Debug)]
enum NB {
    Edge { path: String, present: bool, lines: usize, has_header: bool, rows: Vec<Option<(usize, f64)>> },
    Pair { path: String, present: bool, lines: usize, has_header: bool, rows: Vec<Option<((usize, usize), f64)>> },
    Combined(Vec<NB>),
}

fn scratch_dir() -> String {
    let d = std::env::current_dir().unwrap().join("work").join(format!("c07_scratch_{}", std::process::id()));
    std::fs::create_dir_all(&d).expect("scratch dir");
    d.to_string_lossy().to_string()
}

fn cost_text(rng: &mut Rng, x: f64) -> String {
    if !x.is_finite() {
        return if x.is_nan() { "NaN".into() } else if x > 0.0 { "inf".into() } else { "-inf".into() };
    }
    match rng.below(3) {
        0 => format!("{}", x),
        1 => format!("{:e}", x),
        _ => format!(" {} ", x),
    }
}

/// writes one lookup file; returns what the reader should see of it
fn write_lookup(rng: &mut Rng, dir: &str, tag: &str, pair: bool, nonfinite: &mut bool) -> NB {
    let fault = match rng.below(16) {
        0 => FileFault::Missing,
        1 => FileFault::Empty,
        2 => FileFault::HeaderOnly,
        3 => FileFault::MissingColumn,
        4 => FileFault::TruncatedGzip,
        _ => FileFault::None,
    };
    let gz = matches!(fault, FileFault::TruncatedGzip) || rng.chance(1, 3);
    let path = format!("{}/{}{}", dir, tag, if gz && rng.chance(1, 2) { ".csv.gz" } else { ".csv" });
    let nrows = if matches!(fault, FileFault::HeaderOnly | FileFault::Empty) { 0 } else { 1 + rng.below(8) };
    // column layout: required columns in random order, maybe an extra one
    let mut cols: Vec<&str> = if pair { vec!["source", "destination", "cost"] } else { vec!["edge_id", "cost"] };
    rng.shuffle(&mut cols);
    if rng.chance(1, 4) {
        cols.insert(rng.below(cols.len() + 1), "comment");
    }
    if matches!(fault, FileFault::MissingColumn) {
        let k = cols.iter().position(|c| *c == "cost" || *c == "edge_id" || *c == "source").unwrap();
        cols.remove(k);
    }
    let mut text = String::new();
    if !matches!(fault, FileFault::Empty) {
        text.push_str(&cols.join(","));
        text.push('\n');
    }
    let mut erows: Vec<Option<(usize, f64)>> = vec![];
    let mut prows: Vec<Option<((usize, usize), f64)>> = vec![];
    for _ in 0..nrows {
        let (a, b) = (rng.below(6), rng.below(4));
        let mut cost = value(rng);
        if rng.chance(1, 25) {
            cost = *rng.pick(&[f64::NAN, f64::INFINITY, f64::NEG_INFINITY]);
            *nonfinite = true;
        }
        let bad = if rng.chance(1, 14) { 1 + rng.below(5) } else { 0 };
        let mut cells: Vec<String> = vec![];
        for c in &cols {
            let cell = match *c {
                "edge_id" | "source" => match bad {
                    1 => "x7".to_string(),
                    2 => "-1".to_string(),
                    3 => "1.5".to_string(),
                    _ => a.to_string(),
                },
                "destination" => b.to_string(),
                "cost" => match bad {
                    4 => "cheap".to_string(),
                    5 => "".to_string(),
                    _ => cost_text(rng, cost),
                },
                _ => "n/a".to_string(),
            };
            cells.push(cell);
        }
        let short = rng.chance(1, 30);
        if short {
            cells.pop();
        }
        let row_text = cells.join(",");
        text.push_str(&row_text);
        text.push('\n');
        if row_text.is_empty() {
            // an empty line is no record: the csv reader skips it
            continue;
        }
        let ok = bad == 0 && !short && !matches!(fault, FileFault::MissingColumn);
        if pair {
            prows.push(if ok { Some(((a, b), cost)) } else { None });
        } else {
            erows.push(if ok { Some((a, cost)) } else { None });
        }
    }
    let present = !matches!(fault, FileFault::Missing);
    if present {
        let bytes: Vec<u8> = if gz {
            let mut enc = flate2::write::GzEncoder::new(Vec::new(), flate2::Compression::default());
            enc.write_all(text.as_bytes()).unwrap();
            let mut b = enc.finish().unwrap();
            if matches!(fault, FileFault::TruncatedGzip) {
                b.truncate(b.len().saturating_sub(10).max(12));
            }
            b
        } else {
            text.into_bytes()
        };
        std::fs::write(&path, bytes).expect("write lookup file");
    } else {
        let _ = std::fs::remove_file(&path);
    }
    if matches!(fault, FileFault::TruncatedGzip) {
        // the stream ends before its trailer: whatever was decoded, the read ends in an error
        erows = vec![None];
        prows = vec![None];
    }
    if pair {
        NB::Pair { path, present, lines: nrows + 1, has_header: !matches!(fault, FileFault::Empty), rows: prows }
    } else {
        NB::Edge { path, present, lines: nrows + 1, has_header: !matches!(fault, FileFault::Empty), rows: erows }
    }
}

fn gen_nb(rng: &mut Rng, dir: &str, tag: &str, depth: usize, nonfinite: &mut bool) -> NB {
    match rng.below(if depth < 2 { 5 } else { 4 }) {
        0 | 1 => write_lookup(rng, dir, tag, false, nonfinite),
        2 | 3 => write_lookup(rng, dir, tag, true, nonfinite),
        _ => {
            let n = rng.below(4);
            NB::Combined((0..n).map(|k| gen_nb(rng, dir, &format!("{}_{}", tag, k), depth + 1, nonfinite)).collect())
        }
    }
}

impl NB {
    fn real(&self) -> NetworkCostRateBuilder {
        match self {
            NB::Edge { path, .. } => NetworkCostRateBuilder::EdgeLookupBuilder { cost_input_file: path.clone() },
            NB::Pair { path, .. } => NetworkCostRateBuilder::EdgeEdgeLookupBuilder { cost_input_file: path.clone() },
            NB::Combined(bs) => NetworkCostRateBuilder::Combined(bs.iter().map(|b| b.real()).collect()),
        }
    }
    fn enc(&self, out: &mut Vec<String>) {
        match self {
            NB::Edge { present, lines, has_header, rows, .. } => {
                out.push("e".into());
                out.push(bit(*present).into());
                out.push(lines.to_string());
                out.push(bit(*has_header).into());
                out.push(rows.len().to_string());
                for r in rows {
                    match r {
                        Some((k, v)) => {
                            out.push("ok".into());
                            out.push(k.to_string());
                            out.push(ibits(*v));
                        }
                        None => out.push("bad".into()),
                    }
                }
            }
            NB::Pair { present, lines, has_header, rows, .. } => {
                out.push("p".into());
                out.push(bit(*present).into());
                out.push(lines.to_string());
                out.push(bit(*has_header).into());
                out.push(rows.len().to_string());
                for r in rows {
                    match r {
                        Some(((a, b), v)) => {
                            out.push("ok".into());
                            out.push(a.to_string());
                            out.push(b.to_string());
                            out.push(ibits(*v));
                        }
                        None => out.push("bad".into()),
                    }
                }
            }
            NB::Combined(bs) => {
                out.push("c".into());
                out.push(bs.len().to_string());
                bs.iter().for_each(|b| b.enc(out));
            }
        }
    }
    /// every file readable and every row decodable
    fn sound(&self) -> bool {
        match self {
            NB::Edge { present, has_header, rows, .. } => *present && *has_header && rows.iter().all(|r| r.is_some()),
            NB::Pair { present, has_header, rows, .. } => *present && *has_header && rows.iter().all(|r| r.is_some()),
            NB::Combined(bs) => bs.iter().all(|b| b.sound()),
        }
    }
    /// every cost of every row is a finite number
    fn finite(&self) -> bool {
        match self {
            NB::Edge { rows, .. } => rows.iter().flatten().all(|r| r.1.is_finite()),
            NB::Pair { rows, .. } => rows.iter().flatten().all(|r| r.1.is_finite()),
            NB::Combined(bs) => bs.iter().all(|b| b.finite()),
        }
    }
    /// the per-edge / per-turn surcharge the files prescribe (the last row of a key counts)
    fn edge_value(&self, e: usize) -> f64 {
        match self {
            NB::Edge { rows, .. } => rows.iter().rev().flatten().find(|r| r.0 == e).map(|r| r.1).unwrap_or(0.0),
            NB::Pair { .. } => 0.0,
            NB::Combined(bs) => bs.iter().fold(0.0, |a, b| a + b.edge_value(e)),
        }
    }
    fn pair_value(&self, pe: usize, ne: usize) -> f64 {
        match self {
            NB::Edge { .. } => 0.0,
            NB::Pair { rows, .. } => rows.iter().rev().flatten().find(|r| r.0 == (pe, ne)).map(|r| r.1).unwrap_or(0.0),
            NB::Combined(bs) => bs.iter().fold(0.0, |a, b| a + b.pair_value(pe, ne)),
        }
    }
}

fn ncb_case(ctx: &mut Ctx, idx: usize, rng: &mut Rng, dir: &str) {
    let mut nonfinite = false;
    let b = gen_nb(rng, dir, &format!("lookup_{}", idx), 0, &mut nonfinite);
    let probes: Vec<(usize, usize, usize)> = (0..6).map(|k| (k, rng.below(6), rng.below(4))).collect();
    let mut line: Vec<String> = vec!["ncb".into()];
    b.enc(&mut line);
    line.push(probes.len().to_string());
    for (e, pe, ne) in &probes {
        line.push(e.to_string());
        line.push(pe.to_string());
        line.push(ne.to_string());
    }
    let r = catch_unwind(AssertUnwindSafe(|| {
        b.real().build().map(|rate| {
            probes
                .iter()
                .map(|(e, pe, ne)| {
                    let t = rate.traversal_cost(StateVar(0.0), StateVar(0.0), &Edge::new(*e, 0, 1, 1.0)).map(|c| c.as_f64());
                    let a = rate.access_cost(StateVar(0.0), StateVar(0.0), &Edge::new(*pe, 0, 1, 1.0), &Edge::new(*ne, 1, 2, 1.0)).map(|c| c.as_f64());
                    (t.unwrap_or(f64::NAN), a.unwrap_or(f64::NAN))
                })
                .collect::<Vec<_>>()
        })
    }));
    ctx.count("ncb_case");
    let out = match &r {
        Err(_) => "panic".to_string(),
        Ok(Err(_)) => "build-err".to_string(),
        Ok(Ok(vals)) => {
            let mut toks = vec!["ok".to_string()];
            for (t, a) in vals {
                toks.push(fbits(*t));
                toks.push(fbits(*a));
            }
            toks.join(" ")
        }
    };
    ctx.emit(idx, line.join(" "), out);
    ctx.nontrivial(&line.join(" "));
    match &r {
        Err(_) => ctx.fail(idx, "network_cost_rate_builder/panic", "build panicked".into()),
        Ok(Err(_)) => {
            ctx.count("ncb_build_error");
            if b.sound() && b.finite() {
                ctx.fail(idx, "network_cost_rate_builder/rejects-valid", "every file is readable and every row decodable but build failed".into());
            }
            if b.sound() && !b.finite() {
                ctx.count("ncb_nonfinite_cost_rejected");
            }
        }
        Ok(Ok(vals)) => {
            ctx.count("ncb_built");
            if !b.sound() {
                ctx.fail(idx, "network_cost_rate_builder/accepts-malformed", "a missing file or an undecodable row was accepted".into());
                return;
            }
            let same = |x: f64, y: f64| x.to_bits() == y.to_bits() || (x.is_nan() && y.is_nan()) || (x == 0.0 && y == 0.0);
            for ((e, pe, ne), (t, a)) in probes.iter().zip(vals.iter()) {
                if !same(*t, b.edge_value(*e)) || !same(*a, b.pair_value(*pe, *ne)) {
                    ctx.fail(idx, "network_cost_rate_builder/lookup", format!("edge {} costs {} (files say {}), turn ({},{}) costs {} (files say {})", e, t, b.edge_value(*e), pe, ne, a, b.pair_value(*pe, *ne)));
                }
            }
            if nonfinite && !b.finite() {
                ctx.fail(idx, "network_cost_rate_builder/non-finite-cost-accepted", "a lookup file with a NaN / infinite cost was loaded: the surcharge of that edge or turn is not finite".into());
            }
        }
    }
}

// ------------------------------------------------------------------------------------------------

pub fn run_io(ctx: &mut Ctx) {
    // hand-written corpus first
    let agg_corpus: Vec<(bool, Vec<Option<f64>>)> = vec![
        (false, vec![]),
        (true, vec![]),
        (true, vec![Some(3.0)]),
        (false, vec![Some(-2.5)]),
        (true, vec![Some(0.0), Some(f64::INFINITY)]),
        (false, vec![Some(f64::INFINITY), Some(f64::NEG_INFINITY)]),
        (true, vec![None]),
        (true, vec![Some(2.0), None, None]),
        (false, vec![Some(1.0), Some(2.0), None]),
        (true, vec![Some(-2.0), Some(-3.0)]),
    ];
    for c in agg_corpus {
        let Some(idx) = ctx.begin() else { continue };
        let mut rng = Rng::for_case(ctx.seed, 7, idx as u64);
        agg_case(ctx, idx, &mut rng, Some(c));
    }
    let cost_corpus: Vec<(f64, f64)> = vec![
        (f64::NAN, f64::NAN),
        (f64::NAN, f64::INFINITY),
        (f64::INFINITY, f64::NAN),
        (0.0, -0.0),
        (-0.0, 0.0),
        (1.0, 1.0),
        (f64::NEG_INFINITY, f64::MAX),
        (-1.0e-10, 1.0e-10),
    ];
    for c in cost_corpus {
        let Some(idx) = ctx.begin() else { continue };
        let mut rng = Rng::for_case(ctx.seed, 7, idx as u64);
        cost_case(ctx, idx, &mut rng, Some(c));
    }
    let ser_corpus: Vec<(bool, Vec<Feature>, Vec<f64>)> = vec![
        // witness: serialize_cost_info on a Combined vehicle rate (json![rate] unwrapped a serde error)
        (false, vec![feat("time", Some(1.0), Some(VR::Combined(vec![VR::Factor(2.0), VR::Offset(1.0)])), None)], vec![3.0]),
        // witness: an edge-pair lookup with entries
        (false, vec![feat("distance", Some(1.0), Some(VR::Raw), Some(NR::Pair(vec![((1, 2), 4.0)])))], vec![3.0]),
        // witness: a Combined network rate
        (false, vec![feat("distance", Some(1.0), Some(VR::Raw), Some(NR::Combined(vec![NR::Zero])))], vec![3.0]),
        // everything serialisable
        (
            true,
            vec![
                feat("distance", Some(2.0), Some(VR::Factor(0.5)), Some(NR::Edge(vec![(3, 0.25), (1, 7.0)]))),
                feat("time", None, None, None),
                feat("energy", Some(-1.0), Some(VR::Offset(-2.0)), Some(NR::Pair(vec![]))),
            ],
            vec![10.0, 20.0, 30.0],
        ),
        // state too short
        (false, vec![feat("distance", Some(1.0), Some(VR::Raw), None), feat("time", Some(1.0), Some(VR::Raw), None)], vec![1.0]),
        // a feature named total_cost / cost_aggregation
        (false, vec![feat("distance", Some(1.0), Some(VR::Raw), None), feat("total_cost", Some(1.0), Some(VR::Raw), None)], vec![1.0, 5.0]),
        (false, vec![feat("cost_aggregation", Some(1.0), Some(VR::Raw), None), feat("time", Some(1.0), Some(VR::Raw), None)], vec![1.0, 5.0]),
    ];
    for c in ser_corpus {
        let Some(idx) = ctx.begin() else { continue };
        let mut rng = Rng::for_case(ctx.seed, 7, idx as u64);
        ser_case(ctx, idx, &mut rng, Some(c));
    }
    // generated
    for _ in 0..ctx.n(600, 20000) {
        let Some(idx) = ctx.begin() else { continue };
        let mut rng = Rng::for_case(ctx.seed, 7, idx as u64);
        agg_case(ctx, idx, &mut rng, None);
    }
    for _ in 0..ctx.n(600, 20000) {
        let Some(idx) = ctx.begin() else { continue };
        let mut rng = Rng::for_case(ctx.seed, 7, idx as u64);
        cost_case(ctx, idx, &mut rng, None);
    }
    for _ in 0..ctx.n(1200, 40000) {
        let Some(idx) = ctx.begin() else { continue };
        let mut rng = Rng::for_case(ctx.seed, 7, idx as u64);
        et_case(ctx, idx, &mut rng);
    }
    for _ in 0..ctx.n(800, 25000) {
        let Some(idx) = ctx.begin() else { continue };
        let mut rng = Rng::for_case(ctx.seed, 7, idx as u64);
        ser_case(ctx, idx, &mut rng, None);
    }
    for _ in 0..ctx.n(1500, 40000) {
        let Some(idx) = ctx.begin() else { continue };
        let mut rng = Rng::for_case(ctx.seed, 7, idx as u64);
        cfg_case(ctx, idx, &mut rng);
    }
    let dir = scratch_dir();
    for _ in 0..ctx.n(400, 6000) {
        let Some(idx) = ctx.begin() else { continue };
        let mut rng = Rng::for_case(ctx.seed, 7, idx as u64);
        ncb_case(ctx, idx, &mut rng, &dir);
    }
    if std::env::var("C07_KEEP_SCRATCH").is_err() {
        let _ = std::fs::remove_dir_all(&dir);
    }
}
