//! C11 — every state feature owns exactly one state-vector slot, at any feature count.
//! (a) container: operation histories on the real `CompactOrderedHashMap<u64, i64>` (empty / new /
//!     From<Vec> / from_iter, then inserts of new keys and overwrites, 0..40 keys), and after EVERY
//!     operation every accessor (len, is_empty, get / get_index / contains_key of every key of the
//!     universe, get_pair of every index 0..len+2, keys, iter, to_vec, indexed_iter, into_iter),
//!     textually against the Lean model.  Oracle: the same observations against a plain `Vec`-based
//!     insertion-ordered map written here.
//! (b) state model: see `sm` below.
use crate::ctx::{fbits, Ctx};
use crate::rng::Rng;
use routee_compass_core::util::compact_ordered_hash_map::CompactOrderedHashMap;
use std::panic::{catch_unwind, AssertUnwindSafe};

type Map = CompactOrderedHashMap<u64, i64>;

// ---------------------------------------------------------------------------------------------
// container
// ---------------------------------------------------------------------------------------------

/// the specification: an insertion-ordered map, as a plain vector
#[derive(Clone, Default)]
struct Ref(Vec<(u64, i64)>);

impl Ref {
    fn insert(&mut self, k: u64, v: i64) -> Option<i64> {
        for e in self.0.iter_mut() {
            if e.0 == k {
                let old = e.1;
                e.1 = v;
                return Some(old);
            }
        }
        self.0.push((k, v));
        None
    }
    fn get(&self, k: u64) -> Option<i64> {
        self.0.iter().find(|e| e.0 == k).map(|e| e.1)
    }
    fn index(&self, k: u64) -> Option<usize> {
        self.0.iter().position(|e| e.0 == k)
    }
}

#[derive(Clone, Debug)]
enum Init {
    Empty,
    New(Vec<(u64, i64)>),
    From(Vec<(u64, i64)>),
    FromIter(Vec<(u64, i64)>),
}

/// `IndexedEntry`'s fields are private: read them from the derived `Debug` text
/// (`IndexedEntry { v: -5, index: 3 }`)
fn entry_parts<T: std::fmt::Debug>(e: &T) -> (String, usize) {
    let s = format!("{:?}", e);
    let v = s.split("v: ").nth(1).and_then(|r| r.split(", index: ").next()).unwrap_or("?").to_string();
    let i = s
        .split(", index: ")
        .nth(1)
        .map(|r| r.trim_end_matches(|c: char| !c.is_ascii_digit()))
        .and_then(|r| r.parse::<usize>().ok())
        .unwrap_or(usize::MAX);
    (v, i)
}

/// inside every run of consecutive items with the same sort key, order by key
fn canon_runs(items: Vec<(usize, u64, String)>) -> Vec<String> {
    let mut out = vec![];
    let mut i = 0;
    while i < items.len() {
        let mut j = i + 1;
        while j < items.len() && items[j].0 == items[i].0 {
            j += 1;
        }
        let mut run: Vec<(u64, String)> = items[i..j].iter().map(|x| (x.1, x.2.clone())).collect();
        run.sort_by_key(|x| x.0);
        out.extend(run.into_iter().map(|x| x.1));
        i = j;
    }
    out
}

fn list_s(xs: &[String]) -> String {
    let mut v = vec![xs.len().to_string()];
    v.extend(xs.iter().cloned());
    v.join(" ")
}

struct Obs {
    len: usize,
    get: Vec<Option<i64>>,
    idx: Vec<Option<usize>>,
    has: Vec<bool>,
    pair: Vec<Option<(u64, i64)>>,
    keys: Vec<u64>,
    iter: Vec<(u64, i64)>,
    vec: Vec<(u64, String, usize)>,
    iiter: Vec<(usize, u64, i64)>,
    into: Vec<(u64, String, usize)>,
    empty: bool,
}

fn observe(u: u64, m: &Map) -> Obs {
    let len = m.len();
    Obs {
        len,
        empty: m.is_empty(),
        get: (0..u).map(|k| m.get(&k).copied()).collect(),
        idx: (0..u).map(|k| m.get_index(&k)).collect(),
        has: (0..u).map(|k| m.contains_key(&k)).collect(),
        pair: (0..len + 3).map(|i| m.get_pair(i).map(|(k, v)| (*k, *v))).collect(),
        keys: m.keys().copied().collect(),
        iter: m.iter().map(|(k, v)| (*k, *v)).collect(),
        vec: m
            .to_vec()
            .iter()
            .map(|(k, e)| {
                let (v, i) = entry_parts(e);
                (*k, v, i)
            })
            .collect(),
        iiter: m.indexed_iter().map(|(i, (k, v))| (i, *k, *v)).collect(),
        into: m
            .clone()
            .into_iter()
            .map(|(k, e)| {
                let (v, i) = entry_parts(&e);
                (k, v, i)
            })
            .collect(),
    }
}

fn snapshot(o: &Obs) -> String {
    let mult = |i: usize| o.idx.iter().filter(|x| **x == Some(i)).count();
    let amb = |i: usize| mult(i) > 1;
    let opt = |x: &Option<String>| x.clone().unwrap_or_else(|| "-".to_string());
    let get: Vec<String> = o.get.iter().map(|x| opt(&x.map(|v| v.to_string()))).collect();
    let idx: Vec<String> = o.idx.iter().map(|x| opt(&x.map(|v| v.to_string()))).collect();
    let has: Vec<String> = o.has.iter().map(|x| if *x { "1".to_string() } else { "0".to_string() }).collect();
    let pair: Vec<String> = o
        .pair
        .iter()
        .enumerate()
        .map(|(i, p)| if amb(i) { "amb".to_string() } else { opt(&p.map(|(k, v)| format!("{}:{}", k, v))) })
        .collect();
    let keys = canon_runs(
        o.keys
            .iter()
            .map(|k| (o.idx.get(*k as usize).copied().flatten().unwrap_or(0), *k, k.to_string()))
            .collect(),
    );
    let iter: Vec<String> = o
        .iter
        .iter()
        .enumerate()
        .map(|(i, (k, v))| if amb(i) { "amb".to_string() } else { format!("{}:{}", k, v) })
        .collect();
    let vec: Vec<String> = o
        .vec
        .iter()
        .enumerate()
        .map(|(i, (k, v, ix))| if amb(i) { "amb".to_string() } else { format!("{}:{}:{}", k, v, ix) })
        .collect();
    let iiter: Vec<String> = o
        .iiter
        .iter()
        .map(|(i, k, v)| if amb(*i) { format!("{}:amb", i) } else { format!("{}:{}:{}", i, k, v) })
        .collect();
    let into = canon_runs(o.into.iter().map(|(k, v, ix)| (*ix, *k, format!("{}:{}:{}", k, v, ix))).collect());
    format!(
        "| len {} emp {} get {} idx {} has {} pair {} keys {} iter {} vec {} iiter {} into {}",
        o.len,
        if o.empty { 1 } else { 0 },
        get.join(" "),
        idx.join(" "),
        has.join(" "),
        pair.join(" "),
        list_s(&keys),
        list_s(&iter),
        list_s(&vec),
        list_s(&iiter),
        list_s(&into)
    )
    // `get`/`idx`/`has` are empty strings when the universe is empty; tokens are split on runs of
    // blanks on the Lean side and the comparison is done after the same normalisation below
}

fn norm(s: String) -> String {
    s.split_whitespace().collect::<Vec<_>>().join(" ")
}

/// the executable statement of the property for the container: every observation equals the one of
/// the `Vec`-based insertion-ordered map
fn check_against_ref(o: &Obs, r: &Ref, u: u64) -> Option<String> {
    let n = r.0.len();
    if o.len != n {
        return Some(format!("len {} expected {}", o.len, n));
    }
    if o.empty != (n == 0) {
        return Some(format!("is_empty {} with {} entries", o.empty, n));
    }
    for k in 0..u {
        if o.get[k as usize] != r.get(k) {
            return Some(format!("get({}) = {:?} expected {:?}", k, o.get[k as usize], r.get(k)));
        }
        if o.idx[k as usize] != r.index(k) {
            return Some(format!("get_index({}) = {:?} expected {:?}", k, o.idx[k as usize], r.index(k)));
        }
        if o.has[k as usize] != r.get(k).is_some() {
            return Some(format!("contains_key({}) = {}", k, o.has[k as usize]));
        }
    }
    for i in 0..n + 3 {
        let e = r.0.get(i).copied();
        if o.pair[i] != e {
            return Some(format!("get_pair({}) = {:?} expected {:?} (len {})", i, o.pair[i], e, n));
        }
    }
    let rk: Vec<u64> = r.0.iter().map(|e| e.0).collect();
    if o.keys != rk {
        return Some(format!("keys {:?} expected {:?}", o.keys, rk));
    }
    if o.iter != r.0 {
        return Some(format!("iter yields {} items {:?}, expected {} items {:?}", o.iter.len(), o.iter, n, r.0));
    }
    let rv: Vec<(u64, String, usize)> = r.0.iter().enumerate().map(|(i, e)| (e.0, e.1.to_string(), i)).collect();
    if o.vec != rv {
        return Some(format!("to_vec {:?} expected {:?}", o.vec, rv));
    }
    if o.into != rv {
        return Some(format!("into_iter {:?} expected {:?}", o.into, rv));
    }
    let ri: Vec<(usize, u64, i64)> = r.0.iter().enumerate().map(|(i, e)| (i, e.0, e.1)).collect();
    if o.iiter != ri {
        return Some(format!("indexed_iter {:?} expected {:?}", o.iiter, ri));
    }
    None
}

fn has_dup(es: &[(u64, i64)]) -> bool {
    let mut seen = std::collections::BTreeSet::new();
    es.iter().any(|e| !seen.insert(e.0))
}

fn entries_s(es: &[(u64, i64)]) -> String {
    let mut v = vec![es.len().to_string()];
    for (k, x) in es {
        v.push(k.to_string());
        v.push(x.to_string());
    }
    v.join(" ")
}

fn run_cont(ctx: &mut Ctx, idx: usize, u: u64, init: Init, ops: Vec<(u64, i64)>) {
    let case = format!(
        "cont {} {} {} {}",
        u,
        match &init {
            Init::Empty => "empty".to_string(),
            Init::New(es) => format!("new {}", entries_s(es)),
            Init::From(es) => format!("from {}", entries_s(es)),
            Init::FromIter(es) => format!("fromiter {}", entries_s(es)),
        },
        ops.len(),
        ops.iter().map(|(k, v)| format!("ins {} {}", k, v)).collect::<Vec<_>>().join(" ")
    );
    // oracle key: a history that starts from `new`/`From` with a repeated key is reported separately
    let (dup_new, init_name) = match &init {
        Init::New(es) => (has_dup(es), "new"),
        Init::From(es) => (has_dup(es), "from"),
        Init::FromIter(_) => (false, "from_iter"),
        Init::Empty => (false, "empty"),
    };
    let key = if dup_new { "container/new-duplicate-key" } else { "container/insertion-order" };
    ctx.count(&format!("cont_init_{}{}", init_name, if dup_new { "_dupkey" } else { "" }));
    let res = catch_unwind(AssertUnwindSafe(|| {
        let mut outs: Vec<String> = vec![];
        let mut fails: Vec<String> = vec![];
        let mut r = Ref::default();
        let mut m: Map = match &init {
            Init::Empty => Map::empty(),
            Init::New(es) => Map::new(es.clone()),
            Init::From(es) => Map::from(es.clone()),
            Init::FromIter(es) => es.iter().cloned().collect::<Map>(),
        };
        match &init {
            Init::Empty => {}
            Init::New(es) | Init::From(es) | Init::FromIter(es) => {
                for (k, v) in es {
                    r.insert(*k, *v);
                }
            }
        }
        let o = observe(u, &m);
        if let Some(msg) = check_against_ref(&o, &r, u) {
            fails.push(format!("after {}({:?}): {}", init_name, init, msg));
        }
        outs.push(snapshot(&o));
        let mut max_len = o.len;
        let mut n_over = 0usize;
        let mut n_over_big = 0usize;
        for (step, (k, v)) in ops.iter().enumerate() {
            let old = m.insert(*k, *v);
            let before = r.0.len();
            let rold = r.insert(*k, *v);
            if rold.is_some() {
                n_over += 1;
                if before >= 6 {
                    n_over_big += 1;
                }
            }
            let o = observe(u, &m);
            max_len = max_len.max(o.len);
            if fails.is_empty() {
                if old != rold {
                    fails.push(format!("insert #{} ({}, {}) returned {:?} expected {:?}", step, k, v, old, rold));
                } else if let Some(msg) = check_against_ref(&o, &r, u) {
                    fails.push(format!("after insert #{} ({}, {}) into {} entries: {}", step, k, v, before, msg));
                }
            }
            outs.push(format!(
                "r {} {}",
                old.map(|x| x.to_string()).unwrap_or_else(|| "-".to_string()),
                snapshot(&o)
            ));
        }
        (outs.join(" "), fails, max_len, n_over, n_over_big)
    }));
    match res {
        Ok((out, fails, max_len, n_over, n_over_big)) => {
            ctx.emit(idx, case.clone(), norm(out));
            ctx.count(match max_len {
                0 => "cont_maxlen_0",
                1..=4 => "cont_maxlen_1_4",
                5 => "cont_maxlen_5",
                6..=12 => "cont_maxlen_6_12",
                _ => "cont_maxlen_13_plus",
            });
            ctx.count_n("cont_inserts", ops.len() as u64);
            ctx.count_n("cont_overwrites", n_over as u64);
            ctx.count_n("cont_overwrites_at_size_6_plus", n_over_big as u64);
            if max_len >= 6 {
                ctx.nontrivial(&case);
            }
            if let Some(f) = fails.first() {
                ctx.fail(idx, key, f.clone());
            }
        }
        Err(_) => {
            ctx.emit(idx, case, "panic".to_string());
            ctx.fail(idx, "container/panic", "the container panicked".to_string());
        }
    }
}

fn gen_entries(rng: &mut Rng, u: u64, n: usize, distinct: bool) -> Vec<(u64, i64)> {
    let mut es: Vec<(u64, i64)> = vec![];
    if distinct {
        let mut ks: Vec<u64> = (0..u).collect();
        rng.shuffle(&mut ks);
        for k in ks.into_iter().take(n) {
            es.push((k, rng.range(-99, 99)));
        }
    } else {
        for _ in 0..n {
            es.push((rng.below(u as usize) as u64, rng.range(-99, 99)));
        }
    }
    es
}

fn container_cases(ctx: &mut Ctx) {
    // ---- corpus: witnesses of the repaired `insert` defect (index len+1) and of `new` with a repeated key
    let seq = |n: u64| -> Vec<(u64, i64)> { (0..n).map(|k| (k * 3 % 11, 100 + k as i64)).collect() };
    let corpus: Vec<(u64, Init, Vec<(u64, i64)>)> = vec![
        // 8 distinct inserts, then every accessor
        (11, Init::Empty, seq(8)),
        // 6 inserts: the first insert into the five-entry HashMap
        (11, Init::Empty, seq(6)),
        // overwrites at size >= 6 (sixth key, first key, last key), then two more new keys
        (11, Init::Empty, {
            let mut v = seq(7);
            v.extend([(seq(7)[5].0, -1), (seq(7)[0].0, -2), (seq(7)[6].0, -3), (9, 7), (10, 8)]);
            v
        }),
        // new with 8 distinct entries, then new keys and an overwrite
        (12, Init::New(seq(8)), vec![(11, 1), (10, 2), (seq(8)[6].0, 3)]),
        // new with exactly 5 distinct entries (first NEntries size), then inserts
        (12, Init::New(seq(5)), vec![(11, 1), (10, 2)]),
        (12, Init::From(seq(4)), vec![(11, 1), (10, 2), (7, 5)]),
        // from_iter with 10 entries, two of them overwrites
        (11, Init::FromIter({
            let mut v = seq(8);
            v.extend([(seq(8)[6].0, 5), (seq(8)[1].0, 6)]);
            v
        }), vec![(10, 1)]),
        // `new` with a repeated key: falls into the NEntries arm with a gap in the indices
        (3, Init::New(vec![(1, 10), (1, 20)]), vec![]),
        (3, Init::New(vec![(0, 10), (0, 20), (1, 30)]), vec![(2, 40)]),
        (8, Init::New(vec![(0, 1), (1, 2), (2, 3), (3, 4), (1, 5), (5, 6)]), vec![(6, 7), (7, 8)]),
        (3, Init::From(vec![(2, 1), (0, 2), (2, 3)]), vec![]),
    ];
    for (u, init, ops) in corpus {
        let Some(idx) = ctx.begin() else { continue };
        ctx.count("cont_corpus");
        run_cont(ctx, idx, u, init, ops);
    }
    // ---- generated histories
    let n = ctx.n(700, 20000);
    for _ in 0..n {
        let Some(idx) = ctx.begin() else { continue };
        let mut rng = Rng::for_case(ctx.seed, 11, idx as u64);
        let u: u64 = match rng.below(10) {
            0 => rng.below(3) as u64,
            1..=3 => 1 + rng.below(8) as u64,
            _ => 6 + rng.below(35) as u64,
        };
        let init = if u == 0 {
            Init::Empty
        } else {
            let n_init = match rng.below(4) {
                0 => rng.below(5),
                1 => 4 + rng.below(4),
                _ => rng.below(14),
            };
            let distinct = rng.chance(1, 2);
            let small_u = 1 + rng.below(u as usize) as u64;
            let n_dup = 2 + rng.below(7);
            match rng.below(20) {
                0..=7 => Init::Empty,
                8..=11 => Init::New(gen_entries(&mut rng, u, n_init.min(u as usize), true)),
                12..=13 => Init::From(gen_entries(&mut rng, u, n_init.min(u as usize), true)),
                14..=16 => Init::FromIter(gen_entries(&mut rng, u, if distinct { n_init.min(u as usize) } else { n_init }, distinct)),
                // `new` / `From` with (most likely) a repeated key
                17..=18 => Init::New(gen_entries(&mut rng, small_u, n_dup, false)),
                _ => Init::From(gen_entries(&mut rng, small_u, n_dup, false)),
            }
        };
        let n_ops = if u == 0 { 0 } else { match rng.below(5) { 0 => rng.below(6), 1 => 5 + rng.below(4), _ => rng.below(46) } };
        let mut present: Vec<u64> = match &init {
            Init::Empty => vec![],
            Init::New(es) | Init::From(es) | Init::FromIter(es) => es.iter().map(|e| e.0).collect(),
        };
        let mut ops = vec![];
        for _ in 0..n_ops {
            let k = if !present.is_empty() && rng.chance(35, 100) {
                *rng.pick(&present)
            } else {
                rng.below(u as usize) as u64
            };
            present.push(k);
            ops.push((k, rng.range(-99, 99)));
        }
        run_cont(ctx, idx, u, init, ops);
    }
}

pub fn run(ctx: &mut Ctx) -> &'static str {
    container_cases(ctx);
    let _ = fbits;
    "container: operation histories (empty/new/From/from_iter, then inserts of new keys and overwrites) over universes of 0..40 keys, every accessor observed after every operation; non-trivial = distinct history in which the container holds 6 or more entries at some point (beyond every small-size representation); distinct by full case text"
}
