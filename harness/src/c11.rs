//! C11 — every state feature owns exactly one state-vector slot, at any feature count.
//! (a) container: operation histories on the real `CompactOrderedHashMap<u64, i64>` (empty / new /
//!     From<Vec> / from_iter, then inserts of new keys and overwrites, 0..40 keys), and after EVERY
//!     operation every accessor (len, is_empty, get / get_index / contains_key of every key of the
//!     universe, get_pair of every index 0..len+2, keys, iter, to_vec, indexed_iter, into_iter),
//!     textually against the Lean model.  Oracle: the same observations against a plain `Vec`-based
//!     insertion-ordered map written here.
//! (b) state model and (c) collect_features + extend: see below.
use crate::ctx::{fbits, Ctx};
use crate::rng::Rng;
use routee_compass_core::util::compact_ordered_hash_map::CompactOrderedHashMap;
use std::panic::{catch_unwind, AssertUnwindSafe};

type Map = CompactOrderedHashMap<u64, i64>;

// ---------------------------------------------------------------------------------------------
// container
// ---------------------------------------------------------------------------------------------

/// the specification: an insertion-ordered map, as a plain vector
#[derive(Clone, Default)]
struct Ref(Vec<(u64, i64)>);

impl Ref {
    fn insert(&mut self, k: u64, v: i64) -> Option<i64> {
        for e in self.0.iter_mut() {
            if e.0 == k {
                let old = e.1;
                e.1 = v;
                return Some(old);
            }
        }
        self.0.push((k, v));
        None
    }
    fn get(&self, k: u64) -> Option<i64> {
        self.0.iter().find(|e| e.0 == k).map(|e| e.1)
    }
    fn index(&self, k: u64) -> Option<usize> {
        self.0.iter().position(|e| e.0 == k)
    }
}

#[derive(Clone, Debug)]
enum Init {
    Empty,
    New(Vec<(u64, i64)>),
    From(Vec<(u64, i64)>),
    FromIter(Vec<(u64, i64)>),
}

/// `IndexedEntry`'s fields are private: read them from the derived `Debug` text
/// (`IndexedEntry { v: -5, index: 3 }`)
fn entry_parts<T: std::fmt::Debug>(e: &T) -> (String, usize) {
    let s = format!("{:?}", e);
    let v = s.split("v: ").nth(1).and_then(|r| r.split(", index: ").next()).unwrap_or("?").to_string();
    let i = s
        .split(", index: ")
        .nth(1)
        .map(|r| r.trim_end_matches(|c: char| !c.is_ascii_digit()))
        .and_then(|r| r.parse::<usize>().ok())
        .unwrap_or(usize::MAX);
    (v, i)
}

fn list_s(xs: &[String]) -> String {
    let mut v = vec![xs.len().to_string()];
    v.extend(xs.iter().cloned());
    v.join(" ")
}

struct Obs {
    len: usize,
    get: Vec<Option<i64>>,
    idx: Vec<Option<usize>>,
    has: Vec<bool>,
    pair: Vec<Option<(u64, i64)>>,
    keys: Vec<u64>,
    iter: Vec<(u64, i64)>,
    vec: Vec<(u64, String, usize)>,
    iiter: Vec<(usize, u64, i64)>,
    into: Vec<(u64, String, usize)>,
    empty: bool,
}

fn observe(u: u64, m: &Map) -> Obs {
    let len = m.len();
    Obs {
        len,
        empty: m.is_empty(),
        get: (0..u).map(|k| m.get(&k).copied()).collect(),
        idx: (0..u).map(|k| m.get_index(&k)).collect(),
        has: (0..u).map(|k| m.contains_key(&k)).collect(),
        pair: (0..len + 3).map(|i| m.get_pair(i).map(|(k, v)| (*k, *v))).collect(),
        keys: m.keys().copied().collect(),
        iter: m.iter().map(|(k, v)| (*k, *v)).collect(),
        vec: m
            .to_vec()
            .iter()
            .map(|(k, e)| {
                let (v, i) = entry_parts(e);
                (*k, v, i)
            })
            .collect(),
        iiter: m.indexed_iter().map(|(i, (k, v))| (i, *k, *v)).collect(),
        into: m
            .clone()
            .into_iter()
            .map(|(k, e)| {
                let (v, i) = entry_parts(&e);
                (k, v, i)
            })
            .collect(),
    }
}

fn snapshot(o: &Obs) -> String {
    let opt = |x: &Option<String>| x.clone().unwrap_or_else(|| "-".to_string());
    let get: Vec<String> = o.get.iter().map(|x| opt(&x.map(|v| v.to_string()))).collect();
    let idx: Vec<String> = o.idx.iter().map(|x| opt(&x.map(|v| v.to_string()))).collect();
    let has: Vec<String> = o.has.iter().map(|x| if *x { "1".to_string() } else { "0".to_string() }).collect();
    let pair: Vec<String> = o.pair.iter().map(|p| opt(&p.map(|(k, v)| format!("{}:{}", k, v)))).collect();
    let keys: Vec<String> = o.keys.iter().map(|k| k.to_string()).collect();
    let iter: Vec<String> = o.iter.iter().map(|(k, v)| format!("{}:{}", k, v)).collect();
    let vec: Vec<String> = o.vec.iter().map(|(k, v, ix)| format!("{}:{}:{}", k, v, ix)).collect();
    let iiter: Vec<String> = o.iiter.iter().map(|(i, k, v)| format!("{}:{}:{}", i, k, v)).collect();
    let into: Vec<String> = o.into.iter().map(|(k, v, ix)| format!("{}:{}:{}", k, v, ix)).collect();
    // (`get`/`idx`/`has` are empty strings when the universe is empty; both sides normalise blanks)
    format!(
        "| len {} emp {} get {} idx {} has {} pair {} keys {} iter {} vec {} iiter {} into {}",
        o.len,
        if o.empty { 1 } else { 0 },
        get.join(" "),
        idx.join(" "),
        has.join(" "),
        pair.join(" "),
        list_s(&keys),
        list_s(&iter),
        list_s(&vec),
        list_s(&iiter),
        list_s(&into)
    )
}

fn norm(s: String) -> String {
    s.split_whitespace().collect::<Vec<_>>().join(" ")
}

/// the executable statement of the property for the container: every observation equals the one of
/// the `Vec`-based insertion-ordered map
fn check_against_ref(o: &Obs, r: &Ref, u: u64) -> Option<String> {
    let n = r.0.len();
    if o.len != n {
        return Some(format!("len {} expected {}", o.len, n));
    }
    if o.empty != (n == 0) {
        return Some(format!("is_empty {} with {} entries", o.empty, n));
    }
    for k in 0..u {
        if o.get[k as usize] != r.get(k) {
            return Some(format!("get({}) = {:?} expected {:?}", k, o.get[k as usize], r.get(k)));
        }
        if o.idx[k as usize] != r.index(k) {
            return Some(format!("get_index({}) = {:?} expected {:?}", k, o.idx[k as usize], r.index(k)));
        }
        if o.has[k as usize] != r.get(k).is_some() {
            return Some(format!("contains_key({}) = {}", k, o.has[k as usize]));
        }
    }
    for i in 0..n + 3 {
        let e = r.0.get(i).copied();
        if o.pair[i] != e {
            return Some(format!("get_pair({}) = {:?} expected {:?} (len {})", i, o.pair[i], e, n));
        }
    }
    let rk: Vec<u64> = r.0.iter().map(|e| e.0).collect();
    if o.keys != rk {
        return Some(format!("keys {:?} expected {:?}", o.keys, rk));
    }
    if o.iter != r.0 {
        return Some(format!("iter yields {} items {:?}, expected {} items {:?}", o.iter.len(), o.iter, n, r.0));
    }
    let rv: Vec<(u64, String, usize)> = r.0.iter().enumerate().map(|(i, e)| (e.0, e.1.to_string(), i)).collect();
    if o.vec != rv {
        return Some(format!("to_vec {:?} expected {:?}", o.vec, rv));
    }
    if o.into != rv {
        return Some(format!("into_iter {:?} expected {:?}", o.into, rv));
    }
    let ri: Vec<(usize, u64, i64)> = r.0.iter().enumerate().map(|(i, e)| (i, e.0, e.1)).collect();
    if o.iiter != ri {
        return Some(format!("indexed_iter {:?} expected {:?}", o.iiter, ri));
    }
    None
}

fn has_dup(es: &[(u64, i64)]) -> bool {
    let mut seen = std::collections::BTreeSet::new();
    es.iter().any(|e| !seen.insert(e.0))
}

fn entries_s(es: &[(u64, i64)]) -> String {
    let mut v = vec![es.len().to_string()];
    for (k, x) in es {
        v.push(k.to_string());
        v.push(x.to_string());
    }
    v.join(" ")
}

fn run_cont(ctx: &mut Ctx, idx: usize, u: u64, init: Init, ops: Vec<(u64, i64)>) {
    let case = format!(
        "cont {} {} {} {}",
        u,
        match &init {
            Init::Empty => "empty".to_string(),
            Init::New(es) => format!("new {}", entries_s(es)),
            Init::From(es) => format!("from {}", entries_s(es)),
            Init::FromIter(es) => format!("fromiter {}", entries_s(es)),
        },
        ops.len(),
        ops.iter().map(|(k, v)| format!("ins {} {}", k, v)).collect::<Vec<_>>().join(" ")
    );
    // oracle key: a history that starts from `new`/`From` with a repeated key is reported under the key of
    // the defect repaired in /repo 6da9498 (the reference is the same insertion-ordered map: first position,
    // last value), so a regression of that repair is reported under its own key again
    let (dup_new, init_name) = match &init {
        Init::New(es) => (has_dup(es), "new"),
        Init::From(es) => (has_dup(es), "from"),
        Init::FromIter(_) => (false, "from_iter"),
        Init::Empty => (false, "empty"),
    };
    let key = if dup_new { "container/new-duplicate-key" } else { "container/insertion-order" };
    ctx.count(&format!("cont_init_{}{}", init_name, if dup_new { "_dupkey" } else { "" }));
    let res = catch_unwind(AssertUnwindSafe(|| {
        let mut outs: Vec<String> = vec![];
        let mut fails: Vec<String> = vec![];
        let mut r = Ref::default();
        let mut m: Map = match &init {
            Init::Empty => Map::empty(),
            Init::New(es) => Map::new(es.clone()),
            Init::From(es) => Map::from(es.clone()),
            Init::FromIter(es) => es.iter().cloned().collect::<Map>(),
        };
        match &init {
            Init::Empty => {}
            Init::New(es) | Init::From(es) | Init::FromIter(es) => {
                for (k, v) in es {
                    r.insert(*k, *v);
                }
            }
        }
        let o = observe(u, &m);
        if let Some(msg) = check_against_ref(&o, &r, u) {
            fails.push(format!("after {}({:?}): {}", init_name, init, msg));
        }
        outs.push(snapshot(&o));
        let mut max_len = o.len;
        let mut n_over = 0usize;
        let mut n_over_big = 0usize;
        for (step, (k, v)) in ops.iter().enumerate() {
            let old = m.insert(*k, *v);
            let before = r.0.len();
            let rold = r.insert(*k, *v);
            if rold.is_some() {
                n_over += 1;
                if before >= 6 {
                    n_over_big += 1;
                }
            }
            let o = observe(u, &m);
            max_len = max_len.max(o.len);
            if fails.is_empty() {
                if old != rold {
                    fails.push(format!("insert #{} ({}, {}) returned {:?} expected {:?}", step, k, v, old, rold));
                } else if let Some(msg) = check_against_ref(&o, &r, u) {
                    fails.push(format!("after insert #{} ({}, {}) into {} entries: {}", step, k, v, before, msg));
                }
            }
            outs.push(format!(
                "r {} {}",
                old.map(|x| x.to_string()).unwrap_or_else(|| "-".to_string()),
                snapshot(&o)
            ));
        }
        (outs.join(" "), fails, max_len, n_over, n_over_big)
    }));
    match res {
        Ok((out, fails, max_len, n_over, n_over_big)) => {
            ctx.emit(idx, case.clone(), norm(out));
            ctx.count(match max_len {
                0 => "cont_maxlen_0",
                1..=4 => "cont_maxlen_1_4",
                5 => "cont_maxlen_5",
                6..=12 => "cont_maxlen_6_12",
                _ => "cont_maxlen_13_plus",
            });
            ctx.count_n("cont_inserts", ops.len() as u64);
            ctx.count_n("cont_overwrites", n_over as u64);
            ctx.count_n("cont_overwrites_at_size_6_plus", n_over_big as u64);
            if max_len >= 6 {
                ctx.nontrivial(&case);
            }
            if let Some(f) = fails.first() {
                ctx.fail(idx, key, f.clone());
            }
        }
        Err(_) => {
            ctx.emit(idx, case, "panic".to_string());
            ctx.fail(idx, "container/panic", "the container panicked".to_string());
        }
    }
}

fn gen_entries(rng: &mut Rng, u: u64, n: usize, distinct: bool) -> Vec<(u64, i64)> {
    let mut es: Vec<(u64, i64)> = vec![];
    if distinct {
        let mut ks: Vec<u64> = (0..u).collect();
        rng.shuffle(&mut ks);
        for k in ks.into_iter().take(n) {
            es.push((k, rng.range(-99, 99)));
        }
    } else {
        for _ in 0..n {
            es.push((rng.below(u as usize) as u64, rng.range(-99, 99)));
        }
    }
    es
}

fn container_cases(ctx: &mut Ctx) {
    // ---- corpus: witnesses of the two repaired defects: `insert` (index len+1) and `new` with a repeated key
    let seq = |n: u64| -> Vec<(u64, i64)> { (0..n).map(|k| (k * 3 % 11, 100 + k as i64)).collect() };
    let corpus: Vec<(u64, Init, Vec<(u64, i64)>)> = vec![
        // 8 distinct inserts, then every accessor
        (11, Init::Empty, seq(8)),
        // 6 inserts: the first insert into the five-entry HashMap
        (11, Init::Empty, seq(6)),
        // overwrites at size >= 6 (sixth key, first key, last key), then two more new keys
        (11, Init::Empty, {
            let mut v = seq(7);
            v.extend([(seq(7)[5].0, -1), (seq(7)[0].0, -2), (seq(7)[6].0, -3), (9, 7), (10, 8)]);
            v
        }),
        // new with 8 distinct entries, then new keys and an overwrite
        (12, Init::New(seq(8)), vec![(11, 1), (10, 2), (seq(8)[6].0, 3)]),
        // new with exactly 5 distinct entries (first NEntries size), then inserts
        (12, Init::New(seq(5)), vec![(11, 1), (10, 2)]),
        (12, Init::From(seq(4)), vec![(11, 1), (10, 2), (7, 5)]),
        // from_iter with 10 entries, two of them overwrites
        (11, Init::FromIter({
            let mut v = seq(8);
            v.extend([(seq(8)[6].0, 5), (seq(8)[1].0, 6)]);
            v
        }), vec![(10, 1)]),
        // `new` with a repeated key (used to fall into the NEntries arm with a gap in the indices)
        (3, Init::New(vec![(1, 10), (1, 20)]), vec![]),
        (3, Init::New(vec![(0, 10), (0, 20), (1, 30)]), vec![(2, 40)]),
        (8, Init::New(vec![(0, 1), (1, 2), (2, 3), (3, 4), (1, 5), (5, 6)]), vec![(6, 7), (7, 8)]),
        (3, Init::From(vec![(2, 1), (0, 2), (2, 3)]), vec![]),
    ];
    for (u, init, ops) in corpus {
        let Some(idx) = ctx.begin() else { continue };
        ctx.count("cont_corpus");
        run_cont(ctx, idx, u, init, ops);
    }
    // ---- generated histories
    let n = ctx.n(3000, 60000);
    for _ in 0..n {
        let Some(idx) = ctx.begin() else { continue };
        let mut rng = Rng::for_case(ctx.seed, 11, idx as u64);
        let u: u64 = match rng.below(10) {
            0 => rng.below(3) as u64,
            1..=3 => 1 + rng.below(8) as u64,
            _ => 6 + rng.below(35) as u64,
        };
        let init = if u == 0 {
            Init::Empty
        } else {
            let n_init = match rng.below(4) {
                0 => rng.below(5),
                1 => 4 + rng.below(4),
                _ => rng.below(14),
            };
            let distinct = rng.chance(1, 2);
            let small_u = 1 + rng.below(u as usize) as u64;
            let n_dup = 2 + rng.below(7);
            match rng.below(20) {
                0..=7 => Init::Empty,
                8..=11 => Init::New(gen_entries(&mut rng, u, n_init.min(u as usize), true)),
                12..=13 => Init::From(gen_entries(&mut rng, u, n_init.min(u as usize), true)),
                14..=16 => Init::FromIter(gen_entries(&mut rng, u, if distinct { n_init.min(u as usize) } else { n_init }, distinct)),
                // `new` / `From` with (most likely) a repeated key
                17..=18 => Init::New(gen_entries(&mut rng, small_u, n_dup, false)),
                _ => Init::From(gen_entries(&mut rng, small_u, n_dup, false)),
            }
        };
        let n_ops = if u == 0 { 0 } else { match rng.below(5) { 0 => rng.below(6), 1 => 5 + rng.below(4), _ => rng.below(46) } };
        let mut present: Vec<u64> = match &init {
            Init::Empty => vec![],
            Init::New(es) | Init::From(es) | Init::FromIter(es) => es.iter().map(|e| e.0).collect(),
        };
        let mut ops = vec![];
        for _ in 0..n_ops {
            let k = if !present.is_empty() && rng.chance(35, 100) {
                *rng.pick(&present)
            } else {
                rng.below(u as usize) as u64
            };
            present.push(k);
            ops.push((k, rng.range(-99, 99)));
        }
        run_cont(ctx, idx, u, init, ops);
    }
}

// ---------------------------------------------------------------------------------------------
// state model
// ---------------------------------------------------------------------------------------------
use routee_compass_core::model::state::{
    custom_feature_format::CustomFeatureFormat, state_feature::StateFeature, state_model::StateModel,
    state_model_error::StateModelError,
};
use routee_compass_core::model::traversal::state::state_variable::StateVar;
use routee_compass_core::model::unit::as_f64::AsF64;
use routee_compass_core::model::unit::{Distance, DistanceUnit, Energy, EnergyUnit, Time, TimeUnit};

const DU: [DistanceUnit; 5] =
    [DistanceUnit::Meters, DistanceUnit::Kilometers, DistanceUnit::Miles, DistanceUnit::Inches, DistanceUnit::Feet];
const TU: [TimeUnit; 4] = [TimeUnit::Hours, TimeUnit::Minutes, TimeUnit::Seconds, TimeUnit::Milliseconds];
const EU: [EnergyUnit; 3] = [EnergyUnit::GallonsGasoline, EnergyUnit::GallonsDiesel, EnergyUnit::KilowattHours];

#[derive(Clone, Debug)]
enum Feat {
    D(DistanceUnit, f64),
    T(TimeUnit, f64),
    E(EnergyUnit, f64),
    CF(String, String, f64),
    CI(String, String, i64),
    CU(String, String, u64),
    CB(String, String, bool),
}

impl Feat {
    fn to_sf(&self) -> StateFeature {
        match self {
            Feat::D(u, i) => StateFeature::Distance { distance_unit: *u, initial: Distance::new(*i) },
            Feat::T(u, i) => StateFeature::Time { time_unit: *u, initial: Time::new(*i) },
            Feat::E(u, i) => StateFeature::Energy { energy_unit: *u, initial: Energy::new(*i) },
            Feat::CF(t, u, i) => StateFeature::Custom {
                r#type: t.clone(),
                unit: u.clone(),
                format: CustomFeatureFormat::FloatingPoint { initial: (*i).into() },
            },
            Feat::CI(t, u, i) => StateFeature::Custom {
                r#type: t.clone(),
                unit: u.clone(),
                format: CustomFeatureFormat::SignedInteger { initial: *i },
            },
            Feat::CU(t, u, i) => StateFeature::Custom {
                r#type: t.clone(),
                unit: u.clone(),
                format: CustomFeatureFormat::UnsignedInteger { initial: *i },
            },
            Feat::CB(t, u, i) => StateFeature::Custom {
                r#type: t.clone(),
                unit: u.clone(),
                format: CustomFeatureFormat::Boolean { initial: *i },
            },
        }
    }
    /// protocol text
    fn text(&self) -> String {
        match self {
            Feat::D(u, i) => format!("d {} {}", u, i.to_bits()),
            Feat::T(u, i) => format!("t {} {}", u, i.to_bits()),
            Feat::E(u, i) => format!("e {} {}", u, i.to_bits()),
            Feat::CF(t, u, i) => format!("c {} {} f {}", t, u, i.to_bits()),
            Feat::CI(t, u, i) => format!("c {} {} i {}", t, u, i),
            Feat::CU(t, u, i) => format!("c {} {} u {}", t, u, i),
            Feat::CB(t, u, i) => format!("c {} {} b {}", t, u, if *i { 1 } else { 0 }),
        }
    }
    /// the value the initial state must hold for this feature (written independently of the code)
    fn initial(&self) -> f64 {
        match self {
            Feat::D(_, i) | Feat::T(_, i) | Feat::E(_, i) | Feat::CF(_, _, i) => *i,
            Feat::CI(_, _, i) => *i as f64,
            Feat::CU(_, _, i) => *i as f64,
            Feat::CB(_, _, i) => {
                if *i {
                    1.0
                } else {
                    0.0
                }
            }
        }
    }
    /// `StateFeature == StateFeature` as documented: same kind; custom: same type and unit names
    fn same_kind(&self, o: &Feat) -> bool {
        match (self, o) {
            (Feat::D(..), Feat::D(..)) | (Feat::T(..), Feat::T(..)) | (Feat::E(..), Feat::E(..)) => true,
            // custom features: same type, same unit and same format
            (Feat::CF(t, u, _), Feat::CF(t2, u2, _))
            | (Feat::CI(t, u, _), Feat::CI(t2, u2, _))
            | (Feat::CU(t, u, _), Feat::CU(t2, u2, _))
            | (Feat::CB(t, u, _), Feat::CB(t2, u2, _)) => t == t2 && u == u2,
            _ => false,
        }
    }
}

fn feat_s(f: &StateFeature) -> String {
    match f {
        StateFeature::Distance { distance_unit, initial } => format!("d:{}:{}", distance_unit, fbits(initial.as_f64())),
        StateFeature::Time { time_unit, initial } => format!("t:{}:{}", time_unit, fbits(initial.as_f64())),
        StateFeature::Energy { energy_unit, initial } => format!("e:{}:{}", energy_unit, fbits(initial.as_f64())),
        StateFeature::Custom { r#type, unit, format } => match format {
            CustomFeatureFormat::FloatingPoint { initial } => format!("c:{}:{}:f:{}", r#type, unit, fbits(initial.0)),
            CustomFeatureFormat::SignedInteger { initial } => format!("c:{}:{}:i:{}", r#type, unit, initial),
            CustomFeatureFormat::UnsignedInteger { initial } => format!("c:{}:{}:u:{}", r#type, unit, initial),
            CustomFeatureFormat::Boolean { initial } => format!("c:{}:{}:b:{}", r#type, unit, if *initial { 1 } else { 0 }),
        },
    }
}

fn err_s(e: &StateModelError) -> &'static str {
    match e {
        StateModelError::EncodeError(..) => "enc",
        StateModelError::DecodeError(..) => "dec",
        StateModelError::ValueError(..) => "val",
        StateModelError::UnknownStateVariableName(..) => "unk",
        StateModelError::InvalidStateVariableIndex(..) => "idx",
        StateModelError::UnexpectedFeatureType(..) => "ftype",
        StateModelError::UnexpectedFeatureUnit(..) => "funit",
        StateModelError::BuildError(..) => "build",
        StateModelError::RuntimeError(..) => "rt",
    }
}

fn state_s(st: &[StateVar]) -> String {
    list_s(&st.iter().map(|x| fbits(x.0)).collect::<Vec<_>>())
}

fn feats_text(fs: &[(String, Feat)]) -> String {
    let mut v = vec![fs.len().to_string()];
    for (n, f) in fs {
        v.push(n.clone());
        v.push(f.text());
    }
    v.join(" ")
}

#[derive(Clone, Debug)]
enum SmOp {
    Ext(Vec<(String, Feat)>),
    Init,
    State(Vec<f64>),
    GetD(String, DistanceUnit),
    GetT(String, TimeUnit),
    GetE(String, EnergyUnit),
    SetD(String, DistanceUnit, f64),
    SetT(String, TimeUnit, f64),
    SetE(String, EnergyUnit, f64),
    AddD(String, DistanceUnit, f64),
    AddT(String, TimeUnit, f64),
    AddE(String, EnergyUnit, f64),
    GetCF(String),
    GetCI(String),
    GetCU(String),
    GetCB(String),
    SetCF(String, f64),
    SetCI(String, i64),
    SetCU(String, u64),
    SetCB(String, bool),
    Delta(String),
    Ser,
}

impl SmOp {
    fn text(&self) -> String {
        match self {
            SmOp::Ext(fs) => format!("ext {}", feats_text(fs)),
            SmOp::Init => "init".to_string(),
            SmOp::State(xs) => format!("state {}", list_s(&xs.iter().map(|x| fbits(*x)).collect::<Vec<_>>())),
            SmOp::GetD(n, u) => format!("getd {} {}", n, u),
            SmOp::GetT(n, u) => format!("gett {} {}", n, u),
            SmOp::GetE(n, u) => format!("gete {} {}", n, u),
            SmOp::SetD(n, u, x) => format!("setd {} {} {}", n, u, fbits(*x)),
            SmOp::SetT(n, u, x) => format!("sett {} {} {}", n, u, fbits(*x)),
            SmOp::SetE(n, u, x) => format!("sete {} {} {}", n, u, fbits(*x)),
            SmOp::AddD(n, u, x) => format!("addd {} {} {}", n, u, fbits(*x)),
            SmOp::AddT(n, u, x) => format!("addt {} {} {}", n, u, fbits(*x)),
            SmOp::AddE(n, u, x) => format!("adde {} {} {}", n, u, fbits(*x)),
            SmOp::GetCF(n) => format!("getcf {}", n),
            SmOp::GetCI(n) => format!("getci {}", n),
            SmOp::GetCU(n) => format!("getcu {}", n),
            SmOp::GetCB(n) => format!("getcb {}", n),
            SmOp::SetCF(n, x) => format!("setcf {} {}", n, fbits(*x)),
            SmOp::SetCI(n, x) => format!("setci {} {}", n, x),
            SmOp::SetCU(n, x) => format!("setcu {} {}", n, x),
            SmOp::SetCB(n, x) => format!("setcb {} {}", n, if *x { 1 } else { 0 }),
            SmOp::Delta(n) => format!("delta {}", n),
            SmOp::Ser => "ser".to_string(),
        }
    }
}

fn model_s(u: usize, m: &StateModel) -> String {
    let names: Vec<String> = (0..u).map(|i| format!("f{}", i)).collect();
    let iter_feats: Vec<(String, String, String)> =
        m.iter().map(|(n, f)| (n.clone(), feat_s(f), format!("{:?}", f))).collect();
    let idx: Vec<String> =
        names.iter().map(|n| m.get_state_model_index(n)).collect();
    let has: Vec<String> = names.iter().map(|n| if m.contains_key(n) { "1".to_string() } else { "0".to_string() }).collect();
    let iter: Vec<String> = m.indexed_iter().map(|(i, (n, f))| format!("{}:{}:{}", i, n, feat_s(f))).collect();
    let vec: Vec<String> = m
        .to_vec()
        .iter()
        .map(|(n, e)| {
            // IndexedEntry's fields are private: index and feature are read from the Debug text
            let dbg = format!("{:?}", e);
            let index = dbg.rsplit(", index: ").next().map(|r| r.trim_end_matches(|c: char| !c.is_ascii_digit()).to_string()).unwrap_or_default();
            let vtxt = dbg.strip_prefix("IndexedEntry { v: ").and_then(|r| r.rsplit_once(", index: ")).map(|x| x.0.to_string()).unwrap_or_default();
            let fs = iter_feats.iter().find(|x| x.0 == *n && x.2 == vtxt).map(|x| x.1.clone()).unwrap_or_else(|| "?".to_string());
            format!("{}:{}:{}", n, index, fs)
        })
        .collect();
    let ssm = jb(&m.serialize_state_model());
    let names_joined = m.get_names();
    let names_list: Vec<String> = if names_joined.is_empty() { vec![] } else { names_joined.split(',').map(|x| x.to_string()).collect() };
    format!(
        "len {} emp {} names {} idx {} has {} iter {} vec {} ssm {}",
        m.len(),
        if m.is_empty() { 1 } else { 0 },
        list_s(&names_list),
        idx.join(" "),
        has.join(" "),
        list_s(&iter),
        list_s(&vec),
        ssm
    )
}

/// `StateModel` has no public `get_index`; the slot of a name is observable through `indexed_iter`
/// only when iteration is intact, so it is measured directly: write a marker through the public setter
/// of the feature's own kind into a long zero vector and see which entry changed.
trait SlotProbe {
    fn get_state_model_index(&self, name: &String) -> String;
    fn slot(&self, name: &String) -> Option<usize>;
}
impl SlotProbe for StateModel {
    fn slot(&self, name: &String) -> Option<usize> {
        let mut st = vec![StateVar(0.0); 64];
        let r = self
            .set_distance(&mut st, name, &Distance::new(1.0), &DistanceUnit::Meters)
            .or_else(|_| self.set_time(&mut st, name, &Time::new(1.0), &TimeUnit::Seconds))
            .or_else(|_| self.set_energy(&mut st, name, &Energy::new(1.0), &EnergyUnit::KilowattHours))
            .or_else(|_| self.set_custom_f64(&mut st, name, &1.0))
            .or_else(|_| self.set_custom_i64(&mut st, name, &1))
            .or_else(|_| self.set_custom_u64(&mut st, name, &1))
            .or_else(|_| self.set_custom_bool(&mut st, name, &true));
        match r {
            Ok(()) => st.iter().position(|x| x.0 != 0.0),
            Err(_) => None,
        }
    }
    fn get_state_model_index(&self, name: &String) -> String {
        self.slot(name).map(|i| i.to_string()).unwrap_or_else(|| "-".to_string())
    }
}

fn close_rel(a: f64, b: f64, rel: f64) -> bool {
    (a - b).abs() <= rel * a.abs().max(b.abs()) + 1e-300
}

/// reference: insertion-ordered list of (name, feature) — the slot of a name is its position
fn ref_extend(r: &[(String, Feat)], entries: &[(String, Feat)]) -> Option<Vec<(String, Feat)>> {
    let mut out = r.to_vec();
    let mut ok = true;
    for (n, f) in entries {
        if let Some(e) = out.iter_mut().find(|e| e.0 == *n) {
            if !e.1.same_kind(f) {
                ok = false;
            }
            e.1 = f.clone();
        } else {
            out.push((n.clone(), f.clone()));
        }
    }
    if ok {
        Some(out)
    } else {
        None
    }
}

fn check_model(m: &StateModel, r: &[(String, Feat)], u: usize) -> Option<(&'static str, String)> {
    let n = r.len();
    if m.len() != n {
        return Some(("state/slots-bijective", format!("len {} but {} distinct feature names", m.len(), n)));
    }
    let mut seen = vec![false; n];
    for (i, (name, _)) in r.iter().enumerate() {
        match m.slot(name) {
            Some(s) if s < n && !seen[s] => {
                seen[s] = true;
                if s != i {
                    return Some(("state/slots-bijective", format!("feature {} (declared {}th) has slot {}", name, i, s)));
                }
            }
            other => {
                return Some(("state/slots-bijective", format!("feature {} has slot {:?}; slots must be a permutation of 0..{}", name, other, n)));
            }
        }
    }
    for i in 0..u {
        let name = format!("f{}", i);
        if r.iter().all(|e| e.0 != name) && (m.slot(&name).is_some() || m.contains_key(&name)) {
            return Some(("state/slots-bijective", format!("undeclared feature {} has a slot", name)));
        }
    }
    let it: Vec<(usize, String)> = m.indexed_iter().map(|(i, (k, _))| (i, k.clone())).collect();
    let expect: Vec<(usize, String)> = r.iter().enumerate().map(|(i, e)| (i, e.0.clone())).collect();
    if it != expect {
        return Some(("state/slots-bijective", format!("indexed_iter {:?} expected {:?}", it, expect)));
    }
    match m.initial_state() {
        Ok(st) => {
            if st.len() != n {
                return Some(("state/initial-state", format!("initial state has {} entries for {} features", st.len(), n)));
            }
            for (i, (name, f)) in r.iter().enumerate() {
                if st[i].0.to_bits() != f.initial().to_bits() {
                    return Some(("state/initial-state", format!("slot {} ({}) starts at {} but the declared initial value is {}", i, name, st[i].0, f.initial())));
                }
            }
        }
        Err(e) => return Some(("state/initial-state", format!("initial_state failed: {}", e))),
    }
    None
}

fn run_sm(ctx: &mut Ctx, idx: usize, u: usize, feats: Vec<(String, Feat)>, ops: Vec<SmOp>) {
    run_sm_kind(ctx, idx, "sm", u, feats, ops)
}

/// kind: `sm` = `StateModel::new`, `smf` = `StateModel::from`, `sme` = `StateModel::empty()` (no features)
fn run_sm_kind(ctx: &mut Ctx, idx: usize, kind: &'static str, u: usize, feats: Vec<(String, Feat)>, ops: Vec<SmOp>) {
    let case = format!(
        "{} {} {} {} {}",
        kind,
        u,
        if kind == "sme" { String::new() } else { feats_text(&feats) },
        ops.len(),
        ops.iter().map(|o| o.text()).collect::<Vec<_>>().join(" ")
    );
    let dup_new = {
        let mut seen = std::collections::BTreeSet::new();
        feats.iter().any(|e| !seen.insert(e.0.clone()))
    };
    ctx.count(if dup_new { "sm_new_dupname" } else { "sm_new" });
    ctx.count(match feats.len() {
        0 => "sm_features_0",
        1..=4 => "sm_features_1_4",
        5 => "sm_features_5",
        _ => "sm_features_6_plus",
    });
    let precision: std::cell::RefCell<Vec<String>> = std::cell::RefCell::new(vec![]);
    let res = catch_unwind(AssertUnwindSafe(|| {
        let mut fails: Vec<(&'static str, String)> = vec![];
        let mut counts: Vec<&'static str> = vec![];
        let mut outs: Vec<String> = vec![];
        let sfs: Vec<(String, StateFeature)> = feats.iter().map(|(n, f)| (n.clone(), f.to_sf())).collect();
        let mut m = match kind {
            "sme" => StateModel::empty(),
            "smf" => StateModel::from(sfs),
            _ => StateModel::new(sfs),
        };
        let mut r: Vec<(String, Feat)> = ref_extend(&[], &feats).unwrap_or_else(|| {
            // repeated name with different kinds: the reference keeps the last declaration
            let mut out: Vec<(String, Feat)> = vec![];
            for (n, f) in &feats {
                if let Some(e) = out.iter_mut().find(|e| e.0 == *n) {
                    e.1 = f.clone();
                } else {
                    out.push((n.clone(), f.clone()));
                }
            }
            out
        });
        outs.push(model_s(u, &m));
        if let Some(f) = check_model(&m, &r, u) {
            fails.push((f.0, format!("after new({}): {}", feats_text(&feats), f.1)));
        }
        let mut st: Vec<StateVar> = vec![];
        let mut prev: Vec<StateVar> = vec![];
        let mut max_features = r.len();
        for (step, op) in ops.iter().enumerate() {
            let before = st.clone();
            // result text, and for setters what the oracle needs
            let mut mutated: Option<Result<(), StateModelError>> = None;
            let out: String = match op {
                SmOp::Ext(fs) => {
                    let res = m.extend(fs.iter().map(|(n, f)| (n.clone(), f.to_sf())).collect());
                    let expect = ref_extend(&r, fs);
                    match res {
                        Ok(m2) => {
                            counts.push("sm_extend_ok");
                            match &expect {
                                None => fails.push(("state/extend-kind", format!("op #{} extend({}) replaced a feature by one of a different kind", step, feats_text(fs)))),
                                Some(r2) => {
                                    // existing names keep their slot
                                    for (i, (name, _)) in r.iter().enumerate() {
                                        if m2.slot(name) != Some(i) {
                                            fails.push(("state/extend-slots", format!("op #{} extend({}): {} moved from slot {} to {:?}", step, feats_text(fs), name, i, m2.slot(name))));
                                            break;
                                        }
                                    }
                                    if let Some(f) = check_model(&m2, r2, u) {
                                        fails.push((f.0, format!("after op #{} extend({}): {}", step, feats_text(fs), f.1)));
                                    }
                                    r = r2.clone();
                                }
                            }
                            m = m2;
                            max_features = max_features.max(m.len());
                            format!("ok {}", model_s(u, &m))
                        }
                        Err(e) => {
                            counts.push("sm_extend_rejected");
                            if expect.is_some() {
                                fails.push(("state/extend-kind", format!("op #{} extend({}) was rejected: {}", step, feats_text(fs), e)));
                            }
                            format!("err {}", err_s(&e))
                        }
                    }
                }
                SmOp::Init => match m.initial_state() {
                    Ok(s2) => {
                        prev = st.clone();
                        st = s2;
                        format!("ok {}", state_s(&st))
                    }
                    Err(e) => format!("err {}", err_s(&e)),
                },
                SmOp::State(xs) => {
                    prev = st.clone();
                    st = xs.iter().map(|x| StateVar(*x)).collect();
                    format!("ok {}", state_s(&st))
                }
                SmOp::GetD(n, un) => match m.get_distance(&st, n, un) {
                    Ok(x) => format!("ok {}", fbits(x.as_f64())),
                    Err(e) => format!("err {}", err_s(&e)),
                },
                SmOp::GetT(n, un) => match m.get_time(&st, n, un) {
                    Ok(x) => format!("ok {}", fbits(x.as_f64())),
                    Err(e) => format!("err {}", err_s(&e)),
                },
                SmOp::GetE(n, un) => match m.get_energy(&st, n, un) {
                    Ok(x) => format!("ok {}", fbits(x.as_f64())),
                    Err(e) => format!("err {}", err_s(&e)),
                },
                SmOp::SetD(n, un, x) => {
                    mutated = Some(m.set_distance(&mut st, n, &Distance::new(*x), un));
                    String::new()
                }
                SmOp::SetT(n, un, x) => {
                    mutated = Some(m.set_time(&mut st, n, &Time::new(*x), un));
                    String::new()
                }
                SmOp::SetE(n, un, x) => {
                    mutated = Some(m.set_energy(&mut st, n, &Energy::new(*x), un));
                    String::new()
                }
                SmOp::AddD(n, un, x) => {
                    mutated = Some(m.add_distance(&mut st, n, &Distance::new(*x), un));
                    String::new()
                }
                SmOp::AddT(n, un, x) => {
                    mutated = Some(m.add_time(&mut st, n, &Time::new(*x), un));
                    String::new()
                }
                SmOp::AddE(n, un, x) => {
                    mutated = Some(m.add_energy(&mut st, n, &Energy::new(*x), un));
                    String::new()
                }
                SmOp::GetCF(n) => match m.get_custom_f64(&st, n) {
                    Ok(x) => format!("ok {}", fbits(x)),
                    Err(e) => format!("err {}", err_s(&e)),
                },
                SmOp::GetCI(n) => match m.get_custom_i64(&st, n) {
                    Ok(x) => format!("ok {}", x),
                    Err(e) => format!("err {}", err_s(&e)),
                },
                SmOp::GetCU(n) => match m.get_custom_u64(&st, n) {
                    Ok(x) => format!("ok {}", x),
                    Err(e) => format!("err {}", err_s(&e)),
                },
                SmOp::GetCB(n) => match m.get_custom_bool(&st, n) {
                    Ok(x) => format!("ok {}", if x { 1 } else { 0 }),
                    Err(e) => format!("err {}", err_s(&e)),
                },
                SmOp::SetCF(n, x) => {
                    mutated = Some(m.set_custom_f64(&mut st, n, x));
                    String::new()
                }
                SmOp::SetCI(n, x) => {
                    mutated = Some(m.set_custom_i64(&mut st, n, x));
                    String::new()
                }
                SmOp::SetCU(n, x) => {
                    mutated = Some(m.set_custom_u64(&mut st, n, x));
                    String::new()
                }
                SmOp::SetCB(n, x) => {
                    mutated = Some(m.set_custom_bool(&mut st, n, x));
                    String::new()
                }
                SmOp::Delta(n) => match m.get_delta(&prev, &st, n) {
                    Ok(x) => format!("ok {}", fbits(x.0)),
                    Err(e) => format!("err {}", err_s(&e)),
                },
                SmOp::Ser => {
                    let j = m.serialize_state(&st);
                    let mut kv: Vec<(String, String)> = j
                        .as_object()
                        .map(|o| o.iter().map(|(k, v)| (k.clone(), format!("{}:{}", k, fbits(v.as_f64().unwrap_or(f64::NAN))))).collect())
                        .unwrap_or_default();
                    kv.sort();
                    list_s(&kv.into_iter().map(|x| x.1).collect::<Vec<_>>())
                }
            };
            let out = match mutated {
                None => out,
                Some(Ok(())) => {
                    prev = before.clone();
                    format!("ok {}", state_s(&st))
                }
                Some(Err(e)) => {
                    if st.iter().map(|x| x.0.to_bits()).ne(before.iter().map(|x| x.0.to_bits())) {
                        fails.push(("state/set-own-slot", format!("op #{} {} failed ({}) but changed the state", step, op.text(), e)));
                    }
                    format!("err {}", err_s(&e))
                }
            };
            // ---- oracle for successful setters
            if out.starts_with("ok") {
                let (name, kind): (Option<&String>, &str) = match op {
                    SmOp::SetD(n, ..) | SmOp::SetT(n, ..) | SmOp::SetE(n, ..) => (Some(n), "set"),
                    SmOp::AddD(n, ..) | SmOp::AddT(n, ..) | SmOp::AddE(n, ..) => (Some(n), "add"),
                    SmOp::SetCF(n, ..) | SmOp::SetCI(n, ..) | SmOp::SetCU(n, ..) | SmOp::SetCB(n, ..) => (Some(n), "setc"),
                    _ => (None, ""),
                };
                if let Some(name) = name {
                    counts.push(match kind { "set" => "sm_set_ok", "add" => "sm_add_ok", _ => "sm_set_custom_ok" });
                    let slot = r.iter().position(|e| e.0 == *name);
                    match slot {
                        None => fails.push(("state/set-own-slot", format!("op #{} {} succeeded on an undeclared feature", step, op.text()))),
                        Some(slot) => {
                            if st.len() != before.len() {
                                fails.push(("state/set-own-slot", format!("op #{} {} changed the length of the state", step, op.text())));
                            }
                            for i in 0..st.len().min(before.len()) {
                                if i != slot && st[i].0.to_bits() != before[i].0.to_bits() {
                                    fails.push(("state/set-own-slot", format!("op #{} {} (slot {}) changed slot {} from {} to {}", step, op.text(), slot, i, before[i].0, st[i].0)));
                                    break;
                                }
                            }
                            let feat = &r[slot].1;
                            if slot >= st.len() || slot >= before.len() {
                                fails.push(("state/set-own-slot", format!("op #{} {} succeeded although slot {} is outside the {}-entry state", step, op.text(), slot, st.len())));
                            } else {
                            match (op, feat) {
                                (SmOp::SetD(n, un, x), Feat::D(fu, _)) => {
                                    let back = m.get_distance(&st, n, un).map(|v| v.as_f64()).unwrap_or(f64::NAN);
                                    let exact = format!("{}", un) == format!("{}", fu);
                                    if (exact && back.to_bits() != x.to_bits()) || !close_rel(back, *x, 1.0e-3 + 1e-9) {
                                        fails.push(("state/roundtrip", format!("op #{} {}: get_distance in {} returned {} after setting {}", step, op.text(), un, back, x)));
                                    }
                                }
                                (SmOp::SetT(n, un, x), Feat::T(fu, _)) => {
                                    let back = m.get_time(&st, n, un).map(|v| v.as_f64()).unwrap_or(f64::NAN);
                                    let exact = format!("{}", un) == format!("{}", fu);
                                    if (exact && back.to_bits() != x.to_bits()) || !close_rel(back, *x, 1.0e-3 + 1e-9) {
                                        fails.push(("state/roundtrip", format!("op #{} {}: get_time in {} returned {} after setting {}", step, op.text(), un, back, x)));
                                    }
                                }
                                (SmOp::SetE(n, un, x), Feat::E(fu, _)) => {
                                    let back = m.get_energy(&st, n, un).map(|v| v.as_f64()).unwrap_or(f64::NAN);
                                    let exact = format!("{}", un) == format!("{}", fu);
                                    if (exact && back.to_bits() != x.to_bits()) || !close_rel(back, *x, 1.0e-3 + 1e-9) {
                                        fails.push(("state/roundtrip", format!("op #{} {}: get_energy in {} returned {} after setting {}", step, op.text(), un, back, x)));
                                    }
                                }
                                (SmOp::AddD(_, un, x), Feat::D(fu, _)) => {
                                    let expect = before[slot].0 + un.convert(&Distance::new(*x), fu).as_f64();
                                    if !close_rel(st[slot].0, expect, 1e-9) {
                                        fails.push(("state/add-accumulates", format!("op #{} {}: slot went from {} to {}, expected {}", step, op.text(), before[slot].0, st[slot].0, expect)));
                                    }
                                }
                                (SmOp::AddT(_, un, x), Feat::T(fu, _)) => {
                                    let expect = before[slot].0 + un.convert(&Time::new(*x), fu).as_f64();
                                    if !close_rel(st[slot].0, expect, 1e-9) {
                                        fails.push(("state/add-accumulates", format!("op #{} {}: slot went from {} to {}, expected {}", step, op.text(), before[slot].0, st[slot].0, expect)));
                                    }
                                }
                                (SmOp::AddE(_, un, x), Feat::E(fu, _)) => {
                                    let expect = before[slot].0 + un.convert(&Energy::new(*x), fu).as_f64();
                                    if !close_rel(st[slot].0, expect, 1e-9) {
                                        fails.push(("state/add-accumulates", format!("op #{} {}: slot went from {} to {}, expected {}", step, op.text(), before[slot].0, st[slot].0, expect)));
                                    }
                                }
                                (SmOp::SetCF(n, x), Feat::CF(..)) => {
                                    if m.get_custom_f64(&st, n).ok().map(|v| v.to_bits()) != Some(x.to_bits()) {
                                        fails.push(("state/roundtrip", format!("op #{} {}: get_custom_f64 differs", step, op.text())));
                                    }
                                }
                                (SmOp::SetCI(n, x), Feat::CI(..)) => {
                                    // exact for integers a double represents exactly; beyond 2^53 the casts round
                                    // (finding codec/integer-precision)
                                    if m.get_custom_i64(&st, n).ok() != Some(*x) {
                                        let msg = format!("op #{} {}: get_custom_i64 returned {:?}", step, op.text(), m.get_custom_i64(&st, n).ok());
                                        if x.unsigned_abs() <= (1u64 << 53) { fails.push(("state/roundtrip", msg)); } else { precision.borrow_mut().push(msg); }
                                    }
                                }
                                (SmOp::SetCU(n, x), Feat::CU(..)) => {
                                    if m.get_custom_u64(&st, n).ok() != Some(*x) {
                                        let msg = format!("op #{} {}: get_custom_u64 returned {:?}", step, op.text(), m.get_custom_u64(&st, n).ok());
                                        if *x <= (1u64 << 53) { fails.push(("state/roundtrip", msg)); } else { precision.borrow_mut().push(msg); }
                                    }
                                }
                                (SmOp::SetCB(n, x), Feat::CB(..)) => {
                                    if m.get_custom_bool(&st, n).ok() != Some(*x) {
                                        fails.push(("state/roundtrip", format!("op #{} {}: get_custom_bool differs", step, op.text())));
                                    }
                                }
                                _ => fails.push(("state/feature-kind", format!("op #{} {} succeeded on a feature of another kind ({:?})", step, op.text(), feat))),
                            }
                            }
                        }
                    }
                }
            }
            outs.push(format!("| {}", out));
        }
        (outs.join(" "), fails, counts, max_features)
    }));
    match res {
        Ok((out, fails, counts, max_features)) => {
            ctx.emit(idx, case.clone(), norm(out));
            for c in counts {
                ctx.count(c);
            }
            if max_features >= 6 {
                ctx.nontrivial(&case);
            }
            if let Some((key, msg)) = fails.first() {
                // a model built by `new` from a list with a repeated name: key of the defect repaired in 6da9498
                let key = if dup_new { "container/new-duplicate-key" } else { key };
                ctx.fail(idx, key, msg.clone());
            }
            if let Some(msg) = precision.borrow().first() {
                ctx.fail(idx, "codec/integer-precision", msg.clone());
            }
        }
        Err(_) => {
            ctx.emit(idx, case, "panic".to_string());
            ctx.fail(idx, "state/panic", "the state model panicked".to_string());
        }
    }
}

fn nice(rng: &mut Rng) -> f64 {
    match rng.below(6) {
        0 => 0.0,
        1 => rng.range(0, 1000) as f64,
        2 => rng.range(0, 100000) as f64 / 100.0,
        3 => rng.uniform(0.0, 10.0) * 10f64.powi(rng.range(-6, 9) as i32),
        4 => -rng.uniform(0.0, 100.0),
        _ => rng.uniform(0.0, 1000.0),
    }
}

fn gen_feat(rng: &mut Rng) -> Feat {
    let types = ["soc", "count", "flag", "distance", "x"];
    let units = ["percent", "n", "bool", "kwh"];
    match rng.below(9) {
        0 | 1 => Feat::D(*rng.pick(&DU), nice(rng)),
        2 | 3 => Feat::T(*rng.pick(&TU), nice(rng)),
        4 | 5 => Feat::E(*rng.pick(&EU), nice(rng)),
        _ => {
            let t = rng.pick(&types).to_string();
            let u = rng.pick(&units).to_string();
            match rng.below(4) {
                0 => Feat::CF(t, u, nice(rng)),
                1 => Feat::CI(t, u, gen_i64(rng)),
                2 => Feat::CU(t, u, gen_u64(rng)),
                _ => Feat::CB(t, u, rng.chance(1, 2)),
            }
        }
    }
}

fn gen_i64(rng: &mut Rng) -> i64 {
    match rng.below(8) {
        0 => i64::MAX,
        1 => i64::MIN,
        2 => (1i64 << 53) + rng.range(-3, 3),
        3 => -(1i64 << 53) + rng.range(-3, 3),
        4 => rng.next() as i64,
        _ => rng.range(-1000, 1000),
    }
}

fn gen_u64(rng: &mut Rng) -> u64 {
    match rng.below(8) {
        0 => u64::MAX,
        1 => (1u64 << 63) + rng.below(5) as u64,
        2 => (1u64 << 53) + rng.below(5) as u64,
        3 => rng.next(),
        _ => rng.below(1000) as u64,
    }
}

fn gen_sm_op(rng: &mut Rng, u: usize, r: &[(String, Feat)]) -> SmOp {
    let any_name = |rng: &mut Rng| format!("f{}", rng.below(u.max(1) + 1));
    // a declared name most of the time
    let pick = |rng: &mut Rng, want: u8| -> String {
        // want: 0 distance, 1 time, 2 energy, 3 custom
        let matching: Vec<&String> = r
            .iter()
            .filter(|e| matches!((&e.1, want), (Feat::D(..), 0) | (Feat::T(..), 1) | (Feat::E(..), 2) | (Feat::CF(..) | Feat::CI(..) | Feat::CU(..) | Feat::CB(..), 3)))
            .map(|e| &e.0)
            .collect();
        if !matching.is_empty() && rng.chance(92, 100) {
            (*rng.pick(&matching)).clone()
        } else if !r.is_empty() && rng.chance(70, 100) {
            rng.pick(r).0.clone()
        } else {
            any_name(rng)
        }
    };
    match rng.below(100) {
        0..=7 => {
            let n = rng.below(5);
            let mut fs = vec![];
            for _ in 0..n {
                let name = if !r.is_empty() && rng.chance(40, 100) { rng.pick(r).0.clone() } else { any_name(rng) };
                // an existing name mostly keeps its kind (other unit / initial value)
                let f = match r.iter().find(|e| e.0 == name) {
                    Some((_, old)) if rng.chance(85, 100) => match old {
                        Feat::D(..) => Feat::D(*rng.pick(&DU), nice(rng)),
                        Feat::T(..) => Feat::T(*rng.pick(&TU), nice(rng)),
                        Feat::E(..) => Feat::E(*rng.pick(&EU), nice(rng)),
                        Feat::CF(t, un, _) | Feat::CI(t, un, _) | Feat::CU(t, un, _) | Feat::CB(t, un, _) => match rng.below(4) {
                            0 => Feat::CF(t.clone(), un.clone(), nice(rng)),
                            1 => Feat::CI(t.clone(), un.clone(), gen_i64(rng)),
                            2 => Feat::CU(t.clone(), un.clone(), gen_u64(rng)),
                            _ => Feat::CB(t.clone(), un.clone(), rng.chance(1, 2)),
                        },
                    },
                    _ => gen_feat(rng),
                };
                fs.push((name, f));
            }
            SmOp::Ext(fs)
        }
        8..=15 => SmOp::Init,
        16..=18 => {
            let n = (r.len() as i64 + rng.range(-2, 1)).max(0) as usize;
            SmOp::State((0..n).map(|_| match rng.below(8) { 0 => -0.0, 1 => 1e30, 2 => -1e30, 3 => 0.5, 4 => -2.5, _ => nice(rng) }).collect())
        }
        19..=26 => SmOp::GetD(pick(rng, 0), *rng.pick(&DU)),
        27..=32 => SmOp::GetT(pick(rng, 1), *rng.pick(&TU)),
        33..=38 => SmOp::GetE(pick(rng, 2), *rng.pick(&EU)),
        39..=46 => SmOp::SetD(pick(rng, 0), *rng.pick(&DU), nice(rng)),
        47..=51 => SmOp::SetT(pick(rng, 1), *rng.pick(&TU), nice(rng)),
        52..=56 => SmOp::SetE(pick(rng, 2), *rng.pick(&EU), nice(rng)),
        57..=64 => SmOp::AddD(pick(rng, 0), *rng.pick(&DU), nice(rng)),
        65..=69 => SmOp::AddT(pick(rng, 1), *rng.pick(&TU), nice(rng)),
        70..=74 => SmOp::AddE(pick(rng, 2), *rng.pick(&EU), nice(rng)),
        75..=77 => SmOp::GetCF(pick(rng, 3)),
        78..=80 => SmOp::GetCI(pick(rng, 3)),
        81..=83 => SmOp::GetCU(pick(rng, 3)),
        84..=85 => SmOp::GetCB(pick(rng, 3)),
        86..=87 => SmOp::SetCF(pick(rng, 3), nice(rng)),
        88..=90 => SmOp::SetCI(pick(rng, 3), gen_i64(rng)),
        91..=93 => SmOp::SetCU(pick(rng, 3), gen_u64(rng)),
        94..=95 => SmOp::SetCB(pick(rng, 3), rng.chance(1, 2)),
        96..=97 => {
            let w = rng.below(4) as u8;
            SmOp::Delta(pick(rng, w))
        }
        _ => SmOp::Ser,
    }
}

fn sm_cases(ctx: &mut Ctx) {
    let f = |i: usize| format!("f{}", i);
    let s = |x: &str| x.to_string();
    // ---- corpus
    let eight: Vec<(String, Feat)> = vec![
        (f(3), Feat::D(DistanceUnit::Miles, 0.0)),
        (f(0), Feat::T(TimeUnit::Minutes, 1.5)),
        (f(7), Feat::E(EnergyUnit::KilowattHours, 60.0)),
        (f(1), Feat::CF(s("soc"), s("percent"), 100.0)),
        (f(5), Feat::CI(s("count"), s("n"), -3)),
        (f(2), Feat::CU(s("count"), s("n"), 7)),
        (f(6), Feat::CB(s("flag"), s("bool"), true)),
        (f(4), Feat::D(DistanceUnit::Kilometers, 2.0)),
    ];
    let mut corpus: Vec<(usize, Vec<(String, Feat)>, Vec<SmOp>)> = vec![
        // eight features of every kind: the sixth and later features must have slots 5, 6, 7
        (9, eight.clone(), vec![
            SmOp::Init,
            SmOp::SetD(f(4), DistanceUnit::Meters, 1500.0),
            SmOp::GetD(f(4), DistanceUnit::Meters),
            SmOp::SetCB(f(6), false),
            SmOp::GetCB(f(6)),
            SmOp::SetCU(f(2), 12),
            SmOp::AddE(f(7), EnergyUnit::KilowattHours, -1.25),
            SmOp::SetCI(f(5), 42),
            SmOp::GetCI(f(5)),
            SmOp::Delta(f(5)),
            SmOp::Ser,
            SmOp::GetD(f(8), DistanceUnit::Meters),
            SmOp::GetT(f(3), TimeUnit::Hours),
        ]),
        // four configured features extended to seven by "model" features, then a query override of a unit
        (9, eight[..4].to_vec(), vec![
            SmOp::Ext(eight[4..7].to_vec()),
            SmOp::Ext(vec![(f(3), Feat::D(DistanceUnit::Feet, 5.0)), (f(8), Feat::T(TimeUnit::Hours, 0.0))]),
            SmOp::Init,
            SmOp::Ext(vec![(f(3), Feat::T(TimeUnit::Hours, 0.0))]),
            SmOp::AddD(f(3), DistanceUnit::Miles, 1.0),
            SmOp::GetD(f(3), DistanceUnit::Miles),
        ]),
        // repeated feature name handed to `new`
        (3, vec![(f(0), Feat::D(DistanceUnit::Miles, 1.0)), (f(0), Feat::D(DistanceUnit::Meters, 2.0))], vec![SmOp::Init, SmOp::SetD(f(0), DistanceUnit::Meters, 5.0)]),
    ];
    // codecs at the edges: negative value in an unsigned slot (ValueError), saturating casts, -0.0 as bool
    corpus.push((4, vec![
        (f(0), Feat::CU(s("count"), s("n"), 3)),
        (f(1), Feat::CI(s("count"), s("n"), i64::MIN)),
        (f(2), Feat::CB(s("flag"), s("bool"), false)),
        (f(3), Feat::CF(s("soc"), s("percent"), 0.25)),
    ], vec![
        SmOp::Init, SmOp::GetCU(f(0)), SmOp::GetCI(f(1)), SmOp::GetCB(f(2)), SmOp::GetCF(f(3)),
        SmOp::State(vec![-2.5, 1e30, -0.0, 7.0]), SmOp::GetCU(f(0)), SmOp::GetCI(f(1)), SmOp::GetCB(f(2)),
        SmOp::State(vec![1e30, -1e30, 0.5, 7.0]), SmOp::GetCU(f(0)), SmOp::GetCI(f(1)), SmOp::GetCB(f(2)),
        SmOp::State(vec![2.9, -2.9, 0.5, 7.0]), SmOp::GetCU(f(0)), SmOp::GetCI(f(1)),
        SmOp::SetCU(f(0), u64::MAX), SmOp::GetCU(f(0)), SmOp::SetCI(f(1), i64::MAX), SmOp::GetCI(f(1)),
        SmOp::SetCI(f(1), (1i64 << 53) + 1), SmOp::GetCI(f(1)), SmOp::SetCF(f(0), 1.0), SmOp::SetCB(f(3), true),
        SmOp::GetCI(f(0)), SmOp::GetD(f(0), DistanceUnit::Meters), SmOp::State(vec![1.0]), SmOp::GetCF(f(3)), SmOp::SetCF(f(3), 2.0),
    ]));
    // 1000 additions of 1609.34 m into a feature kept in miles (drift of the old read-convert-write add)
    {
        let mut ops = vec![SmOp::Init];
        for _ in 0..1000 {
            ops.push(SmOp::AddD(f(0), DistanceUnit::Meters, 1609.34));
        }
        ops.push(SmOp::GetD(f(0), DistanceUnit::Miles));
        corpus.push((1, vec![(f(0), Feat::D(DistanceUnit::Miles, 0.0))], ops));
    }
    for (u, feats, ops) in corpus {
        let Some(idx) = ctx.begin() else { continue };
        ctx.count("sm_corpus");
        // the accumulation witness gets its own end-to-end check
        let is_drift = ops.len() > 1000;
        run_sm(ctx, idx, u, feats.clone(), ops);
        if is_drift {
            let m = StateModel::new(feats.iter().map(|(n, f)| (n.clone(), f.to_sf())).collect());
            let mut st = m.initial_state().unwrap_or_default();
            let delta = DistanceUnit::Meters.convert(&Distance::new(1609.34), &DistanceUnit::Miles).as_f64();
            for _ in 0..1000 {
                let _ = m.add_distance(&mut st, &f(0), &Distance::new(1609.34), &DistanceUnit::Meters);
            }
            let got = st.first().map(|x| x.0).unwrap_or(f64::NAN);
            if !close_rel(got, 1000.0 * delta, 1e-9) {
                ctx.fail(idx, "state/add-accumulates", format!("1000 x add_distance(1609.34 m) into a miles feature gives {} but the sum of the converted increments is {}", got, 1000.0 * delta));
            }
        }
    }
    // ---- generated
    let n = ctx.n(3000, 60000);
    for _ in 0..n {
        let Some(idx) = ctx.begin() else { continue };
        let mut rng = Rng::for_case(ctx.seed, 1111, idx as u64);
        let nf = match rng.below(20) { 0 => 0, 1..=3 => 1 + rng.below(4), 4..=5 => 5, _ => 6 + rng.below(7) };
        let u = (nf + rng.below(4)).min(13);
        let nf = nf.min(u);
        let mut names: Vec<usize> = (0..u).collect();
        rng.shuffle(&mut names);
        let mut feats: Vec<(String, Feat)> = names.iter().take(nf).map(|i| (f(*i), gen_feat(&mut rng))).collect();
        if feats.len() >= 2 && rng.chance(4, 100) {
            // a repeated name
            let j = rng.below(feats.len() - 1);
            let last = feats.len() - 1;
            feats[last].0 = feats[j].0.clone();
        }
        let n_ops = match rng.below(4) { 0 => rng.below(5), _ => 5 + rng.below(30) };
        // the generator follows the reference model so that most operations hit declared features
        let mut r: Vec<(String, Feat)> = vec![];
        for (nm, ft) in &feats {
            if let Some(e) = r.iter_mut().find(|e| e.0 == *nm) { e.1 = ft.clone(); } else { r.push((nm.clone(), ft.clone())); }
        }
        let mut ops = vec![];
        if rng.chance(92, 100) {
            ops.push(SmOp::Init);
        }
        for _ in 0..n_ops {
            let op = gen_sm_op(&mut rng, u, &r);
            if let SmOp::Ext(fs) = &op {
                if let Some(r2) = ref_extend(&r, fs) {
                    r = r2;
                }
            }
            ops.push(op);
        }
        run_sm(ctx, idx, u, feats, ops);
    }
}

// ---------------------------------------------------------------------------------------------
// collect_features + extend: configuration, traversal model, access model, query override
// ---------------------------------------------------------------------------------------------
use routee_compass::app::search::search_app_ops::collect_features;
use routee_compass_core::model::access::{access_model::AccessModel, access_model_error::AccessModelError};
use routee_compass_core::model::network::{Edge, Vertex};
use routee_compass_core::model::traversal::{traversal_model::TraversalModel, traversal_model_error::TraversalModelError};
use std::sync::Arc;

struct Tm(Vec<(String, StateFeature)>);
impl TraversalModel for Tm {
    fn state_features(&self) -> Vec<(String, StateFeature)> {
        self.0.clone()
    }
    fn traverse_edge(&self, _t: (&Vertex, &Edge, &Vertex), _s: &mut Vec<StateVar>, _m: &StateModel) -> Result<(), TraversalModelError> {
        Ok(())
    }
    fn estimate_traversal(&self, _od: (&Vertex, &Vertex), _s: &mut Vec<StateVar>, _m: &StateModel) -> Result<(), TraversalModelError> {
        Ok(())
    }
}
struct Am(Vec<(String, StateFeature)>);
impl AccessModel for Am {
    fn state_features(&self) -> Vec<(String, StateFeature)> {
        self.0.clone()
    }
    fn access_edge(&self, _t: (&Vertex, &Edge, &Vertex, &Edge, &Vertex), _s: &mut Vec<StateVar>, _m: &StateModel) -> Result<(), AccessModelError> {
        Ok(())
    }
}

/// values that survive a JSON round trip exactly with any float parser
fn json_safe(rng: &mut Rng) -> f64 {
    rng.range(-400, 4000) as f64 / 4.0
}

fn gen_feat_json_safe(rng: &mut Rng) -> Feat {
    let types = ["soc", "count", "distance"];
    let units = ["percent", "n"];
    match rng.below(8) {
        0 | 1 => Feat::D(*rng.pick(&DU), json_safe(rng)),
        2 | 3 => Feat::T(*rng.pick(&TU), json_safe(rng)),
        4 | 5 => Feat::E(*rng.pick(&EU), json_safe(rng)),
        _ => {
            let t = rng.pick(&types).to_string();
            let u = rng.pick(&units).to_string();
            match rng.below(4) {
                0 => Feat::CF(t, u, json_safe(rng)),
                1 => Feat::CI(t, u, rng.range(-1000, 1000)),
                2 => Feat::CU(t, u, rng.below(1000) as u64),
                _ => Feat::CB(t, u, rng.chance(1, 2)),
            }
        }
    }
}

/// the same custom feature (type, unit) in another format: a change of kind
fn format_change_variant(rng: &mut Rng, old: &Feat) -> Feat {
    match old {
        Feat::CF(t, u, _) => match rng.below(3) {
            0 => Feat::CI(t.clone(), u.clone(), rng.range(-1000, 1000)),
            1 => Feat::CU(t.clone(), u.clone(), rng.below(1000) as u64),
            _ => Feat::CB(t.clone(), u.clone(), rng.chance(1, 2)),
        },
        Feat::CI(t, u, _) | Feat::CU(t, u, _) | Feat::CB(t, u, _) => Feat::CF(t.clone(), u.clone(), json_safe(rng)),
        other => same_kind_variant(rng, other),
    }
}

fn same_kind_variant(rng: &mut Rng, old: &Feat) -> Feat {
    match old {
        Feat::D(..) => Feat::D(*rng.pick(&DU), json_safe(rng)),
        Feat::T(..) => Feat::T(*rng.pick(&TU), json_safe(rng)),
        Feat::E(..) => Feat::E(*rng.pick(&EU), json_safe(rng)),
        Feat::CF(t, u, _) => Feat::CF(t.clone(), u.clone(), json_safe(rng)),
        Feat::CI(t, u, _) => Feat::CI(t.clone(), u.clone(), rng.range(-1000, 1000)),
        Feat::CU(t, u, _) => Feat::CU(t.clone(), u.clone(), rng.below(1000) as u64),
        Feat::CB(t, u, _) => Feat::CB(t.clone(), u.clone(), rng.chance(1, 2)),
    }
}

/// JSON printed for comparison: integer numbers by lexeme, other numbers by bit pattern (the Lean model
/// does not compute decimal float lexemes)
fn jb(v: &serde_json::Value) -> String {
    use serde_json::Value;
    match v {
        Value::Null => "z".to_string(),
        Value::Bool(true) => "t".to_string(),
        Value::Bool(false) => "f".to_string(),
        Value::Number(n) => {
            if n.is_u64() || n.is_i64() {
                format!("ni {}", n)
            } else {
                format!("nf {}", n.as_f64().map(|x| x.to_bits()).unwrap_or(0))
            }
        }
        Value::String(s) => format!("s {}", crate::jsonproto::hex(s)),
        Value::Array(xs) => {
            let mut out = vec![format!("a {}", xs.len())];
            out.extend(xs.iter().map(jb));
            out.join(" ")
        }
        Value::Object(m) => {
            let mut out = vec![format!("o {}", m.len())];
            for (k, x) in m {
                out.push(crate::jsonproto::hex(k));
                out.push(jb(x));
            }
            out.join(" ")
        }
    }
}

fn sorted_feats(fs: &[(String, String)]) -> String {
    let mut v: Vec<(String, String)> = fs.to_vec();
    v.sort_by(|a, b| a.0.cmp(&b.0));
    list_s(&v.into_iter().map(|x| x.1).collect::<Vec<_>>())
}

/// first-occurrence order, last declaration wins: what "declaration order, a later feature replaces an
/// earlier one in place" means, written independently
fn declared(fs: &[(String, Feat)]) -> Vec<(String, Feat)> {
    let mut out: Vec<(String, Feat)> = vec![];
    for (n, f) in fs {
        if let Some(e) = out.iter_mut().find(|e| e.0 == *n) {
            e.1 = f.clone();
        } else {
            out.push((n.clone(), f.clone()));
        }
    }
    out
}

/// what the query's `state_features` is meant to be
#[derive(Clone, Debug)]
enum UserPart {
    /// no `state_features` key
    Absent,
    /// a well-formed object of state features
    Features(Vec<(String, Feat)>),
    /// present but not an object of state features: must be rejected with a BuildError
    Malformed,
}

fn run_cf(ctx: &mut Ctx, idx: usize, u: usize, cfg: Vec<(String, Feat)>, tr: Vec<(String, Feat)>, ac: Vec<(String, Feat)>, query: serde_json::Value, us: UserPart) {
    let case = format!("cf {} {} {} {} {}", u, feats_text(&cfg), feats_text(&tr), feats_text(&ac), crate::jsonproto::enc(&query));
    ctx.count(match &us {
        UserPart::Absent => "cf_without_query_override",
        UserPart::Features(_) => "cf_with_query_override",
        UserPart::Malformed => "cf_malformed_state_features",
    });
    let to_sf = |fs: &[(String, Feat)]| -> Vec<(String, StateFeature)> { fs.iter().map(|(n, f)| (n.clone(), f.to_sf())).collect() };
    let res = catch_unwind(AssertUnwindSafe(|| {
        let mut fails: Vec<(&'static str, String)> = vec![];
        let m0 = StateModel::new(to_sf(&cfg));
        let collected = collect_features(&query, Arc::new(Tm(to_sf(&tr))), Arc::new(Am(to_sf(&ac))));
        let model_ref = declared(&tr.iter().chain(ac.iter()).cloned().collect::<Vec<_>>());
        match collected {
            Err(e) => {
                match &us {
                    UserPart::Malformed => {
                        if err_s(&e) != "build" {
                            fails.push(("state/collect-malformed", format!("malformed state_features reported as {}", e)));
                        }
                    }
                    UserPart::Absent => fails.push(("state/collect-rejects", format!("no state_features, yet: {}", e))),
                    UserPart::Features(fs) => {
                        // legitimate only for an unknown name or another feature type
                        let bad = fs.iter().any(|(n, f)| match model_ref.iter().find(|e| e.0 == *n) {
                            None => true,
                            Some((_, old)) => old.to_sf().get_feature_type() != f.to_sf().get_feature_type(),
                        });
                        if !bad {
                            fails.push(("state/collect-rejects", format!("every override names a model feature of its type, yet: {}", e)));
                        }
                    }
                }
                // several offending entries: which one is reported depends on HashMap order
                let mut kinds = std::collections::BTreeSet::new();
                if let UserPart::Features(fs) = &us {
                    for (n, f) in fs {
                        match model_ref.iter().find(|e| e.0 == *n) {
                            None => { kinds.insert("unk"); }
                            Some((_, old)) if old.to_sf().get_feature_type() != f.to_sf().get_feature_type() => { kinds.insert("ftype"); }
                            _ => {}
                        }
                    }
                }
                let shown = if kinds.len() == 2 && (err_s(&e) == "unk" || err_s(&e) == "ftype") { "ftype|unk" } else { err_s(&e) };
                (format!("err {}", shown), fails, 0usize, "cf_collect_rejected")
            }
            Ok(fs) => {
                if matches!(us, UserPart::Malformed) {
                    fails.push(("state/collect-malformed", "malformed state_features was accepted".to_string()));
                }
                let n_model = model_ref.len();
                let f_s = |(n, f): &(String, StateFeature)| format!("{}:{}", n, feat_s(f));
                // the model part: declaration order, later replaces earlier in place
                let got: Vec<String> = fs.iter().take(n_model).map(f_s).collect();
                let want: Vec<String> = model_ref.iter().map(|(n, f)| format!("{}:{}", n, feat_s(&f.to_sf()))).collect();
                if got != want {
                    fails.push(("state/collect-order", format!("model features collected as {:?}, declared as {:?}", got, want)));
                }
                let user_part: Vec<(String, String)> = fs.iter().skip(n_model).map(|e| (e.0.clone(), f_s(e))).collect();
                let col = format!("ok {} {}", list_s(&got), sorted_feats(&user_part));
                let mut entries = model_ref.clone();
                if let UserPart::Features(v) = &us {
                    entries.extend(v.clone());
                }
                let expect = ref_extend(&cfg, &entries);
                match m0.extend(fs) {
                    Err(e) => {
                        if expect.is_some() {
                            fails.push(("state/extend-kind", format!("extend was rejected: {}", e)));
                        }
                        (format!("{} | err {}", col, err_s(&e)), fails, 0, "cf_extend_rejected")
                    }
                    Ok(m) => {
                        let n = m.len();
                        match &expect {
                            None => fails.push(("state/extend-kind", "extend replaced a feature by one of a different kind".to_string())),
                            Some(r2) => {
                                // slots: configured features first, then the new names in declaration order
                                if let Some(f) = check_model(&m, r2, u) {
                                    fails.push(f);
                                }
                            }
                        }
                        (format!("{} | ok {}", col, model_s(u, &m)), fails, n, "cf_extend_ok")
                    }
                }
            }
        }
    }));
    match res {
        Ok((out, fails, n, branch)) => {
            ctx.emit(idx, case.clone(), norm(out));
            ctx.count(branch);
            if n >= 6 {
                ctx.nontrivial(&case);
            }
            if let Some((key, msg)) = fails.first() {
                ctx.fail(idx, key, msg.clone());
            }
        }
        Err(_) => {
            ctx.emit(idx, case, "panic".to_string());
            ctx.fail(idx, "state/panic", "collect_features / extend panicked".to_string());
        }
    }
}

/// JSON of a feature as the code serialises it
fn feat_json(f: &Feat) -> serde_json::Value {
    serde_json::to_value(f.to_sf()).unwrap()
}

/// something that is not a state feature
fn bad_feature_json(rng: &mut Rng) -> serde_json::Value {
    use serde_json::json;
    match rng.below(17) {
        16 => json!(["miles", 1.0]),
        0 => json!(null),
        1 => json!(3),
        2 => json!("miles"),
        3 => json!([]),
        4 => json!({}),
        5 => json!({"distance_unit": "furlongs", "initial": 0.0}),
        6 => json!({"distance_unit": "miles"}),
        7 => json!({"initial": 1.5}),
        8 => json!({"distance_unit": "miles", "initial": "0.0"}),
        9 => json!({"time_unit": "meters", "initial": 0.0}),
        10 => json!({"type": "soc", "unit": "percent", "format": "floating_point"}),
        // the form the doc comments of state_model.rs / state_feature.rs show: not what serde accepts
        11 => json!({"name": "soc", "unit": "percent", "format": {"type": "floating_point", "initial": 0.0}}),
        12 => json!({"type": "soc", "unit": "percent", "format": {"signed_integer": {"initial": 1.5}}}),
        13 => json!({"type": "soc", "unit": "percent", "format": {"unsigned_integer": {"initial": -1}}}),
        14 => json!({"type": "soc", "unit": 5, "format": {"boolean": {"initial": true}}}),
        _ => json!({"type": "soc", "unit": "percent", "format": {"boolean": {"initial": 1}, "floating_point": {"initial": 0.0}}}),
    }
}

/// a feature in one of the JSON shapes serde accepts for it
fn good_feature_json(rng: &mut Rng, f: &Feat) -> serde_json::Value {
    use serde_json::json;
    let plain = feat_json(f);
    match rng.below(10) {
        // unknown keys are ignored
        0 => {
            let mut o = plain.as_object().cloned().unwrap_or_default();
            o.insert("comment".to_string(), json!("ignored"));
            o.insert("index".to_string(), json!(7));
            serde_json::Value::Object(o)
        }
        // key order does not matter
        1 => {
            let o = plain.as_object().cloned().unwrap_or_default();
            let mut r = serde_json::Map::new();
            for (k, v) in o.iter().rev() {
                r.insert(k.clone(), v.clone());
            }
            serde_json::Value::Object(r)
        }
        // integer lexeme for a float field
        2 => match f {
            Feat::D(un, _) => json!({"distance_unit": format!("{}", un), "initial": 3}),
            Feat::T(un, _) => json!({"time_unit": format!("{}", un), "initial": -2}),
            Feat::E(un, _) => json!({"energy_unit": format!("{}", un), "initial": 0}),
            _ => plain,
        },
        // serde's sequence form of the struct inside a CustomFeatureFormat variant
        3 => match f {
            Feat::CF(t, un, i) => json!({"type": t, "unit": un, "format": {"floating_point": [i]}}),
            Feat::CI(t, un, i) => json!({"type": t, "unit": un, "format": {"signed_integer": [i]}}),
            Feat::CU(t, un, i) => json!({"type": t, "unit": un, "format": {"unsigned_integer": [i]}}),
            Feat::CB(t, un, i) => json!({"type": t, "unit": un, "format": {"boolean": [i]}}),
            _ => plain,
        },
        // serde's map form of a unit variant
        4 => match f {
            Feat::D(un, i) => json!({"distance_unit": {format!("{}", un): null}, "initial": i}),
            Feat::T(un, i) => json!({"time_unit": {format!("{}", un): null}, "initial": i}),
            Feat::E(un, i) => json!({"energy_unit": {format!("{}", un): null}, "initial": i}),
            _ => plain,
        },
        // a later variant's keys next to an earlier variant's: the earlier variant wins
        5 => {
            let mut o = plain.as_object().cloned().unwrap_or_default();
            if o.contains_key("energy_unit") {
                o.insert("type".to_string(), json!("soc"));
                o.insert("unit".to_string(), json!("percent"));
                o.insert("format".to_string(), json!({"boolean": {"initial": true}}));
            }
            serde_json::Value::Object(o)
        }
        _ => plain,
    }
}

/// the feature a `good_feature_json` value stands for (shape 2 changes the initial value)
fn parsed_back(v: &serde_json::Value) -> Option<Feat> {
    serde_json::from_value::<StateFeature>(v.clone()).ok().map(|sf| match sf {
        StateFeature::Distance { distance_unit, initial } => Feat::D(distance_unit, initial.as_f64()),
        StateFeature::Time { time_unit, initial } => Feat::T(time_unit, initial.as_f64()),
        StateFeature::Energy { energy_unit, initial } => Feat::E(energy_unit, initial.as_f64()),
        StateFeature::Custom { r#type, unit, format } => match format {
            CustomFeatureFormat::FloatingPoint { initial } => Feat::CF(r#type, unit, initial.0),
            CustomFeatureFormat::SignedInteger { initial } => Feat::CI(r#type, unit, initial),
            CustomFeatureFormat::UnsignedInteger { initial } => Feat::CU(r#type, unit, initial),
            CustomFeatureFormat::Boolean { initial } => Feat::CB(r#type, unit, initial),
        },
    })
}

fn cf_cases(ctx: &mut Ctx) {
    let n = ctx.n(1000, 20000);
    for _ in 0..n {
        let Some(idx) = ctx.begin() else { continue };
        let mut rng = Rng::for_case(ctx.seed, 111111, idx as u64);
        let u = 2 + rng.below(11);
        let mut names: Vec<usize> = (0..u).collect();
        rng.shuffle(&mut names);
        let n_cfg = rng.below(u.min(7) + 1);
        let cfg: Vec<(String, Feat)> = names.iter().take(n_cfg).map(|i| (format!("f{}", i), gen_feat_json_safe(&mut rng))).collect();
        // model features: new names, or configured names mostly with the configured kind
        let gen_model = |rng: &mut Rng, k: usize| -> Vec<(String, Feat)> {
            (0..k)
                .map(|_| {
                    let name = format!("f{}", rng.below(u));
                    let f = match cfg.iter().find(|e| e.0 == name) {
                        Some((_, old)) if rng.chance(6, 100) => format_change_variant(rng, old),
                        Some((_, old)) if rng.chance(93, 100) => same_kind_variant(rng, old),
                        _ => gen_feat_json_safe(rng),
                    };
                    (name, f)
                })
                .collect()
        };
        let k_tr = rng.below(6);
        let mut tr = gen_model(&mut rng, k_tr);
        let k_ac = rng.below(4);
        let mut ac = gen_model(&mut rng, k_ac);
        // the same name in both models: mostly the same kind
        for e in ac.iter_mut() {
            if let Some(t) = tr.iter().find(|t| t.0 == e.0) {
                if rng.chance(90, 100) {
                    e.1 = same_kind_variant(&mut rng, &t.1);
                }
            }
        }
        // names repeated inside one model's list keep the kind of the first
        for list in [&mut tr, &mut ac] {
            for i in 1..list.len() {
                if let Some(j) = (0..i).find(|j| list[*j].0 == list[i].0) {
                    let k = list[j].1.clone();
                    list[i].1 = same_kind_variant(&mut rng, &k);
                }
            }
        }
        let model_names = declared(&tr.iter().chain(ac.iter()).cloned().collect::<Vec<_>>());
        let (query, us) = match rng.below(20) {
            0..=5 => (serde_json::json!({"origin_vertex": 0}), UserPart::Absent),
            // a query that is not an object has no state_features
            6 => (match rng.below(3) { 0 => serde_json::json!(null), 1 => serde_json::json!([1, 2]), _ => serde_json::json!("q") }, UserPart::Absent),
            // state_features present but not an object of state features
            7..=9 => {
                let v = match rng.below(8) {
                    0 => serde_json::json!(null),
                    1 => serde_json::json!(5),
                    2 => serde_json::json!("f0"),
                    3 => serde_json::json!([]),
                    4 => serde_json::json!([{"distance_unit": "miles", "initial": 0.0}]),
                    _ => {
                        // one row that is no state feature, among good ones
                        let mut o = serde_json::Map::new();
                        for (nm, f) in model_names.iter().take(rng.below(3)) {
                            o.insert(nm.clone(), feat_json(&same_kind_variant(&mut rng, f)));
                        }
                        let pos = format!("f{}", rng.below(u));
                        o.insert(pos, bad_feature_json(&mut rng));
                        serde_json::Value::Object(o)
                    }
                };
                (serde_json::json!({"state_features": v, "origin_vertex": 1}), UserPart::Malformed)
            }
            _ => {
                let mut v: Vec<(String, Feat)> = vec![];
                let mut bad_used = false;
                let k = rng.below(4);
                for _ in 0..k {
                    if !model_names.is_empty() && (bad_used || rng.chance(85, 100)) {
                        let (nm, f) = rng.pick(&model_names).clone();
                        if v.iter().any(|e| e.0 == nm) {
                            continue;
                        }
                        v.push((nm, same_kind_variant(&mut rng, &f)));
                    } else if !bad_used {
                        // at most one offending entry (which of several errors is reported depends on HashMap order)
                        bad_used = true;
                        let nm = if rng.chance(1, 2) || model_names.is_empty() { format!("f{}", u + 1) } else { rng.pick(&model_names).0.clone() };
                        if v.iter().any(|e| e.0 == nm) {
                            continue;
                        }
                        v.push((nm, gen_feat_json_safe(&mut rng)));
                    }
                }
                // every accepted JSON shape of a feature
                let mut o = serde_json::Map::new();
                let mut v2 = vec![];
                for (nm, f) in v {
                    let j = good_feature_json(&mut rng, &f);
                    let back = parsed_back(&j).unwrap_or(f);
                    o.insert(nm.clone(), j);
                    v2.push((nm, back));
                }
                (serde_json::json!({"origin_vertex": 0, "state_features": o}), UserPart::Features(v2))
            }
        };
        run_cf(ctx, idx, u + 2, cfg, tr, ac, query, us);
    }
}

// ---------------------------------------------------------------------------------------------
// direct calls: every method of StateFeature and CustomFeatureFormat
// ---------------------------------------------------------------------------------------------

fn fmt_s(f: &CustomFeatureFormat) -> String {
    match f {
        CustomFeatureFormat::FloatingPoint { initial } => format!("f:{}", fbits(initial.0)),
        CustomFeatureFormat::SignedInteger { initial } => format!("i:{}", initial),
        CustomFeatureFormat::UnsignedInteger { initial } => format!("u:{}", initial),
        CustomFeatureFormat::Boolean { initial } => format!("b:{}", if *initial { 1 } else { 0 }),
    }
}

fn res_s<T>(r: &Result<T, StateModelError>, f: impl Fn(&T) -> String) -> String {
    match r {
        Ok(x) => format!("ok {}", f(x)),
        Err(e) => format!("err {}", err_s(e)),
    }
}

/// `f64 as i64` written without `as`: truncate toward zero, saturate, NaN is 0
fn trunc_i64(x: f64) -> i64 {
    if x.is_nan() {
        0
    } else if x >= 9223372036854775808.0 {
        i64::MAX
    } else if x <= -9223372036854775808.0 {
        i64::MIN
    } else {
        let t = x.trunc();
        // |t| < 2^63: exactly representable as an integer
        format!("{:.0}", t).parse::<i64>().unwrap_or(0)
    }
}

fn trunc_u64(x: f64) -> u64 {
    if x.is_nan() || x <= 0.0 {
        0
    } else if x >= 18446744073709551616.0 {
        u64::MAX
    } else {
        format!("{:.0}", x.trunc()).parse::<u64>().unwrap_or(0)
    }
}

fn run_feat(ctx: &mut Ctx, idx: usize, f: Feat, g: Feat, x: f64, i: i64, n: u64, b: bool) {
    // floats travel as raw bit patterns (NaN included)
    let case = format!("feat {} {} {} {} {} {}", f.text(), g.text(), x.to_bits(), i, n, if b { 1 } else { 0 });
    let known: std::cell::RefCell<Vec<(&'static str, String)>> = std::cell::RefCell::new(vec![]);
    let res = catch_unwind(AssertUnwindSafe(|| {
        let mut fails: Vec<(&'static str, String)> = vec![];
        let sf = f.to_sf();
        let sg = g.to_sf();
        let fm = sf.get_feature_format();
        let js = serde_json::to_value(&sf).unwrap();
        let back = serde_json::from_value::<StateFeature>(js.clone());
        let hx = crate::jsonproto::hex;
        let du = sf.get_distance_unit();
        let tu = sf.get_time_unit();
        let eu = sf.get_energy_unit();
        let cf = sf.get_custom_feature_format().map(|x| *x);
        let init = sf.get_initial();
        let enc_f = fm.encode_f64(&x);
        let enc_i = fm.encode_i64(&i);
        let enc_u = fm.encode_u64(&n);
        let enc_b = fm.encode_bool(&b);
        let dec_f = fm.decode_f64(&StateVar(x));
        let dec_i = fm.decode_i64(&StateVar(x));
        let dec_u = fm.decode_u64(&StateVar(x));
        let dec_b = fm.decode_bool(&StateVar(x));
        let sv = |v: &StateVar| fbits(v.0);
        let out = format!(
            "type {} unit {} fmt {} init {} du {} tu {} eu {} cf {} eq {} json {} parse {} | name {} def {} init {} encf {} enci {} encu {} encb {} decf {} deci {} decu {} decb {}",
            hx(&sf.get_feature_type()),
            hx(&sf.get_feature_unit_name()),
            fmt_s(&fm),
            res_s(&init, sv),
            res_s(&du, |u| format!("{}", u)),
            res_s(&tu, |u| format!("{}", u)),
            res_s(&eu, |u| format!("{}", u)),
            res_s(&cf, fmt_s),
            if sf == sg { 1 } else { 0 },
            jb(&js),
            back.as_ref().map(feat_s).unwrap_or_else(|_| "-".to_string()),
            fm.name(),
            fmt_s(&CustomFeatureFormat::default()),
            res_s(&fm.initial(), sv),
            res_s(&enc_f, sv),
            res_s(&enc_i, sv),
            res_s(&enc_u, sv),
            res_s(&enc_b, sv),
            res_s(&dec_f, |v| fbits(*v)),
            res_s(&dec_i, |v| v.to_string()),
            res_s(&dec_u, |v| v.to_string()),
            res_s(&dec_b, |v| (if *v { "1" } else { "0" }).to_string()),
        );
        // ---- oracle, from the declaration `f` alone
        let (kind, ty, un): (u8, String, String) = match &f {
            Feat::D(u, _) => (0, "distance".to_string(), format!("{}", u)),
            Feat::T(u, _) => (1, "time".to_string(), format!("{}", u)),
            Feat::E(u, _) => (2, "energy".to_string(), format!("{}", u)),
            Feat::CF(t, u, _) | Feat::CI(t, u, _) | Feat::CU(t, u, _) | Feat::CB(t, u, _) => (3, t.clone(), u.clone()),
        };
        if sf.get_feature_type() != ty || sf.get_feature_unit_name() != un {
            fails.push(("feature/names", format!("{:?}: type {} unit {}", f, sf.get_feature_type(), sf.get_feature_unit_name())));
        }
        if du.is_ok() != (kind == 0) || tu.is_ok() != (kind == 1) || eu.is_ok() != (kind == 2) || cf.is_ok() != (kind == 3) {
            fails.push(("feature/getter-kind", format!("{:?}: get_distance_unit {} get_time_unit {} get_energy_unit {} get_custom_feature_format {}", f, du.is_ok(), tu.is_ok(), eu.is_ok(), cf.is_ok())));
        }
        for e in [du.as_ref().err(), tu.as_ref().err(), eu.as_ref().err(), cf.as_ref().err()].into_iter().flatten() {
            if err_s(e) != "funit" {
                fails.push(("feature/getter-kind", format!("{:?}: wrong-kind getter reports {}", f, e)));
            }
        }
        match &init {
            Ok(v) if v.0.to_bits() == f.initial().to_bits() || (v.0.is_nan() && f.initial().is_nan()) => {}
            other => fails.push(("state/initial-state", format!("{:?}: get_initial {:?}, declared {}", f, other.as_ref().map(|v| v.0).ok(), f.initial()))),
        }
        let fmt_kind: u8 = match &f {
            Feat::CI(..) => 1,
            Feat::CU(..) => 2,
            Feat::CB(..) => 3,
            _ => 0,
        };
        if kind != 3 && fmt_s(&fm) != "f:0" {
            fails.push(("feature/format", format!("{:?}: get_feature_format is {} (the default is floating point 0)", f, fmt_s(&fm))));
        }
        if (sf == sg) != f.same_kind(&g) {
            fails.push(("feature/eq", format!("{:?} == {:?} is {}", f, g, sf == sg)));
        }
        match &back {
            Ok(b2) if feat_s(b2) == feat_s(&sf) => {}
            other => {
                let msg = format!("{:?} serialises to {} which reads back as {:?}", f, js, other.as_ref().map(feat_s).ok());
                // a non-finite initial value is written as null (finding feature/serde-nonfinite)
                if x_nan_feature(&f) { known.borrow_mut().push(("feature/serde-nonfinite", msg)); } else { fails.push(("feature/serde-roundtrip", msg)); }
            }
        }
        let names = ["floating_point", "signed_integer", "unsigned_integer", "boolean"];
        if fm.name() != names[fmt_kind as usize] || !format!("{}", fm).starts_with(&format!("{}: ", names[fmt_kind as usize])) || format!("{}", sf).is_empty() {
            fails.push(("codec/name", format!("{:?}: name {} display {}", f, fm.name(), fm)));
        }
        // encoders / decoders accept exactly their own kind
        let oks = [enc_f.is_ok(), enc_i.is_ok(), enc_u.is_ok(), enc_b.is_ok()];
        for (k, ok) in oks.iter().enumerate() {
            if *ok != (k as u8 == fmt_kind) {
                fails.push(("codec/kind", format!("{:?}: encoder #{} ok = {}", f, k, ok)));
            }
        }
        let dks = [dec_f.is_ok(), dec_i.is_ok(), dec_u.is_ok() || matches!(dec_u, Err(StateModelError::ValueError(..))), dec_b.is_ok()];
        for (k, ok) in dks.iter().enumerate() {
            if *ok != (k as u8 == fmt_kind) {
                fails.push(("codec/kind", format!("{:?}: decoder #{} ok = {}", f, k, ok)));
            }
        }
        for e in [enc_f.as_ref().err(), enc_i.as_ref().err(), enc_u.as_ref().err(), enc_b.as_ref().err()].into_iter().flatten() {
            if err_s(e) != "enc" {
                fails.push(("codec/kind", format!("{:?}: wrong-kind encoder reports {}", f, e)));
            }
        }
        // values
        match fmt_kind {
            0 => {
                if enc_f.as_ref().ok().map(|v| v.0.to_bits()) != Some(x.to_bits()) || dec_f.as_ref().ok().map(|v| v.to_bits()) != Some(x.to_bits()) {
                    fails.push(("codec/value", format!("floating point codec is not the identity on {}", x)));
                }
            }
            1 => {
                if dec_i.as_ref().ok() != Some(&trunc_i64(x)) {
                    fails.push(("codec/value", format!("decode_i64({}) = {:?}, truncation gives {}", x, dec_i.as_ref().ok(), trunc_i64(x))));
                }
                let e = enc_i.as_ref().ok().map(|v| v.0).unwrap_or(f64::NAN);
                if fm.decode_i64(&StateVar(e)).ok() != Some(i) || format!("{:.0}", e) != i.to_string() {
                    let msg = format!("encode_i64({}) = {}, decoded back as {:?}", i, e, fm.decode_i64(&StateVar(e)).ok());
                    if i.unsigned_abs() <= (1u64 << 53) { fails.push(("codec/value", msg)); } else { known.borrow_mut().push(("codec/integer-precision", msg)); }
                }
            }
            2 => {
                if x < 0.0 {
                    if !matches!(dec_u, Err(StateModelError::ValueError(..))) {
                        fails.push(("codec/value", format!("decode_u64({}) = {:?}: a negative value must be a ValueError", x, dec_u.as_ref().ok())));
                    }
                } else if dec_u.as_ref().ok() != Some(&trunc_u64(x)) {
                    fails.push(("codec/value", format!("decode_u64({}) = {:?}, truncation gives {}", x, dec_u.as_ref().ok(), trunc_u64(x))));
                }
                let e = enc_u.as_ref().ok().map(|v| v.0).unwrap_or(f64::NAN);
                if fm.decode_u64(&StateVar(e)).ok() != Some(n) || format!("{:.0}", e) != n.to_string() {
                    let msg = format!("encode_u64({}) = {}, decoded back as {:?}", n, e, fm.decode_u64(&StateVar(e)).ok());
                    if n <= (1u64 << 53) { fails.push(("codec/value", msg)); } else { known.borrow_mut().push(("codec/integer-precision", msg)); }
                }
            }
            _ => {
                let e = enc_b.as_ref().ok().map(|v| v.0).unwrap_or(f64::NAN);
                if e != (if b { 1.0 } else { 0.0 }) || fm.decode_bool(&StateVar(e)).ok() != Some(b) {
                    fails.push(("codec/value", format!("encode_bool({}) = {}", b, e)));
                }
                if dec_b.as_ref().ok() != Some(&(x != 0.0)) {
                    fails.push(("codec/value", format!("decode_bool({}) = {:?}", x, dec_b.as_ref().ok())));
                }
            }
        }
        (out, fails)
    }));
    match res {
        Ok((out, fails)) => {
            ctx.emit(idx, case.clone(), norm(out));
            ctx.count("feat_direct");
            ctx.nontrivial(&case);
            if let Some((key, msg)) = fails.first() {
                ctx.fail(idx, key, msg.clone());
            }
            let mut seen_keys: Vec<&'static str> = vec![];
            for (key, msg) in known.borrow().iter() {
                if !seen_keys.contains(key) {
                    seen_keys.push(key);
                    ctx.fail(idx, key, msg.clone());
                }
            }
        }
        Err(_) => {
            ctx.emit(idx, case, "panic".to_string());
            ctx.fail(idx, "feature/panic", "a StateFeature / CustomFeatureFormat method panicked".to_string());
        }
    }
}

/// a non-finite initial value cannot be written as a JSON number (serde_json writes null)
fn x_nan_feature(f: &Feat) -> bool {
    match f {
        Feat::D(_, i) | Feat::T(_, i) | Feat::E(_, i) | Feat::CF(_, _, i) => !i.is_finite(),
        _ => false,
    }
}

fn edge_value(rng: &mut Rng) -> f64 {
    let vals = [
        0.0, -0.0, 0.5, -0.5, 1.5, 2.5, -2.5, 0.999999, -0.999999, 1.0, -1.0,
        9007199254740992.0, 9007199254740993.0, -9007199254740992.0,
        9223372036854775807.0, 9223372036854775808.0, -9223372036854775808.0, -9223372036854777856.0,
        18446744073709551615.0, 18446744073709551616.0, 1e30, -1e30, 4.9e-324, -4.9e-324,
        f64::MAX, f64::MIN, f64::INFINITY, f64::NEG_INFINITY, f64::NAN,
    ];
    if rng.chance(2, 3) {
        *rng.pick(&vals)
    } else {
        nice(rng)
    }
}

fn feat_cases(ctx: &mut Ctx) {
    let s = |x: &str| x.to_string();
    // ---- corpus: one feature of each kind against every kind, edge values
    let kinds: Vec<Feat> = vec![
        Feat::D(DistanceUnit::Miles, 1.5),
        Feat::T(TimeUnit::Minutes, 0.0),
        Feat::E(EnergyUnit::KilowattHours, -3.0),
        Feat::CF(s("soc"), s("percent"), 100.0),
        Feat::CI(s("count"), s("n"), i64::MIN),
        Feat::CU(s("count"), s("n"), u64::MAX),
        Feat::CB(s("flag"), s("bool"), true),
        Feat::CF(s("distance"), s("miles"), -0.0),
        Feat::CI(s("soc"), s("percent"), (1i64 << 53) + 1),
        // initial values JSON cannot carry
        Feat::D(DistanceUnit::Feet, f64::NAN),
        Feat::T(TimeUnit::Hours, f64::INFINITY),
        Feat::CF(s("soc"), s("percent"), f64::NEG_INFINITY),
    ];
    let xs = [f64::NAN, -0.0, 2.5, -2.5, 0.5, 9007199254740993.0, 18446744073709551616.0, -1.0, f64::INFINITY, f64::NEG_INFINITY, 9223372036854775808.0];
    let mut k = 0usize;
    for f in &kinds {
        for g in &kinds {
            let Some(idx) = ctx.begin() else { k += 1; continue };
            let x = xs[k % xs.len()];
            run_feat(ctx, idx, f.clone(), g.clone(), x, [i64::MAX, i64::MIN, (1 << 53) + 1, -7][k % 4], [u64::MAX, (1 << 53) + 1, 0, 12][k % 4], k % 2 == 0);
            k += 1;
        }
    }
    // ---- generated
    let n = ctx.n(1500, 30000);
    for _ in 0..n {
        let Some(idx) = ctx.begin() else { continue };
        let mut rng = Rng::for_case(ctx.seed, 11_000_011, idx as u64);
        let mut f = gen_feat(&mut rng);
        if rng.chance(3, 100) {
            let bad = *rng.pick(&[f64::NAN, f64::INFINITY, f64::NEG_INFINITY]);
            f = match f {
                Feat::D(u, _) => Feat::D(u, bad),
                Feat::T(u, _) => Feat::T(u, bad),
                Feat::E(u, _) => Feat::E(u, bad),
                Feat::CF(t, u, _) => Feat::CF(t, u, bad),
                other => other,
            };
        }
        let g = if rng.chance(1, 3) {
            match &f {
                Feat::CF(t, u, _) | Feat::CI(t, u, _) | Feat::CU(t, u, _) | Feat::CB(t, u, _) if rng.chance(1, 2) => Feat::CB(t.clone(), u.clone(), true),
                _ => f.clone(),
            }
        } else {
            gen_feat(&mut rng)
        };
        let x = edge_value(&mut rng);
        run_feat(ctx, idx, f, g, x, gen_i64(&mut rng), gen_u64(&mut rng), rng.chance(1, 2));
    }
}

// ---------------------------------------------------------------------------------------------
// StateModel::try_from(&json) and StateFeature from JSON
// ---------------------------------------------------------------------------------------------

fn run_parse(ctx: &mut Ctx, idx: usize, j: serde_json::Value, expect: Option<bool>) {
    let case = format!("parse {}", crate::jsonproto::enc(&j));
    let res = catch_unwind(AssertUnwindSafe(|| serde_json::from_value::<StateFeature>(j.clone())));
    match res {
        Ok(r) => {
            ctx.emit(idx, case.clone(), r.as_ref().map(feat_s).unwrap_or_else(|_| "-".to_string()));
            ctx.count(if r.is_ok() { "parse_feature_ok" } else { "parse_feature_rejected" });
            ctx.nontrivial(&case);
            if let Some(e) = expect {
                if e != r.is_ok() {
                    ctx.fail(idx, if e { "state/tryfrom-rejects" } else { "state/tryfrom-accepts-malformed" }, format!("{} parsed as {:?}", j, r.as_ref().map(feat_s).ok()));
                }
            }
        }
        Err(_) => {
            ctx.emit(idx, case, "panic".to_string());
            ctx.fail(idx, "state/panic", "StateFeature deserialisation panicked".to_string());
        }
    }
}

fn run_smjson(ctx: &mut Ctx, idx: usize, u: usize, j: serde_json::Value, expect: Option<Vec<(String, Feat)>>) {
    let case = format!("smjson {} {}", u, crate::jsonproto::enc(&j));
    let res = catch_unwind(AssertUnwindSafe(|| {
        let mut fails: Vec<(&'static str, String)> = vec![];
        let r = StateModel::try_from(&j);
        let out = match &r {
            Ok(m) => format!("ok {}", model_s(u, m)),
            Err(e) => format!("err {}", err_s(e)),
        };
        match (&r, &expect) {
            (Ok(m), Some(fs)) => {
                // slots follow the object's key order
                if let Some(f) = check_model(m, fs, u) {
                    fails.push(f);
                }
            }
            (Err(e), Some(_)) => fails.push(("state/tryfrom-rejects", format!("a well-formed [state] table was rejected: {}", e))),
            (Ok(_), None) => fails.push(("state/tryfrom-accepts-malformed", format!("a malformed [state] table was accepted: {}", j))),
            (Err(e), None) => {
                if err_s(e) != "build" {
                    fails.push(("state/tryfrom-rejects", format!("malformed table reported as {}", e)));
                }
            }
        }
        (out, fails, r.as_ref().map(|m| m.len()).unwrap_or(0), r.is_ok())
    }));
    match res {
        Ok((out, fails, n, ok)) => {
            ctx.emit(idx, case.clone(), norm(out));
            ctx.count(if ok { "smjson_ok" } else { "smjson_rejected" });
            if n >= 6 || !ok {
                ctx.nontrivial(&case);
            }
            if let Some((key, msg)) = fails.first() {
                ctx.fail(idx, key, msg.clone());
            }
        }
        Err(_) => {
            ctx.emit(idx, case, "panic".to_string());
            ctx.fail(idx, "state/panic", "StateModel::try_from panicked".to_string());
        }
    }
}

fn smjson_cases(ctx: &mut Ctx) {
    use serde_json::json;
    // ---- corpus: every accepted and rejected shape of one feature
    let shapes: Vec<(serde_json::Value, Option<bool>)> = vec![
        (json!({"distance_unit": "kilometers", "initial": 0.0}), Some(true)),
        (json!({"time_unit": "minutes", "initial": 0.0}), Some(true)),
        (json!({"energy_unit": "gallons_gasoline", "initial": 20}), Some(true)),
        (json!({"type": "soc", "unit": "percent", "format": {"floating_point": {"initial": 0.0}}}), Some(true)),
        (json!({"type": "soc", "unit": "percent", "format": {"signed_integer": {"initial": -4}}}), Some(true)),
        (json!({"type": "soc", "unit": "percent", "format": {"unsigned_integer": {"initial": 18446744073709551615u64}}}), Some(true)),
        (json!({"type": "soc", "unit": "percent", "format": {"boolean": {"initial": false}}}), Some(true)),
        // the shape the doc comments of state_model.rs and state_feature.rs give for a custom feature
        (json!({"name": "soc", "unit": "percent", "format": {"type": "floating_point", "initial": 0.0}}), None),
        (json!({"type": "soc", "unit": "percent", "format": {"type": "floating_point", "initial": 0.0}}), None),
        // serde's alternative encodings
        (json!(["miles", 1.0]), Some(false)),
        (json!(["miles", 1.0, 2.0]), None),
        (json!(["miles"]), None),
        (json!({"distance_unit": {"miles": null}, "initial": 1.0}), None),
        (json!({"distance_unit": {"miles": {}}, "initial": 1.0}), None),
        (json!({"distance_unit": {"miles": null, "feet": null}, "initial": 1.0}), None),
        (json!(["soc", "percent", {"boolean": [true]}]), Some(false)),
        (json!({"type": "soc", "unit": "percent", "format": {"boolean": [true]}}), None),
        (json!({"type": "soc", "unit": "percent", "format": ["boolean", true]}), None),
        (json!({"type": "soc", "unit": "percent", "format": {"boolean": [true, false]}}), None),
        (json!({"type": "soc", "unit": "percent", "format": {"boolean": []}}), None),
        (json!({"type": "soc", "unit": "percent", "format": {"boolean": true}}), None),
        (json!({"type": "soc", "unit": "percent", "format": {"signed_integer": {"initial": 9223372036854775808u64}}}), Some(false)),
        (json!({"type": "soc", "unit": "percent", "format": {"signed_integer": {"initial": 1.0}}}), Some(false)),
        (json!({"type": "soc", "unit": "percent", "format": {"floating_point": {"initial": 7}}}), Some(true)),
        (json!({"type": "soc", "unit": "percent", "format": {"floating_point": {"initial": null}}}), Some(false)),
        (json!({"type": "soc", "unit": "percent", "format": {"Boolean": {"initial": true}}}), Some(false)),
        (json!({"distance_unit": "Miles", "initial": 0.0}), Some(false)),
        (json!({"distance_unit": "miles", "initial": 0.0, "time_unit": "hours"}), Some(true)),
        (json!({"time_unit": "hours", "distance_unit": "leagues", "initial": 0.0}), Some(true)),
        (json!({"distance_unit": "miles", "initial": true}), Some(false)),
        (json!({"distance_unit": 2, "initial": 0.0}), Some(false)),
        (json!({"distance_unit": null, "initial": 0.0}), Some(false)),
        (json!({"energy_unit": "kilowatt_hours", "initial": 1e308}), Some(true)),
        (json!({"energy_unit": "kilowatt_hours", "initial": -0.0}), Some(true)),
    ];
    for (j, e) in shapes.iter() {
        let Some(idx) = ctx.begin() else { continue };
        run_parse(ctx, idx, j.clone(), *e);
    }
    for k in 0..16 {
        let Some(idx) = ctx.begin() else { continue };
        let mut rng = Rng::new(k);
        // bad_feature_json(k) deterministically
        let mut j = bad_feature_json(&mut rng);
        for _ in 0..64 {
            if rng.below(16) == k as usize {
                break;
            }
            j = bad_feature_json(&mut rng);
        }
        run_parse(ctx, idx, j, Some(false));
    }
    // ---- corpus: whole tables
    let tables: Vec<(serde_json::Value, Option<Vec<(String, Feat)>>)> = vec![
        (json!({}), Some(vec![])),
        (json!(null), None),
        (json!([]), None),
        (json!("state"), None),
        (json!(4), None),
        (json!([{"distance_unit": "miles", "initial": 0.0}]), None),
        (
            json!({"f2": {"distance_unit": "kilometers", "initial": 0.0}, "f0": {"time_unit": "minutes", "initial": 0.0},
                   "f1": {"type": "soc", "unit": "percent", "format": {"floating_point": {"initial": 0.0}}}}),
            Some(vec![
                ("f2".to_string(), Feat::D(DistanceUnit::Kilometers, 0.0)),
                ("f0".to_string(), Feat::T(TimeUnit::Minutes, 0.0)),
                ("f1".to_string(), Feat::CF("soc".to_string(), "percent".to_string(), 0.0)),
            ]),
        ),
        // the documented example of state_model.rs (TryFrom): its custom row is not what serde accepts
        (
            json!({"distance": {"distance_unit": "kilometers", "initial": 0.0}, "time": {"time_unit": "minutes", "initial": 0.0},
                   "battery_soc": {"name": "soc", "unit": "percent", "format": {"type": "floating_point", "initial": 0.0}}}),
            None,
        ),
    ];
    for (j, e) in tables {
        let Some(idx) = ctx.begin() else { continue };
        run_smjson(ctx, idx, 3, j, e);
    }
    // ---- generated tables
    let n = ctx.n(800, 16000);
    for _ in 0..n {
        let Some(idx) = ctx.begin() else { continue };
        let mut rng = Rng::for_case(ctx.seed, 1_100_011, idx as u64);
        let nf = match rng.below(10) { 0 => 0, 1..=2 => 1 + rng.below(4), 3 => 5, _ => 6 + rng.below(7) };
        let u = (nf + rng.below(3)).min(13);
        let nf = nf.min(u);
        let mut names: Vec<usize> = (0..u).collect();
        rng.shuffle(&mut names);
        let mut o = serde_json::Map::new();
        let mut expect: Vec<(String, Feat)> = vec![];
        for i in names.iter().take(nf) {
            let f = gen_feat_json_safe(&mut rng);
            let j = good_feature_json(&mut rng, &f);
            let back = parsed_back(&j).unwrap_or(f);
            o.insert(format!("f{}", i), j);
            expect.push((format!("f{}", i), back));
        }
        let malformed = rng.chance(1, 4);
        if malformed {
            let name = format!("f{}", rng.below(u.max(1)));
            o.insert(name, bad_feature_json(&mut rng));
        }
        run_smjson(ctx, idx, u, serde_json::Value::Object(o), if malformed { None } else { Some(expect) });
    }
}

// ---------------------------------------------------------------------------------------------
// SearchApp::build_search_instance: one application, a sequence of queries
// ---------------------------------------------------------------------------------------------
use routee_compass::app::compass::config::cost_model::cost_model_service::CostModelService;
use routee_compass::app::search::search_app::SearchApp;
use routee_compass::app::compass::search_orientation::SearchOrientation;
use routee_compass_core::algorithm::search::search_algorithm::SearchAlgorithm;
use routee_compass_core::algorithm::search::search_error::SearchError;
use routee_compass_core::model::access::access_model_service::AccessModelService;
use routee_compass_core::model::cost::cost_aggregation::CostAggregation;
use routee_compass_core::model::frontier::default::no_restriction::NoRestriction;
use routee_compass_core::model::frontier::frontier_model::FrontierModel;
use routee_compass_core::model::frontier::frontier_model_error::FrontierModelError;
use routee_compass_core::model::frontier::frontier_model_service::FrontierModelService;
use routee_compass_core::model::network::graph::Graph;
use routee_compass_core::model::termination::termination_model::TerminationModel;
use routee_compass_core::model::traversal::traversal_model_service::TraversalModelService;
use std::collections::HashMap;

fn pick_variant(q: &serde_json::Value, key: &str, fail_key: &str, vs: &[Vec<(String, StateFeature)>]) -> Option<Vec<(String, StateFeature)>> {
    if q.get(fail_key).is_some() {
        return None;
    }
    match q.get(key) {
        None => vs.first().cloned(),
        Some(v) => v.as_u64().and_then(|i| vs.get(i as usize).cloned()),
    }
}

struct TmSvc(Vec<Vec<(String, StateFeature)>>);
impl TraversalModelService for TmSvc {
    fn build(&self, q: &serde_json::Value) -> Result<Arc<dyn TraversalModel>, TraversalModelError> {
        pick_variant(q, "tm", "tm_fail", &self.0)
            .map(|f| Arc::new(Tm(f)) as Arc<dyn TraversalModel>)
            .ok_or_else(|| TraversalModelError::BuildError("requested by the query".to_string()))
    }
}
struct AmSvc(Vec<Vec<(String, StateFeature)>>);
impl AccessModelService for AmSvc {
    fn build(&self, q: &serde_json::Value) -> Result<Arc<dyn AccessModel>, AccessModelError> {
        pick_variant(q, "am", "am_fail", &self.0)
            .map(|f| Arc::new(Am(f)) as Arc<dyn AccessModel>)
            .ok_or_else(|| AccessModelError::BuildError("requested by the query".to_string()))
    }
}
struct FmSvc;
impl FrontierModelService for FmSvc {
    fn build(&self, q: &serde_json::Value, _m: Arc<StateModel>) -> Result<Arc<dyn FrontierModel>, FrontierModelError> {
        if q.get("fm_fail").is_some() {
            Err(FrontierModelError::BuildError("requested by the query".to_string()))
        } else {
            Ok(Arc::new(NoRestriction {}))
        }
    }
}

fn search_err_s(e: &SearchError) -> String {
    match e {
        SearchError::TraversalModelFailure { .. } => "traversal".to_string(),
        SearchError::AccessModelFailure { .. } => "access".to_string(),
        SearchError::StateFailure { source } => format!("state:{}", err_s(source)),
        SearchError::BuildError(_) => "cost".to_string(),
        SearchError::FrontierModelFailure { .. } => "frontier".to_string(),
        _ => "other".to_string(),
    }
}

fn run_bsi(ctx: &mut Ctx, idx: usize, u: usize, cfg: Vec<(String, Feat)>, trs: Vec<Vec<(String, Feat)>>, acs: Vec<Vec<(String, Feat)>>, queries: Vec<(serde_json::Value, UserPart)>) {
    let variants_text = |vs: &[Vec<(String, Feat)>]| {
        let mut v = vec![vs.len().to_string()];
        v.extend(vs.iter().map(|x| feats_text(x)));
        v.join(" ")
    };
    let case = format!(
        "bsi {} {} {} {} {} {}",
        u,
        feats_text(&cfg),
        variants_text(&trs),
        variants_text(&acs),
        queries.len(),
        queries.iter().map(|q| crate::jsonproto::enc(&q.0)).collect::<Vec<_>>().join(" ")
    );
    let to_sf = |fs: &[(String, Feat)]| -> Vec<(String, StateFeature)> { fs.iter().map(|(n, f)| (n.clone(), f.to_sf())).collect() };
    let res = catch_unwind(AssertUnwindSafe(|| {
        let mut fails: Vec<(&'static str, String)> = vec![];
        let weights: HashMap<String, f64> = (0..20).map(|i| (format!("f{}", i), 1.0)).collect();
        let app = SearchApp::new(
            SearchAlgorithm::Dijkstra,
            // one vertex, no edge: a destination-less search from vertex 0 ends at once with an empty tree
            Graph {
                adj: vec![CompactOrderedHashMap::empty()].into_boxed_slice(),
                rev: vec![CompactOrderedHashMap::empty()].into_boxed_slice(),
                edges: vec![].into_boxed_slice(),
                vertices: vec![Vertex::new(0, 0.0, 0.0)].into_boxed_slice(),
            },
            Arc::new(StateModel::new(to_sf(&cfg))),
            Arc::new(TmSvc(trs.iter().map(|x| to_sf(x)).collect())),
            Arc::new(AmSvc(acs.iter().map(|x| to_sf(x)).collect())),
            CostModelService {
                vehicle_rates: Arc::new(HashMap::new()),
                network_rates: Arc::new(HashMap::new()),
                weights: Arc::new(weights),
                cost_aggregation: CostAggregation::Sum,
                ignore_unknown_weights: true,
            },
            Arc::new(FmSvc),
            TerminationModel::IterationsLimit { limit: 10 },
        );
        let cfg_before = model_s(u, &app.state_model);
        let cfg_ref = declared(&cfg);
        let mut outs: Vec<String> = vec![];
        let mut seen: Vec<(String, String)> = vec![];
        let mut n_ok = 0usize;
        let mut max_len = 0usize;
        for (qi, (q, us)) in queries.iter().enumerate() {
            let r = app.build_search_instance(q);
            let rs = match &r {
                Ok(si) => {
                    n_ok += 1;
                    max_len = max_len.max(si.state_model.len());
                    format!("ok {}", model_s(u, &si.state_model))
                }
                Err(e) => format!("err {}", search_err_s(e)),
            };
            // nothing leaks: the application's own model is untouched, and the answer to a query does
            // not depend on the queries before it
            if model_s(u, &app.state_model) != cfg_before {
                fails.push(("state/per-query-leak", format!("query #{} {} changed the application's state model", qi, q)));
            }
            let qtext = q.to_string();
            match seen.iter().find(|e| e.0 == qtext) {
                Some((_, prev)) if *prev != rs => fails.push(("state/per-query-leak", format!("query #{} {} answered differently than before", qi, q))),
                Some(_) => {}
                None => seen.push((qtext, rs.clone())),
            }
            // expected outcome from the declarations
            let tr = pick_variant(q, "tm", "tm_fail", &trs.iter().map(|x| to_sf(x)).collect::<Vec<_>>()).map(|_| ());
            let tr_feats = if tr.is_some() { q.get("tm").and_then(|v| v.as_u64()).map(|i| trs[i as usize].clone()).or_else(|| trs.first().cloned()) } else { None };
            let ac = pick_variant(q, "am", "am_fail", &acs.iter().map(|x| to_sf(x)).collect::<Vec<_>>()).map(|_| ());
            let ac_feats = if ac.is_some() { q.get("am").and_then(|v| v.as_u64()).map(|i| acs[i as usize].clone()).or_else(|| acs.first().cloned()) } else { None };
            let expect: Result<Vec<(String, Feat)>, &str> = (|| {
                let trf = tr_feats.ok_or("traversal")?;
                let acf = ac_feats.ok_or("access")?;
                let model_ref = declared(&trf.iter().chain(acf.iter()).cloned().collect::<Vec<_>>());
                let mut entries = model_ref.clone();
                match us {
                    UserPart::Malformed => return Err("state:build"),
                    UserPart::Absent => {}
                    UserPart::Features(v) => {
                        for (nm, f) in v {
                            match model_ref.iter().find(|e| e.0 == *nm) {
                                None => return Err("state:unk"),
                                Some((_, old)) if old.to_sf().get_feature_type() != f.to_sf().get_feature_type() => return Err("state:ftype"),
                                _ => {}
                            }
                        }
                        entries.extend(v.clone());
                    }
                }
                let m = ref_extend(&cfg_ref, &entries).ok_or("state:build")?;
                if q.get("weights").is_some() || m.is_empty() {
                    return Err("cost");
                }
                if q.get("fm_fail").is_some() {
                    return Err("frontier");
                }
                Ok(m)
            })();
            match (&r, &expect) {
                (Ok(si), Ok(m)) => {
                    if let Some(f) = check_model(&si.state_model, m, u) {
                        fails.push((f.0, format!("query #{} {}: {}", qi, q, f.1)));
                    }
                }
                (Err(e), Err(k)) => {
                    if search_err_s(e) != *k {
                        fails.push(("state/per-query-error", format!("query #{} {} failed with {} (expected {})", qi, q, search_err_s(e), k)));
                    }
                }
                (Ok(_), Err(k)) => fails.push(("state/per-query-error", format!("query #{} {} was accepted (expected {})", qi, q, k))),
                (Err(e), Ok(_)) => fails.push(("state/per-query-error", format!("query #{} {} failed: {}", qi, q, e))),
            }
            // the whole entry points: the instance they hand back carries the same per-query state model
            // (the searches themselves belong to C01-C05 / C20)
            for orientation in [SearchOrientation::Vertex, SearchOrientation::Edge] {
                let ran = match orientation {
                    SearchOrientation::Vertex => app.run(q, &orientation).map(|x| x.1),
                    SearchOrientation::Edge => app.run_edge_oriented(q).map(|x| x.1),
                };
                match (&r, &ran) {
                    (Ok(si), Ok(si2)) => {
                        if model_s(u, &si.state_model) != model_s(u, &si2.state_model) {
                            fails.push(("state/per-query-leak", format!("query #{} {}: run() searched with another state model than build_search_instance built", qi, q)));
                        }
                    }
                    (Err(_), Ok(_)) => fails.push(("state/per-query-error", format!("query #{} {}: run() succeeded although build_search_instance fails", qi, q))),
                    _ => {}
                }
                if model_s(u, &app.state_model) != cfg_before {
                    fails.push(("state/per-query-leak", format!("query #{} {}: run() changed the application's state model", qi, q)));
                }
            }
            let names_joined = app.state_model.get_names();
            let names_list: Vec<String> = if names_joined.is_empty() { vec![] } else { names_joined.split(',').map(|x| x.to_string()).collect() };
            outs.push(format!("| {} | cfg {}", rs, list_s(&names_list)));
        }
        (outs.join(" "), fails, n_ok, max_len)
    }));
    match res {
        Ok((out, fails, n_ok, max_len)) => {
            ctx.emit(idx, case.clone(), norm(out));
            ctx.count_n("bsi_queries", queries.len() as u64);
            ctx.count_n("bsi_queries_ok", n_ok as u64);
            if max_len >= 6 {
                ctx.nontrivial(&case);
            }
            if let Some((key, msg)) = fails.first() {
                ctx.fail(idx, key, msg.clone());
            }
        }
        Err(_) => {
            ctx.emit(idx, case, "panic".to_string());
            ctx.fail(idx, "state/panic", "build_search_instance panicked".to_string());
        }
    }
}

fn bsi_cases(ctx: &mut Ctx) {
    let n = ctx.n(400, 8000);
    for _ in 0..n {
        let Some(idx) = ctx.begin() else { continue };
        let mut rng = Rng::for_case(ctx.seed, 11_111_111, idx as u64);
        let u = 3 + rng.below(10);
        let mut names: Vec<usize> = (0..u).collect();
        rng.shuffle(&mut names);
        let n_cfg = rng.below(u.min(6) + 1);
        let cfg: Vec<(String, Feat)> = names.iter().take(n_cfg).map(|i| (format!("f{}", i), gen_feat_json_safe(&mut rng))).collect();
        // a kind per name, so that variants mostly agree with each other and with the configuration
        let kinds: Vec<Feat> = (0..u).map(|i| cfg.iter().find(|e| e.0 == format!("f{}", i)).map(|e| e.1.clone()).unwrap_or_else(|| gen_feat_json_safe(&mut rng))).collect();
        let gen_list = |rng: &mut Rng, k: usize| -> Vec<(String, Feat)> {
            (0..k)
                .map(|_| {
                    let i = rng.below(u);
                    let f = if rng.chance(95, 100) { same_kind_variant(rng, &kinds[i]) } else { gen_feat_json_safe(rng) };
                    (format!("f{}", i), f)
                })
                .collect()
        };
        let trs: Vec<Vec<(String, Feat)>> = (0..1 + rng.below(3)).map(|_| { let k = rng.below(6); gen_list(&mut rng, k) }).collect();
        let acs: Vec<Vec<(String, Feat)>> = (0..1 + rng.below(2)).map(|_| { let k = rng.below(4); gen_list(&mut rng, k) }).collect();
        let nq = 2 + rng.below(6);
        let mut queries: Vec<(serde_json::Value, UserPart)> = vec![];
        for _ in 0..nq {
            if !queries.is_empty() && rng.chance(25, 100) {
                // the same query again
                let q = rng.pick(&queries).clone();
                queries.push(q);
                continue;
            }
            let mut o = serde_json::Map::new();
            o.insert("origin_vertex".to_string(), serde_json::json!(0));
            let ti = rng.below(trs.len() + 1);
            if rng.chance(2, 3) {
                o.insert("tm".to_string(), serde_json::json!(ti));
            }
            let ai = rng.below(acs.len());
            if rng.chance(1, 2) {
                o.insert("am".to_string(), serde_json::json!(ai));
            }
            match rng.below(24) {
                0 => { o.insert("tm_fail".to_string(), serde_json::json!(true)); }
                1 => { o.insert("am_fail".to_string(), serde_json::json!(true)); }
                2 => { o.insert("fm_fail".to_string(), serde_json::json!(true)); }
                3 => { o.insert("weights".to_string(), serde_json::json!({})); }
                _ => {}
            }
            let tr_f = if o.contains_key("tm") { trs.get(ti).cloned() } else { trs.first().cloned() }.unwrap_or_default();
            let ac_f = if o.contains_key("am") { acs.get(ai).cloned() } else { acs.first().cloned() }.unwrap_or_default();
            let model_names = declared(&tr_f.iter().chain(ac_f.iter()).cloned().collect::<Vec<_>>());
            let us = match rng.below(10) {
                0..=3 => UserPart::Absent,
                4 => {
                    o.insert("state_features".to_string(), match rng.below(3) { 0 => serde_json::json!(null), 1 => serde_json::json!([1]), _ => serde_json::json!({"f0": bad_feature_json(&mut rng)}) });
                    UserPart::Malformed
                }
                _ => {
                    let mut so = serde_json::Map::new();
                    let mut v = vec![];
                    let k = rng.below(4);
                    let mut bad_used = false;
                    for _ in 0..k {
                        if !model_names.is_empty() && (bad_used || rng.chance(90, 100)) {
                            let (nm, f) = rng.pick(&model_names).clone();
                            if v.iter().any(|e: &(String, Feat)| e.0 == nm) {
                                continue;
                            }
                            let f2 = same_kind_variant(&mut rng, &f);
                            so.insert(nm.clone(), feat_json(&f2));
                            v.push((nm, f2));
                        } else if !bad_used {
                            bad_used = true;
                            let nm = if rng.chance(1, 2) || model_names.is_empty() { format!("f{}", u + 1) } else { rng.pick(&model_names).0.clone() };
                            if v.iter().any(|e: &(String, Feat)| e.0 == nm) {
                                continue;
                            }
                            let f2 = gen_feat_json_safe(&mut rng);
                            so.insert(nm.clone(), feat_json(&f2));
                            v.push((nm, f2));
                        }
                    }
                    o.insert("state_features".to_string(), serde_json::Value::Object(so));
                    UserPart::Features(v)
                }
            };
            queries.push((serde_json::Value::Object(o), us));
        }
        run_bsi(ctx, idx, u + 2, cfg, trs, acs, queries);
    }
}

/// `StateModel::empty()` and `StateModel::from(vec)` as starting points of the state-model stream
fn sm_other_constructors(ctx: &mut Ctx) {
    let n = ctx.n(120, 2400);
    for k in 0..n {
        let Some(idx) = ctx.begin() else { continue };
        let mut rng = Rng::for_case(ctx.seed, 110_011, idx as u64);
        let u = 2 + rng.below(10);
        let empty = k % 2 == 0;
        let feats: Vec<(String, Feat)> = if empty { vec![] } else { (0..rng.below(u + 1)).map(|i| (format!("f{}", i), gen_feat(&mut rng))).collect() };
        let mut r = declared(&feats);
        let mut ops = vec![SmOp::Init];
        for _ in 0..(3 + rng.below(20)) {
            let op = gen_sm_op(&mut rng, u, &r);
            if let SmOp::Ext(fs) = &op {
                if let Some(r2) = ref_extend(&r, fs) {
                    r = r2;
                }
            }
            ops.push(op);
        }
        ctx.count(if empty { "sm_empty" } else { "sm_from_vec" });
        run_sm_kind(ctx, idx, if empty { "sme" } else { "smf" }, u, feats, ops);
    }
}

// ---------------------------------------------------------------------------------------------
// a `[state]` table of a TOML configuration, the way the application reads it
// (CompassApp::try_from_config_toml_string -> config crate -> serde_json::Value -> StateModel::try_from)
// ---------------------------------------------------------------------------------------------

fn toml_row(f: &Feat) -> String {
    let fl = |x: &f64| format!("{:?}", x);
    match f {
        Feat::D(u, i) => format!("{{ distance_unit = \"{}\", initial = {} }}", u, fl(i)),
        Feat::T(u, i) => format!("{{ time_unit = \"{}\", initial = {} }}", u, fl(i)),
        Feat::E(u, i) => format!("{{ energy_unit = \"{}\", initial = {} }}", u, fl(i)),
        Feat::CF(t, u, i) => format!("{{ type = \"{}\", unit = \"{}\", format = {{ floating_point = {{ initial = {} }} }} }}", t, u, fl(i)),
        Feat::CI(t, u, i) => format!("{{ type = \"{}\", unit = \"{}\", format = {{ signed_integer = {{ initial = {} }} }} }}", t, u, i),
        Feat::CU(t, u, i) => format!("{{ type = \"{}\", unit = \"{}\", format = {{ unsigned_integer = {{ initial = {} }} }} }}", t, u, i),
        Feat::CB(t, u, i) => format!("{{ type = \"{}\", unit = \"{}\", format = {{ boolean = {{ initial = {} }} }} }}", t, u, i),
    }
}

/// the model side sees the table as the JSON object in declaration order
fn run_tomlstate(ctx: &mut Ctx, idx: usize, dir: &std::path::Path, base_toml: &str, u: usize, rows: Vec<(String, Feat)>) {
    let mut o = serde_json::Map::new();
    for (n, f) in &rows {
        o.insert(n.clone(), feat_json(f));
    }
    let case = format!("smjson {} {}", u, crate::jsonproto::enc(&serde_json::Value::Object(o)));
    let mut toml = String::from(base_toml);
    toml.push_str("\n[state]\n");
    for (n, f) in &rows {
        toml.push_str(&format!("{} = {}\n", n, toml_row(f)));
    }
    let res = catch_unwind(AssertUnwindSafe(|| crate::c06::build_app(dir, &toml)));
    match res {
        Ok(Ok(app)) => {
            let m = &app.search_app.state_model;
            ctx.emit(idx, case.clone(), norm(format!("ok {}", model_s(u, m))));
            ctx.count("tomlstate_built");
            if rows.len() >= 6 {
                ctx.nontrivial(&case);
            }
            // the i-th declared row owns slot i
            let got: Vec<String> = m.indexed_iter().map(|(_, (n, _))| n.clone()).collect();
            let want: Vec<String> = rows.iter().map(|e| e.0.clone()).collect();
            if got != want {
                ctx.fail(idx, "state/config-order", format!("[state] rows declared as {:?} got the slots {:?}", want, got));
            } else if let Some(f) = check_model(m, &rows, u) {
                ctx.fail(idx, f.0, f.1);
            }
        }
        Ok(Err(e)) => {
            ctx.emit(idx, case, "err build".to_string());
            ctx.count("tomlstate_rejected");
            ctx.fail(idx, "state/tryfrom-rejects", format!("a well-formed [state] table was rejected: {}", e));
        }
        Err(_) => {
            ctx.emit(idx, case, "panic".to_string());
            ctx.fail(idx, "state/panic", "building the application panicked".to_string());
        }
    }
}

fn tomlstate_cases(ctx: &mut Ctx) {
    let root = std::fs::canonicalize(".").unwrap_or_else(|_| std::path::PathBuf::from(".")).join(format!("work/c11_{}", std::process::id()));
    let mut net_rng = Rng::new(ctx.seed ^ 0x11);
    let net = crate::c06::gen_net(&mut net_rng, 6);
    crate::c06::write_net(&root, &net);
    let base = crate::c06::config_toml(&root, 1, crate::c06::Traversal::Distance, &[], false, false, None);
    let f = |i: usize| format!("f{}", i);
    let s = |x: &str| x.to_string();
    // ---- corpus: six rows whose declaration order is neither alphabetical nor reversed
    let six: Vec<(String, Feat)> = vec![
        (f(4), Feat::D(DistanceUnit::Miles, 0.0)),
        (f(1), Feat::T(TimeUnit::Minutes, 1.5)),
        (f(5), Feat::E(EnergyUnit::KilowattHours, 60.0)),
        (f(0), Feat::CF(s("soc"), s("percent"), 100.0)),
        (f(3), Feat::CI(s("count"), s("n"), -3)),
        (f(2), Feat::CB(s("flag"), s("bool"), true)),
    ];
    let corpus: Vec<(usize, Vec<(String, Feat)>)> = vec![(6, six.clone()), (6, six[..2].to_vec()), (6, six[2..5].to_vec()), (1, vec![]), (6, six[..1].to_vec())];
    for (u, rows) in corpus {
        let Some(idx) = ctx.begin() else { continue };
        ctx.count("tomlstate_corpus");
        run_tomlstate(ctx, idx, &root, &base, u, rows);
    }
    let n = ctx.n(60, 600);
    for _ in 0..n {
        let Some(idx) = ctx.begin() else { continue };
        let mut rng = Rng::for_case(ctx.seed, 1_111_100, idx as u64);
        let u = 2 + rng.below(11);
        let mut names: Vec<usize> = (0..u).collect();
        rng.shuffle(&mut names);
        let k = match rng.below(4) { 0 => rng.below(3), _ => 2 + rng.below(u - 1) };
        let rows: Vec<(String, Feat)> = names.iter().take(k).map(|i| (f(*i), gen_feat_json_safe(&mut rng))).collect();
        run_tomlstate(ctx, idx, &root, &base, u, rows);
    }
    let _ = std::fs::remove_dir_all(&root);
}

pub fn run(ctx: &mut Ctx) -> &'static str {
    container_cases(ctx);
    sm_cases(ctx);
    cf_cases(ctx);
    feat_cases(ctx);
    smjson_cases(ctx);
    bsi_cases(ctx);
    sm_other_constructors(ctx);
    tomlstate_cases(ctx);
    "container: operation histories (empty/new/From/from_iter, then inserts of new keys and overwrites) over universes of 0..40 keys, every accessor observed after every operation; state model: 0..12 features of all seven kinds and all units built by new / from / empty / try_from(JSON) and extended, then initial_state / get / set / add / custom codecs / get_delta / serialize sequences, doubles compared bit-exactly; collect_features + extend with configured, traversal-model, access-model and query features (well-formed in every shape serde accepts, unknown names, other types, malformed); every StateFeature / CustomFeatureFormat method called directly on every kind with edge values (NaN, -0, .5, 2^53+1, 2^63, 2^64, infinities); StateFeature and [state] tables from JSON (accepted and rejected shapes); SearchApp::build_search_instance on query sequences against one application; [state] tables of 0..12 rows in a TOML configuration read the way the application reads it (CompassApp::try_from_config_toml_string); non-trivial = distinct case in which the container (or a state model) holds 6 or more entries at some point, a direct feature / parse call, or a rejected table; distinct by full case text"
}
