//! C18 — strongly connected components are exactly the mutual-reachability classes.
//! Correspondence: real `Graph` values are built in-process (public fields, as the tests of scc.rs do),
//! `all_strongly_connected_componenets` and `largest_strongly_connected_component` are run on them and
//! the canonicalised result (every component sorted, components sorted) is compared with the Lean model,
//! which receives `n`, the edge records and the `keys()` order of every `adj`/`rev` slot *as read back from
//! the real container*.  The Lean side also applies the verified checker `isSccPartition` to the model's
//! and to the implementation's component list (testing).
//! Oracle (independent of the model): transitive closure (Warshall on bit rows up to 64 vertices, BFS on
//! bit sets above) -> partition / soundness / completeness / largest-is-max on the real output.
//! The streams that reach the rest of the two anchor files (accessors of graph.rs, the two searches called
//! directly, Graph::from_files, recursion depth in a forked child) are in c18_net.rs.
use crate::ctx::Ctx;
use crate::rng::Rng;
use routee_compass_core::algorithm::component::scc::{
    all_strongly_connected_componenets, largest_strongly_connected_component,
};
use routee_compass_core::model::network::graph::Graph;
use routee_compass_core::model::network::{Edge, EdgeId, Vertex, VertexId};
use routee_compass_core::util::compact_ordered_hash_map::CompactOrderedHashMap;

/// the Lean checker is applied up to this many vertices (must equal `chkLimit` in Drv/C18.lean)
pub(crate) const CHK_LIMIT: usize = 48;
/// the slots are compared with the loader's insertion order up to this many vertex-edge pairs
/// (must equal `stdLimit` in Drv/C18.lean)
const STD_LIMIT: usize = 4000;
/// recursion depth of the real DFS is the length of the longest white path; keep chains well below
/// what an 8 MiB stack takes (measured with the release build: a one-way chain of 36 091 vertices passes, one
/// of at most 55 000 vertices aborts the process with a stack overflow) — stack depth is outside the model
const MAX_CHAIN_QUICK: usize = 1500;
const MAX_CHAIN_THOROUGH: usize = 4000;

pub(crate) type Slot = Vec<(usize, usize)>; // (edge id, stored vertex id) in insertion order

pub(crate) struct Spec {
    pub family: &'static str,
    pub n: usize,
    pub edges: Vec<(usize, usize)>,
    /// explicit adjacency slots (malformed stream); None = what the loader builds
    pub slots: Option<(Vec<Slot>, Vec<Slot>)>,
}

pub(crate) fn build(spec: &Spec) -> Graph {
    let vertices: Vec<Vertex> = (0..spec.n).map(|i| Vertex::new(i, i as f32, -(i as f32))).collect();
    let edges: Vec<Edge> = spec
        .edges
        .iter()
        .enumerate()
        .map(|(i, (s, d))| Edge::new(i, *s, *d, 1.0 + i as f64))
        .collect();
    let (adj, rev) = match &spec.slots {
        None => {
            // exactly what EdgeLoader does
            let mut adj = vec![CompactOrderedHashMap::empty(); spec.n];
            let mut rev = vec![CompactOrderedHashMap::empty(); spec.n];
            for e in &edges {
                if let Some(m) = adj.get_mut(e.src_vertex_id.0) {
                    m.insert(e.edge_id, e.dst_vertex_id);
                }
                if let Some(m) = rev.get_mut(e.dst_vertex_id.0) {
                    m.insert(e.edge_id, e.src_vertex_id);
                }
            }
            (adj, rev)
        }
        Some((a, r)) => {
            let mk = |slots: &Vec<Slot>| {
                slots
                    .iter()
                    .map(|s| {
                        let mut m = CompactOrderedHashMap::empty();
                        for (e, v) in s {
                            m.insert(EdgeId(*e), VertexId(*v));
                        }
                        m
                    })
                    .collect::<Vec<_>>()
            };
            (mk(a), mk(r))
        }
    };
    Graph {
        adj: adj.into_boxed_slice(),
        rev: rev.into_boxed_slice(),
        edges: edges.into_boxed_slice(),
        vertices: vertices.into_boxed_slice(),
    }
}

/// the harness's own notion of a well-formed graph, evaluated on the real `Graph` value: every edge record
/// joins two vertices, every slot of `adj` (`rev`) names only edges that leave (enter) that vertex, and every
/// edge is named by the slot of its source and of its destination.  The number of slots need not be the
/// number of vertices (the loader sizes the tables with the declared / scanned vertex count).
pub(crate) fn well_formed(g: &Graph) -> bool {
    let n = g.vertices.len();
    for e in g.edges.iter() {
        if e.src_vertex_id.0 >= n || e.dst_vertex_id.0 >= n {
            return false;
        }
    }
    let mut out_seen = vec![0usize; g.edges.len()];
    let mut in_seen = vec![0usize; g.edges.len()];
    for v in 0..g.adj.len() {
        for k in g.adj[v].keys() {
            match g.edges.get(k.0) {
                Some(e) if e.src_vertex_id.0 == v => out_seen[k.0] += 1,
                _ => return false,
            }
        }
    }
    for v in 0..g.rev.len() {
        for k in g.rev[v].keys() {
            match g.edges.get(k.0) {
                Some(e) if e.dst_vertex_id.0 == v => in_seen[k.0] += 1,
                _ => return false,
            }
        }
    }
    out_seen.iter().all(|c| *c >= 1) && in_seen.iter().all(|c| *c >= 1)
}

/// are the slots exactly what the loader's insertion order gives (ids of the edges leaving / entering `v`,
/// ascending)?  `-` above STD_LIMIT
pub(crate) fn std_flag(g: &Graph) -> &'static str {
    let n = g.vertices.len();
    if n * g.edges.len() > STD_LIMIT {
        return "-";
    }
    if g.adj.len() != n || g.rev.len() != n {
        return "0";
    }
    for v in 0..n {
        let out: Vec<usize> = g.edges.iter().enumerate().filter(|(_, e)| e.src_vertex_id.0 == v).map(|(i, _)| i).collect();
        let inn: Vec<usize> = g.edges.iter().enumerate().filter(|(_, e)| e.dst_vertex_id.0 == v).map(|(i, _)| i).collect();
        let a: Vec<usize> = g.adj[v].keys().map(|k| k.0).collect();
        let r: Vec<usize> = g.rev[v].keys().map(|k| k.0).collect();
        if a != out || r != inn {
            return "0";
        }
    }
    "1"
}

pub(crate) fn list_out(l: &[usize]) -> String {
    let mut s = l.len().to_string();
    for x in l {
        s.push(' ');
        s.push_str(&x.to_string());
    }
    s
}

pub(crate) fn comps_out(cs: &[Vec<usize>]) -> String {
    let mut s = cs.len().to_string();
    for c in cs {
        s.push(' ');
        s.push_str(&list_out(c));
    }
    s
}

pub(crate) fn slots_out<'a>(slots: impl Iterator<Item = &'a CompactOrderedHashMap<EdgeId, VertexId>>) -> String {
    let v: Vec<Vec<usize>> = slots.map(|m| m.keys().map(|k| k.0).collect()).collect();
    comps_out(&v)
}

pub(crate) fn case_line(g: &Graph, impl_comps: &Option<Vec<Vec<usize>>>) -> String {
    let mut s = String::from("scc ");
    s.push_str(&g.vertices.len().to_string());
    s.push(' ');
    s.push_str(&g.edges.len().to_string());
    for e in g.edges.iter() {
        s.push_str(&format!(" {} {}", e.src_vertex_id.0, e.dst_vertex_id.0));
    }
    s.push(' ');
    s.push_str(&slots_out(g.adj.iter()));
    s.push(' ');
    s.push_str(&slots_out(g.rev.iter()));
    match impl_comps {
        None => s.push_str(" n"),
        Some(cs) => {
            s.push_str(" s ");
            s.push_str(&comps_out(cs));
        }
    }
    s
}

/// reach[u] = bit set of the vertices reachable from u (u included), independent of scc.rs
pub(crate) fn closure(n: usize, edges: &[(usize, usize)]) -> Vec<Vec<u64>> {
    let w = (n + 63) / 64;
    let mut reach = vec![vec![0u64; w]; n];
    if n <= 64 {
        // Warshall on one machine word per row
        let mut r = vec![0u64; n];
        for u in 0..n {
            r[u] |= 1 << u;
        }
        for (s, d) in edges {
            r[*s] |= 1 << *d;
        }
        for k in 0..n {
            for i in 0..n {
                if r[i] >> k & 1 == 1 {
                    r[i] |= r[k];
                }
            }
        }
        for u in 0..n {
            reach[u][0] = r[u];
        }
    } else {
        let mut succ = vec![vec![]; n];
        for (s, d) in edges {
            succ[*s].push(*d);
        }
        for u in 0..n {
            let mut queue = std::collections::VecDeque::new();
            reach[u][u / 64] |= 1 << (u % 64);
            queue.push_back(u);
            while let Some(x) = queue.pop_front() {
                for y in &succ[x] {
                    if reach[u][*y / 64] >> (*y % 64) & 1 == 0 {
                        reach[u][*y / 64] |= 1 << (*y % 64);
                        queue.push_back(*y);
                    }
                }
            }
        }
    }
    reach
}

pub(crate) fn bit(r: &[u64], v: usize) -> bool {
    r[v / 64] >> (v % 64) & 1 == 1
}

/// the property, stated directly on the implementation's raw output
pub(crate) fn oracle(ctx: &mut Ctx, idx: usize, n: usize, edges: &[(usize, usize)], comps: &[Vec<usize>], largest: &[usize]) {
    // partition
    let mut owner: Vec<Option<usize>> = vec![None; n];
    let mut partition_ok = true;
    for (ci, c) in comps.iter().enumerate() {
        if c.is_empty() {
            ctx.fail(idx, "scc/empty-component", format!("component #{} is empty", ci));
            partition_ok = false;
        }
        for v in c {
            if *v >= n {
                ctx.fail(idx, "scc/not-a-vertex", format!("component #{} holds {} but n = {}", ci, v, n));
                partition_ok = false;
            } else if let Some(o) = owner[*v] {
                ctx.fail(idx, "scc/vertex-twice", format!("vertex {} in components #{} and #{}", v, o, ci));
                partition_ok = false;
            } else {
                owner[*v] = Some(ci);
            }
        }
    }
    for v in 0..n {
        if owner[v].is_none() {
            ctx.fail(idx, "scc/vertex-missing", format!("vertex {} is in no component", v));
            partition_ok = false;
        }
    }
    if partition_ok {
        let reach = closure(n, edges);
        'outer: for u in 0..n {
            for v in 0..n {
                let mutual = bit(&reach[u], v) && bit(&reach[v], u);
                let same = owner[u] == owner[v];
                if same && !mutual {
                    ctx.fail(idx, "scc/sound", format!("{} and {} share a component but are not mutually reachable", u, v));
                    break 'outer;
                }
                if mutual && !same {
                    ctx.fail(idx, "scc/complete", format!("{} and {} are mutually reachable but in different components", u, v));
                    break 'outer;
                }
            }
        }
    }
    // largest
    let max = comps.iter().map(|c| c.len()).max().unwrap_or(0);
    if largest.len() != max {
        ctx.fail(idx, "largest/not-max", format!("largest has {} vertices, the biggest component has {}", largest.len(), max));
    }
    if !comps.is_empty() {
        let mut l = largest.to_vec();
        l.sort();
        if !comps.iter().any(|c| {
            let mut c = c.clone();
            c.sort();
            c == l
        }) {
            ctx.fail(idx, "largest/not-a-component", format!("largest {:?} is not one of the components", largest));
        }
    } else if !largest.is_empty() {
        ctx.fail(idx, "largest/not-a-component", format!("no components but largest {:?}", largest));
    }
}

fn run_case(ctx: &mut Ctx, idx: usize, spec: &Spec) {
    let g = build(spec);
    let wf_b = well_formed(&g);
    let wf = format!("{} std {}", wf_b as u8, std_flag(&g));
    let n = g.vertices.len();
    let res = std::panic::catch_unwind(std::panic::AssertUnwindSafe(|| {
        (all_strongly_connected_componenets(&g), largest_strongly_connected_component(&g))
    }));
    ctx.count(&format!("family_{}", spec.family));
    ctx.count(match n {
        0..=4 => "n_0_4",
        5..=16 => "n_5_16",
        17..=48 => "n_17_48",
        49..=400 => "n_49_400",
        _ => "n_over_400",
    });
    ctx.count(if wf_b { "well_formed" } else { "malformed" });
    let mut self_loops = 0;
    let mut seen = std::collections::HashSet::new();
    let mut parallel = 0;
    let mut deg = vec![0usize; n];
    for (s, d) in &spec.edges {
        if s == d {
            self_loops += 1;
        }
        if !seen.insert((*s, *d)) {
            parallel += 1;
        }
        if *s < n {
            deg[*s] += 1;
        }
        if *d < n {
            deg[*d] += 1;
        }
    }
    if self_loops > 0 {
        ctx.count("has_self_loop");
    }
    if parallel > 0 {
        ctx.count("has_parallel_edges");
    }
    if deg.iter().any(|d| *d == 0) {
        ctx.count("has_isolated_vertex");
    }
    if spec.slots.is_none() && wf.ends_with('0') {
        // the container did not return the keys in insertion order
        ctx.fail(idx, "graph/slot-order", "adjacency slots built by insertion are not in insertion order".to_string());
    }
    match res {
        Err(_) => {
            ctx.emit(idx, case_line(&g, &None), format!("wf {} panic", wf));
            ctx.count("outcome_panic");
            ctx.fail(idx, "scc/panic", "the implementation panicked".to_string());
        }
        Ok((Ok(comps), Ok(largest))) => {
            let raw: Vec<Vec<usize>> = comps.iter().map(|c| c.iter().map(|v| v.0).collect()).collect();
            let raw_largest: Vec<usize> = largest.iter().map(|v| v.0).collect();
            let mut canon: Vec<Vec<usize>> = raw
                .iter()
                .map(|c| {
                    let mut c = c.clone();
                    c.sort();
                    c
                })
                .collect();
            canon.sort();
            let mut l = raw_largest.clone();
            l.sort();
            let chk = if wf_b && n <= CHK_LIMIT { "1 1" } else { "- -" };
            let out = format!("wf {} ok {} L {} chk {}", wf, comps_out(&canon), list_out(&l), chk);
            ctx.emit(idx, case_line(&g, &Some(canon.clone())), out);
            ctx.count("outcome_ok");
            let k = canon.len();
            ctx.count(match k {
                0 => "components_0",
                1 => "components_1",
                2..=4 => "components_2_4",
                5..=32 => "components_5_32",
                _ => "components_over_32",
            });
            let max = canon.iter().map(|c| c.len()).max().unwrap_or(0);
            if canon.iter().filter(|c| c.len() == max).count() > 1 {
                ctx.count("largest_tie");
                if max > 1 {
                    ctx.count("largest_tie_nonsingleton");
                }
            }
            if max > 1 && k > 1 {
                ctx.count("mixed_component_sizes");
            }
            if wf_b {
                if spec.edges.iter().any(|(s, d)| s != d) {
                    ctx.nontrivial(&case_line(&g, &None));
                }
                oracle(ctx, idx, n, &spec.edges, &raw, &raw_largest);
            }
        }
        Ok((a, b)) => {
            // an error of either call; both calls run the same passes
            let kind = |e: &routee_compass_core::model::network::NetworkError| match e {
                routee_compass_core::model::network::NetworkError::EdgeNotFound(_) => "edge_not_found",
                _ => "other",
            };
            let ka = a.as_ref().err().map(kind).unwrap_or("none");
            let kb = b.as_ref().err().map(kind).unwrap_or("none");
            let k = if ka == kb { ka.to_string() } else { format!("{}|{}", ka, kb) };
            ctx.emit(idx, case_line(&g, &None), format!("wf {} err {}", wf, k));
            ctx.count("outcome_err");
            if wf_b {
                ctx.fail(idx, "scc/error", format!("well-formed graph, error {}", k));
            }
        }
    }
}

// ---------------------------------------------------------------------------------------------
// generators

pub(crate) fn from_mask(n: usize, mask: u64) -> Vec<(usize, usize)> {
    let mut edges = vec![];
    for s in 0..n {
        for d in 0..n {
            if mask >> (s * n + d) & 1 == 1 {
                edges.push((s, d));
            }
        }
    }
    edges
}

pub(crate) fn permute(rng: &mut Rng, n: usize, edges: &mut Vec<(usize, usize)>) {
    let mut p: Vec<usize> = (0..n).collect();
    rng.shuffle(&mut p);
    for e in edges.iter_mut() {
        *e = (p[e.0], p[e.1]);
    }
    rng.shuffle(edges);
}

pub(crate) fn gen_random(rng: &mut Rng, n: usize, m: usize) -> Vec<(usize, usize)> {
    let mut edges = vec![];
    if n == 0 {
        return edges;
    }
    for _ in 0..m {
        let r = rng.below(20);
        if r == 0 {
            let v = rng.below(n);
            edges.push((v, v)); // self loop
        } else if r == 1 && !edges.is_empty() {
            let e = edges[rng.below(edges.len())];
            edges.push(e); // parallel edge
        } else if r == 2 && !edges.is_empty() {
            let e: (usize, usize) = edges[rng.below(edges.len())];
            edges.push((e.1, e.0)); // antiparallel
        } else {
            edges.push((rng.below(n), rng.below(n)));
        }
    }
    edges
}

/// planted components: blocks joined by cycles (plus chords), blocks ordered as a DAG
pub(crate) fn gen_planted(rng: &mut Rng, n: usize) -> Vec<(usize, usize)> {
    let mut edges = vec![];
    let mut blocks: Vec<Vec<usize>> = vec![];
    let mut v = 0;
    while v < n {
        let size = match rng.below(4) {
            0 => 1,
            1 => 2,
            _ => 1 + rng.below(1 + n / 3),
        }
        .min(n - v);
        blocks.push((v..v + size).collect());
        v += size;
    }
    for b in &blocks {
        if b.len() > 1 {
            for i in 0..b.len() {
                edges.push((b[i], b[(i + 1) % b.len()]));
            }
            for _ in 0..rng.below(b.len()) {
                edges.push((b[rng.below(b.len())], b[rng.below(b.len())]));
            }
        } else if rng.chance(1, 4) {
            edges.push((b[0], b[0]));
        }
    }
    let k = blocks.len();
    if k > 1 {
        for _ in 0..rng.below(2 * k + 1) {
            let i = rng.below(k);
            let j = rng.below(k);
            if i < j {
                let s = blocks[i][rng.below(blocks[i].len())];
                let d = blocks[j][rng.below(blocks[j].len())];
                edges.push((s, d));
            }
        }
    }
    edges
}

/// a long chain, optionally with back edges that nest cycles inside cycles
pub(crate) fn gen_chain(rng: &mut Rng, n: usize, nested: bool) -> Vec<(usize, usize)> {
    let mut edges = vec![];
    for i in 0..n.saturating_sub(1) {
        edges.push((i, i + 1));
    }
    if nested && n > 2 {
        // properly nested back edges (j -> i with intervals nested or disjoint)
        let mut stack: Vec<(usize, usize)> = vec![(0, n - 1)];
        let mut budget = 2 + rng.below(12);
        while let Some((lo, hi)) = stack.pop() {
            if budget == 0 || hi <= lo {
                continue;
            }
            budget -= 1;
            let a = lo + rng.below(hi - lo);
            let b = a + 1 + rng.below(hi - a);
            edges.push((b, a));
            if b > a + 2 {
                stack.push((a + 1, b - 1));
            }
            if rng.chance(1, 2) && b < hi {
                stack.push((b + 1, hi));
            }
        }
    }
    edges
}

/// rings of rings: `k` cycles whose representatives are joined in a cycle or in a path
pub(crate) fn gen_rings(rng: &mut Rng, n: usize) -> Vec<(usize, usize)> {
    let mut edges = vec![];
    if n == 0 {
        return edges;
    }
    let k = 1 + rng.below(n.min(6));
    let size = n / k;
    let mut reps = vec![];
    for b in 0..k {
        let lo = b * size;
        let hi = if b == k - 1 { n } else { lo + size };
        reps.push(lo);
        for i in lo..hi {
            let nxt = if i + 1 == hi { lo } else { i + 1 };
            if hi - lo > 1 || rng.chance(1, 2) {
                edges.push((i, nxt));
            }
        }
    }
    let close = rng.chance(1, 2);
    for b in 0..k {
        if b + 1 < k {
            edges.push((reps[b], reps[b + 1]));
        } else if close && k > 1 {
            edges.push((reps[b], reps[0]));
        }
    }
    edges
}

fn corpus() -> Vec<Spec> {
    let wf = |family, n, edges: Vec<(usize, usize)>| Spec { family, n, edges, slots: None };
    vec![
        // the fixture of scc.rs's own tests
        wf(
            "corpus",
            5,
            vec![(0, 1), (1, 0), (1, 2), (2, 1), (2, 3), (3, 2), (3, 0), (0, 3), (0, 2), (1, 3), (2, 0), (3, 1), (4, 4)],
        ),
        wf("corpus", 0, vec![]),
        wf("corpus", 1, vec![]),
        wf("corpus", 1, vec![(0, 0)]),
        // finishing order v, c, a, b: a is above b, b reaches a, a does not reach b
        wf("corpus", 4, vec![(0, 1), (1, 3), (1, 2), (3, 0)]),
        // a direction mix-up (forward DFS in the second pass) fails here: 0 -> 1 only
        wf("corpus", 2, vec![(0, 1)]),
        wf("corpus", 2, vec![(1, 0)]),
        // wrong finishing order fails here: 2 -> 0 -> 1 -> 0
        wf("corpus", 3, vec![(2, 0), (0, 1), (1, 0)]),
        wf("corpus", 3, vec![(0, 1), (1, 2), (2, 1)]),
        // two components of equal maximal size (tie of the largest)
        wf("corpus", 5, vec![(0, 1), (1, 0), (2, 3), (3, 2), (1, 2), (4, 0)]),
        wf("corpus", 4, vec![(2, 3), (3, 2), (0, 1), (1, 0)]),
        // more than four out-edges on one vertex (container leaves its compact representation)
        wf("corpus", 7, vec![(0, 1), (0, 2), (0, 3), (0, 4), (0, 5), (0, 6), (6, 0), (3, 0), (5, 4), (4, 5), (0, 0), (0, 1)]),
    ]
}

fn malformed(rng: &mut Rng) -> Spec {
    let n = 1 + rng.below(6);
    let m = rng.below(9);
    let kind = rng.below(5);
    let mut edges = gen_random(rng, n, m);
    match kind {
        0 => {
            // an edge record whose endpoint is not a vertex (the loader accepts this silently)
            let s = rng.below(n);
            let d = n + rng.below(3);
            if rng.chance(1, 2) {
                edges.push((s, d));
            } else {
                edges.push((d, s));
            }
            edges.push((rng.below(n), rng.below(n)));
            Spec { family: "malformed_endpoint", n, edges, slots: None }
        }
        1 => {
            // a slot names an edge id that does not exist
            let base = Spec { family: "x", n, edges: edges.clone(), slots: None };
            let (mut a, mut r) = slots_of(&base);
            let bad = edges.len() + rng.below(3);
            if rng.chance(1, 2) {
                let v = rng.below(n);
                a[v].push((bad, rng.below(n)));
            } else {
                let v = rng.below(n);
                r[v].push((bad, rng.below(n)));
            }
            Spec { family: "malformed_edge_id", n, edges, slots: Some((a, r)) }
        }
        2 => {
            // slots disagree with the edge records (the code follows the records)
            let base = Spec { family: "x", n, edges: edges.clone(), slots: None };
            let (mut a, mut r) = slots_of(&base);
            if !edges.is_empty() {
                let e = rng.below(edges.len());
                let v = rng.below(n);
                if rng.chance(1, 2) {
                    a[v].push((e, rng.below(n)));
                } else {
                    r[v].push((e, rng.below(n)));
                }
            }
            Spec { family: "malformed_inconsistent", n, edges, slots: Some((a, r)) }
        }
        3 => {
            // fewer / more slots than vertices
            let base = Spec { family: "x", n, edges: edges.clone(), slots: None };
            let (mut a, mut r) = slots_of(&base);
            if rng.chance(1, 2) {
                a.pop();
            } else {
                r.pop();
            }
            if rng.chance(1, 3) {
                a.push(vec![]);
            }
            Spec { family: "malformed_slot_count", n, edges, slots: Some((a, r)) }
        }
        _ => {
            // an edge missing from one of its two slots
            let base = Spec { family: "x", n, edges: edges.clone(), slots: None };
            let (mut a, mut r) = slots_of(&base);
            let side = if rng.chance(1, 2) { &mut a } else { &mut r };
            let nonempty: Vec<usize> = (0..side.len()).filter(|v| !side[*v].is_empty()).collect();
            if !nonempty.is_empty() {
                let v = nonempty[rng.below(nonempty.len())];
                let k = rng.below(side[v].len());
                side[v].remove(k);
            }
            Spec { family: "malformed_missing_slot_entry", n, edges, slots: Some((a, r)) }
        }
    }
}

pub(crate) fn slots_of(spec: &Spec) -> (Vec<Slot>, Vec<Slot>) {
    let mut a = vec![vec![]; spec.n];
    let mut r = vec![vec![]; spec.n];
    for (i, (s, d)) in spec.edges.iter().enumerate() {
        if *s < spec.n {
            a[*s].push((i, *d));
        }
        if *d < spec.n {
            r[*d].push((i, *s));
        }
    }
    (a, r)
}

pub fn run(ctx: &mut Ctx) -> &'static str {
    // 1. corpus
    for spec in corpus() {
        let Some(idx) = ctx.begin() else { continue };
        run_case(ctx, idx, &spec);
    }
    // 2. every digraph (self loops included) on n vertices: edge ids in row-major order
    let max_n = if ctx.quick() { 3 } else { 4 };
    for n in 0..=max_n {
        for mask in 0..(1u64 << (n * n)) {
            let Some(idx) = ctx.begin() else { continue };
            let spec = Spec { family: "exhaustive", n, edges: from_mask(n, mask), slots: None };
            run_case(ctx, idx, &spec);
        }
    }
    // ... and once more with the edge ids (hence the keys() order of every slot) shuffled
    let shuffled_n = 3;
    for mask in 0..(1u64 << (shuffled_n * shuffled_n)) {
        let Some(idx) = ctx.begin() else { continue };
        let mut rng = Rng::for_case(ctx.seed, 18, idx as u64);
        let mut edges = from_mask(shuffled_n, mask);
        rng.shuffle(&mut edges);
        let spec = Spec { family: "exhaustive_shuffled", n: shuffled_n, edges, slots: None };
        run_case(ctx, idx, &spec);
    }
    // 3. random 4- and 5-vertex graphs in the quick tier (the thorough tier has all 4-vertex ones)
    for _ in 0..ctx.n(6000, 60000) {
        let Some(idx) = ctx.begin() else { continue };
        let mut rng = Rng::for_case(ctx.seed, 18, idx as u64);
        let n = 4 + rng.below(2);
        let mask = rng.next() & ((1u64 << (n * n)) - 1) & rng.next();
        let mut edges = from_mask(n, mask);
        rng.shuffle(&mut edges);
        let spec = Spec { family: "random_small_mask", n, edges, slots: None };
        run_case(ctx, idx, &spec);
    }
    // 4. structured random graphs
    for _ in 0..ctx.n(6000, 40000) {
        let Some(idx) = ctx.begin() else { continue };
        let mut rng = Rng::for_case(ctx.seed, 18, idx as u64);
        let n = match rng.below(10) {
            0..=4 => 2 + rng.below(15),
            5..=7 => 17 + rng.below(32),
            8 => 49 + rng.below(100),
            _ => 150 + rng.below(if ctx.quick() { 150 } else { 850 }),
        };
        let (family, mut edges): (&'static str, _) = match rng.below(6) {
            0 => {
                // sparse: many isolated vertices and small components
                let m = rng.below(n + 1);
                ("random_sparse", gen_random(&mut rng, n, m))
            }
            1 => {
                let m = n + rng.below(2 * n + 1);
                ("random_medium", gen_random(&mut rng, n, m))
            }
            2 => {
                let m = (n * (1 + rng.below(6))).min(4000);
                ("random_dense", gen_random(&mut rng, n, m))
            }
            3 => ("planted_components", gen_planted(&mut rng, n)),
            4 => ("rings_of_rings", gen_rings(&mut rng, n)),
            _ => {
                let nested = rng.chance(3, 4);
                (if nested { "chain_nested_cycles" } else { "chain" }, gen_chain(&mut rng, n, nested))
            }
        };
        if rng.chance(3, 4) {
            permute(&mut rng, n, &mut edges);
        }
        let spec = Spec { family, n, edges, slots: None };
        run_case(ctx, idx, &spec);
    }
    // 5. long chains (recursion depth = chain length), plain / nested cycles / one big cycle
    let max_chain = if ctx.quick() { MAX_CHAIN_QUICK } else { MAX_CHAIN_THOROUGH };
    for k in 0..ctx.n(6, 24) {
        let Some(idx) = ctx.begin() else { continue };
        let mut rng = Rng::for_case(ctx.seed, 18, idx as u64);
        let n = max_chain / 2 + rng.below(max_chain / 2);
        let mut edges = gen_chain(&mut rng, n, k % 3 == 1);
        if k % 3 == 2 {
            edges.push((n - 1, 0));
        }
        if k % 2 == 1 {
            permute(&mut rng, n, &mut edges);
        }
        let spec = Spec { family: "long_chain", n, edges, slots: None };
        run_case(ctx, idx, &spec);
    }
    // 5b. recursion depth in a forked child; the accessors of graph.rs; the searches called directly;
    //     Graph::from_files followed by the analysis (c18_net.rs)
    crate::c18_net::run_deep(ctx);
    crate::c18_net::run_acc(ctx);
    crate::c18_net::run_dfs(ctx);
    crate::c18_net::run_file(ctx);
    // 6. malformed `Graph` values (correspondence only; the property speaks about well-formed graphs)
    for _ in 0..ctx.n(1000, 5000) {
        let Some(idx) = ctx.begin() else { continue };
        let mut rng = Rng::for_case(ctx.seed, 18, idx as u64);
        let spec = malformed(&mut rng);
        run_case(ctx, idx, &spec);
    }
    "component stream: corpus (scc.rs fixture, direction / finishing-order / tie witnesses), every digraph with self loops on <= 3 (quick) / <= 4 (thorough) vertices, the 3-vertex ones again with shuffled edge ids, random 4-5 vertex masks, structured random graphs up to 300 (quick) / 1000 (thorough) vertices (sparse with isolated vertices, medium, dense, planted components, rings of rings, chains with nested back edges; self loops, parallel and antiparallel edges; vertex ids and edge ids permuted), long chains up to 1500 / 4000 vertices, malformed Graph values (correspondence only); deep stream: chains / cycles / nested cycles 6 000 - 24 000 vertices deep in a forked child inside a default-stack thread (modelled) and 100 000 - 1 000 000 vertices (oracle only: independent Tarjan); accessor stream: every public function of graph.rs on well-formed and malformed Graph values with in-range, boundary and far ids; search stream: depth_first_search / reverse_depth_first_search called directly from arbitrary states; file stream: Graph::from_files (plain / gzip, declared / scanned counts, absent, empty, undecodable, truncated gzip, end point beyond rows, ids not rows, declared count too small / larger) followed by the analysis; non-trivial = well-formed graph with an edge between two distinct vertices, or any accessor / search / loaded-file case; distinct by full case text"
}
