//! C18, second part (coverage of the two anchor files): streams that reach what the component stream of
//! c18.rs does not.
//!   `acc`  every public function of graph.rs (n_edges, n_vertices, edge_ids, vertex_ids, get_edge, get_vertex,
//!          out_edges(_iter), in_edges(_iter), src/dst_vertex_id, incident_edges(_iter), incident_vertex,
//!          edge_triplet, incident_triplet_ids, incident_triplet_attributes) on `Graph` values built through the
//!          public fields — well formed and not (records whose id field is not their position, end points that
//!          are not vertices, slots naming edges that do not exist, slot tables of another size, no vertex, no
//!          edge) — with in-range, boundary and far out-of-range ids, so that every `None`/`Err` arm is taken.
//!   `dfs`  the two public search functions of scc.rs called directly with an arbitrary start vertex, a
//!          pre-filled visited set and a pre-filled stack.
//!   `file` `Graph::from_files` on files written by the harness (plain / gzip, declared / scanned counts,
//!          absent, empty, undecodable cell, truncated gzip, end point beyond the rows, ids that are not row
//!          numbers) followed by the component analysis of the loaded graph.
//!   `deep` graphs whose DFS tree is 6 000 … 20 000 vertices deep, run in a forked child inside a thread with
//!          the default stack size (a stack overflow kills the child, not the check), compared with the model;
//!   `big`  the same with 100 000 … 1 000 000 vertices, judged by the oracle only (the Lean model's visited set
//!          is a list: quadratic) — labelled `not-modelled` on both sides.
//! Oracles (independent of the Lean model): the accessor contracts restated over the struct's fields; for `dfs`
//! a breadth-first search that avoids the visited set; for `file` the closure oracle against the *listed*
//! edges; for `deep`/`big` an iterative Tarjan.
use crate::c18::{
    build, comps_out, gen_chain, gen_planted, gen_random, list_out, oracle, permute, slots_of, slots_out, well_formed, Slot, Spec,
    CHK_LIMIT,
};
use crate::ctx::{fbits, Ctx};
use crate::rng::Rng;
use routee_compass_core::algorithm::component::scc::{
    all_strongly_connected_componenets, depth_first_search, largest_strongly_connected_component, reverse_depth_first_search,
};
use routee_compass_core::algorithm::search::direction::Direction;
use routee_compass_core::model::network::graph::Graph;
use routee_compass_core::model::network::{Edge, EdgeId, NetworkError, Vertex, VertexId};
use routee_compass_core::model::unit::as_f64::AsF64;
use routee_compass_core::util::compact_ordered_hash_map::CompactOrderedHashMap;
use std::collections::HashSet;
use std::io::Write;
use std::path::{Path, PathBuf};

// ---------------------------------------------------------------------------------------------
// `acc`: the accessors

pub(crate) struct NetSpec {
    family: &'static str,
    vertices: Vec<(usize, f32, f32)>,
    edges: Vec<(usize, usize, usize, f64)>,
    adj: Vec<Slot>,
    rev: Vec<Slot>,
}

fn build_net(s: &NetSpec) -> Graph {
    let mk = |slots: &Vec<Slot>| {
        slots
            .iter()
            .map(|sl| {
                let mut m = CompactOrderedHashMap::empty();
                for (e, v) in sl {
                    m.insert(EdgeId(*e), VertexId(*v));
                }
                m
            })
            .collect::<Vec<_>>()
    };
    Graph {
        adj: mk(&s.adj).into_boxed_slice(),
        rev: mk(&s.rev).into_boxed_slice(),
        edges: s.edges.iter().map(|(i, a, b, d)| Edge::new(*i, *a, *b, *d)).collect::<Vec<_>>().into_boxed_slice(),
        vertices: s.vertices.iter().map(|(i, x, y)| Vertex::new(*i, *x, *y)).collect::<Vec<_>>().into_boxed_slice(),
    }
}

fn vertex_out(v: &Vertex) -> String {
    format!("{} {} {}", v.vertex_id.0, fbits(v.x() as f64), fbits(v.y() as f64))
}

fn edge_out(e: &Edge) -> String {
    format!("{} {} {} {}", e.edge_id.0, e.src_vertex_id.0, e.dst_vertex_id.0, fbits(e.distance.as_f64()))
}

fn net_err(e: &NetworkError) -> String {
    match e {
        NetworkError::EdgeNotFound(i) => format!("ne {}", i.0),
        NetworkError::VertexNotFound(i) => format!("nv {}", i.0),
        _ => "other".to_string(),
    }
}

fn ex_out<T>(r: Result<T, NetworkError>, f: impl Fn(T) -> String) -> String {
    match r {
        Ok(t) => format!("s {}", f(t)),
        Err(e) => net_err(&e),
    }
}

fn ids_out(l: &[EdgeId]) -> String {
    list_out(&l.iter().map(|e| e.0).collect::<Vec<_>>())
}

fn triplets_out(l: Vec<(VertexId, EdgeId, VertexId)>) -> String {
    let mut t = vec![l.len().to_string()];
    t.extend(l.iter().map(|(a, e, b)| format!("{} {} {}", a.0, e.0, b.0)));
    t.join(" ")
}

fn attrs_out(l: Vec<(&Vertex, &Edge, &Vertex)>) -> String {
    let mut t = vec![l.len().to_string()];
    t.extend(l.iter().map(|(a, e, b)| format!("{} {} {}", vertex_out(a), edge_out(e), vertex_out(b))));
    t.join(" ")
}

fn net_case_line(g: &Graph, pe: &[usize], pv: &[usize]) -> String {
    let mut t: Vec<String> = vec!["acc".into()];
    t.push(g.vertices.len().to_string());
    for v in g.vertices.iter() {
        t.push(vertex_out(v));
    }
    t.push(g.edges.len().to_string());
    for e in g.edges.iter() {
        t.push(edge_out(e));
    }
    for table in [&g.adj, &g.rev] {
        t.push(table.len().to_string());
        for m in table.iter() {
            let pairs: Vec<(usize, usize)> = m.iter().map(|(k, v)| (k.0, v.0)).collect();
            t.push(pairs.len().to_string());
            for (k, v) in pairs {
                t.push(format!("{} {}", k, v));
            }
        }
    }
    t.push(list_out(pe));
    t.push(list_out(pv));
    t.join(" ")
}

fn acc_out(g: &Graph, pe: &[usize], pv: &[usize]) -> String {
    let f = Direction::Forward;
    let r = Direction::Reverse;
    let mut t: Vec<String> = vec!["acc".into(), g.n_edges().to_string(), g.n_vertices().to_string()];
    for e in pe {
        let id = EdgeId(*e);
        t.push(format!("e {}", e));
        t.push(ex_out(g.get_edge(&id), edge_out));
        t.push(ex_out(g.src_vertex_id(&id), |v| v.0.to_string()));
        t.push(ex_out(g.dst_vertex_id(&id), |v| v.0.to_string()));
        t.push(ex_out(g.incident_vertex(&id, &f), |v| v.0.to_string()));
        t.push(ex_out(g.incident_vertex(&id, &r), |v| v.0.to_string()));
        t.push(ex_out(g.edge_triplet(&id), |(s, ed, d)| format!("{} {} {}", vertex_out(s), edge_out(ed), vertex_out(d))));
    }
    for v in pv {
        let id = VertexId(*v);
        t.push(format!("v {}", v));
        t.push(ex_out(g.get_vertex(&id), vertex_out));
        t.push(ids_out(&g.out_edges(&id)));
        t.push(ids_out(&g.in_edges(&id)));
        t.push(ids_out(&g.out_edges_iter(&id).cloned().collect::<Vec<_>>()));
        t.push(ids_out(&g.in_edges_iter(&id).cloned().collect::<Vec<_>>()));
        t.push(ids_out(&g.incident_edges(&id, &f)));
        t.push(ids_out(&g.incident_edges(&id, &r)));
        t.push(ids_out(&g.incident_edges_iter(&id, &f).cloned().collect::<Vec<_>>()));
        t.push(ids_out(&g.incident_edges_iter(&id, &r).cloned().collect::<Vec<_>>()));
        t.push(ex_out(g.incident_triplet_ids(&id, &f), triplets_out));
        t.push(ex_out(g.incident_triplet_ids(&id, &r), triplets_out));
        t.push(ex_out(g.incident_triplet_attributes(&id, &f), attrs_out));
        t.push(ex_out(g.incident_triplet_attributes(&id, &r), attrs_out));
    }
    t.push("ids".into());
    t.push(ids_out(&g.edge_ids().collect::<Vec<_>>()));
    t.push(list_out(&g.vertex_ids().map(|v| v.0).collect::<Vec<_>>()));
    t.join(" ")
}

#[derive(PartialEq, Debug)]
enum Exp<T> {
    Ok(T),
    NoEdge(usize),
    NoVertex(usize),
}

fn same<T: PartialEq, U>(got: &Result<U, NetworkError>, want: &Exp<T>, conv: impl Fn(&U) -> T) -> bool {
    match (got, want) {
        (Ok(u), Exp::Ok(t)) => conv(u) == *t,
        (Err(NetworkError::EdgeNotFound(i)), Exp::NoEdge(j)) => i.0 == *j,
        (Err(NetworkError::VertexNotFound(i)), Exp::NoVertex(j)) => i.0 == *j,
        _ => false,
    }
}

type VRec = (usize, u32, u32);
type ERec = (usize, usize, usize, u64);

fn vrec(v: &Vertex) -> VRec {
    (v.vertex_id.0, v.x().to_bits(), v.y().to_bits())
}
fn erec(e: &Edge) -> ERec {
    (e.edge_id.0, e.src_vertex_id.0, e.dst_vertex_id.0, e.distance.as_f64().to_bits())
}

/// the contracts of the accessors, restated over the four public fields (true of every `Graph` value)
fn acc_oracle(ctx: &mut Ctx, idx: usize, g: &Graph, pe: &[usize], pv: &[usize]) {
    let m = g.edges.len();
    let n = g.vertices.len();
    let f = Direction::Forward;
    let r = Direction::Reverse;
    if g.n_edges() != m || g.n_vertices() != n {
        ctx.fail(idx, "graph/sizes", format!("n_edges {} n_vertices {} but the tables hold {} and {}", g.n_edges(), g.n_vertices(), m, n));
    }
    if g.edge_ids().map(|e| e.0).collect::<Vec<_>>() != (0..m).collect::<Vec<_>>()
        || g.vertex_ids().map(|v| v.0).collect::<Vec<_>>() != (0..n).collect::<Vec<_>>()
    {
        ctx.fail(idx, "graph/id-ranges", "edge_ids / vertex_ids are not 0..len".to_string());
    }
    let want_vertex = |v: usize| -> Exp<VRec> {
        match g.vertices.get(v) {
            Some(x) => Exp::Ok(vrec(x)),
            None => Exp::NoVertex(v),
        }
    };
    for e in pe {
        let id = EdgeId(*e);
        let rec = g.edges.get(*e);
        let want: Exp<ERec> = match rec {
            Some(x) => Exp::Ok(erec(x)),
            None => Exp::NoEdge(*e),
        };
        if !same(&g.get_edge(&id), &want, |x| erec(x)) {
            ctx.fail(idx, "graph/get-edge", format!("get_edge({}) = {:?}", e, g.get_edge(&id).map(|x| erec(x)).map_err(|x| net_err(&x))));
        }
        let want_s: Exp<usize> = rec.map(|x| Exp::Ok(x.src_vertex_id.0)).unwrap_or(Exp::NoEdge(*e));
        let want_d: Exp<usize> = rec.map(|x| Exp::Ok(x.dst_vertex_id.0)).unwrap_or(Exp::NoEdge(*e));
        if !same(&g.src_vertex_id(&id), &want_s, |v| v.0) || !same(&g.dst_vertex_id(&id), &want_d, |v| v.0) {
            ctx.fail(idx, "graph/src-dst-vertex-id", format!("edge {}: src/dst_vertex_id differ from the record", e));
        }
        if !same(&g.incident_vertex(&id, &f), &want_d, |v| v.0) || !same(&g.incident_vertex(&id, &r), &want_s, |v| v.0) {
            ctx.fail(idx, "graph/incident-vertex", format!("edge {}: incident_vertex is not dst (forward) / src (reverse)", e));
        }
        let want_t: Exp<(VRec, ERec, VRec)> = match rec {
            None => Exp::NoEdge(*e),
            Some(x) => match (want_vertex(x.src_vertex_id.0), want_vertex(x.dst_vertex_id.0)) {
                (Exp::Ok(a), Exp::Ok(b)) => Exp::Ok((a, erec(x), b)),
                (Exp::Ok(_), _) => Exp::NoVertex(x.dst_vertex_id.0),
                _ => Exp::NoVertex(x.src_vertex_id.0),
            },
        };
        if !same(&g.edge_triplet(&id), &want_t, |(a, x, b)| (vrec(a), erec(x), vrec(b))) {
            ctx.fail(idx, "graph/edge-triplet", format!("edge_triplet({}) is not (vertex of src, record, vertex of dst) / the first missing part", e));
        }
    }
    for v in pv {
        let id = VertexId(*v);
        if !same(&g.get_vertex(&id), &want_vertex(*v), |x| vrec(x)) {
            ctx.fail(idx, "graph/get-vertex", format!("get_vertex({}) differs from the record at that position", v));
        }
        let out: Vec<usize> = g.adj.get(*v).map(|m| m.keys().map(|k| k.0).collect()).unwrap_or_default();
        let inn: Vec<usize> = g.rev.get(*v).map(|m| m.keys().map(|k| k.0).collect()).unwrap_or_default();
        let o = |l: Vec<EdgeId>| l.iter().map(|e| e.0).collect::<Vec<_>>();
        if o(g.out_edges(&id)) != out
            || o(g.in_edges(&id)) != inn
            || o(g.out_edges_iter(&id).cloned().collect()) != out
            || o(g.in_edges_iter(&id).cloned().collect()) != inn
        {
            ctx.fail(idx, "graph/out-in-edges", format!("vertex {}: out/in_edges(_iter) differ from the keys of its slot", v));
        }
        if o(g.incident_edges(&id, &f)) != out
            || o(g.incident_edges(&id, &r)) != inn
            || o(g.incident_edges_iter(&id, &f).cloned().collect()) != out
            || o(g.incident_edges_iter(&id, &r).cloned().collect()) != inn
        {
            ctx.fail(idx, "graph/incident-edges", format!("vertex {}: incident_edges(_iter) differ from out (forward) / in (reverse) edges", v));
        }
        for (fwd, dir, list) in [(true, &f, &out), (false, &r, &inn)] {
            let dname = if fwd { "forward" } else { "reverse" };
            // ids: (v, e, far end of e), first missing edge is the error
            let mut want_ids: Exp<Vec<(usize, usize, usize)>> = Exp::Ok(vec![]);
            for e in list.iter() {
                match g.edges.get(*e) {
                    None => {
                        want_ids = Exp::NoEdge(*e);
                        break;
                    }
                    Some(x) => {
                        let far = if fwd { x.dst_vertex_id.0 } else { x.src_vertex_id.0 };
                        if let Exp::Ok(l) = &mut want_ids {
                            l.push((*v, *e, far));
                        }
                    }
                }
            }
            if !same(&g.incident_triplet_ids(&id, dir), &want_ids, |l| l.iter().map(|(a, e, b)| (a.0, e.0, b.0)).collect::<Vec<_>>()) {
                ctx.fail(idx, "graph/triplet-ids", format!("vertex {} {}: incident_triplet_ids is not [(v, e, far end)] / the first missing edge", v, dname));
            }
            // attributes: records of (v, e, far end) in that order, first missing part is the error
            let want_attr: Exp<Vec<(VRec, ERec, VRec)>> = match &want_ids {
                Exp::NoEdge(e) => Exp::NoEdge(*e),
                Exp::NoVertex(x) => Exp::NoVertex(*x),
                Exp::Ok(l) => {
                    let mut acc: Exp<Vec<(VRec, ERec, VRec)>> = Exp::Ok(vec![]);
                    for (a, e, b) in l {
                        let va = match want_vertex(*a) {
                            Exp::Ok(x) => x,
                            _ => {
                                acc = Exp::NoVertex(*a);
                                break;
                            }
                        };
                        let er = erec(&g.edges[*e]);
                        let vb = match want_vertex(*b) {
                            Exp::Ok(x) => x,
                            _ => {
                                acc = Exp::NoVertex(*b);
                                break;
                            }
                        };
                        if let Exp::Ok(out) = &mut acc {
                            out.push((va, er, vb));
                        }
                    }
                    acc
                }
            };
            if !same(&g.incident_triplet_attributes(&id, dir), &want_attr, |l| {
                l.iter().map(|(a, e, b)| (vrec(a), erec(e), vrec(b))).collect::<Vec<_>>()
            }) {
                ctx.fail(idx, "graph/triplet-attributes", format!("vertex {} {}: incident_triplet_attributes is not the records of (v, e, far end) / the first missing part", v, dname));
            }
        }
    }
}

fn coord(rng: &mut Rng) -> (f32, f32) {
    ((-105.0 + rng.unit() * 0.5) as f32, (39.5 + rng.unit() * 0.5) as f32)
}

fn gen_net(rng: &mut Rng) -> NetSpec {
    let n = match rng.below(8) {
        0 => 0,
        1 => 1,
        _ => 1 + rng.below(9),
    };
    let m = if n == 0 { 0 } else { rng.below(14) };
    let pairs = gen_random(rng, n, m);
    let base = Spec { family: "x", n, edges: pairs.clone(), slots: None };
    let (mut adj, mut rev) = slots_of(&base);
    let mut vertices: Vec<(usize, f32, f32)> = (0..n)
        .map(|i| {
            let (x, y) = coord(rng);
            (i, x, y)
        })
        .collect();
    let mut edges: Vec<(usize, usize, usize, f64)> = pairs.iter().enumerate().map(|(i, (s, d))| (i, *s, *d, 1.0 + rng.below(900) as f64 / 8.0)).collect();
    let family = match rng.below(9) {
        0 | 1 | 2 => "acc_well_formed",
        3 => {
            // the id field of a record is not its position (the accessors address by position)
            if !edges.is_empty() {
                let k = rng.below(edges.len());
                edges[k].0 = rng.below(20);
            }
            if !vertices.is_empty() {
                let k = rng.below(vertices.len());
                vertices[k].0 = rng.below(20);
            }
            "acc_id_field_not_position"
        }
        4 => {
            // an end point that is not a vertex: edge_triplet / incident_triplet_attributes -> VertexNotFound
            if !edges.is_empty() {
                let k = rng.below(edges.len());
                if rng.chance(1, 2) {
                    edges[k].1 = n + rng.below(3);
                } else {
                    edges[k].2 = n + rng.below(3);
                }
            }
            "acc_endpoint_not_a_vertex"
        }
        5 => {
            // a slot names an edge that does not exist: incident_triplet_ids -> EdgeNotFound
            if n > 0 {
                let v = rng.below(n);
                let bad = edges.len() + rng.below(3);
                let pos = rng.below(adj[v].len() + 1);
                if rng.chance(1, 2) {
                    adj[v].insert(pos, (bad, rng.below(n)));
                } else {
                    let pos = rng.below(rev[v].len() + 1);
                    rev[v].insert(pos, (bad, rng.below(n)));
                }
            }
            "acc_slot_names_missing_edge"
        }
        6 => {
            // slot tables of another size than the vertex table: the `None` arm of out_/in_edges_iter
            if rng.chance(1, 2) {
                adj.pop();
                if rng.chance(1, 2) {
                    rev.pop();
                }
            } else {
                adj.push(vec![]);
                rev.push(vec![]);
                if !edges.is_empty() {
                    // an edge recorded at a slot beyond the vertices
                    let e = rng.below(edges.len());
                    let last = adj.len() - 1;
                    adj[last].push((e, 0));
                }
            }
            "acc_slot_table_size"
        }
        7 => {
            // a vertex with more than four edges (the container leaves its compact representations)
            if n > 0 {
                let v = rng.below(n);
                for _ in 0..(5 + rng.below(4)) {
                    let d = rng.below(n);
                    let id = edges.len();
                    edges.push((id, v, d, 2.5));
                    adj[v].push((id, d));
                    rev[d].push((id, v));
                }
            }
            "acc_high_degree"
        }
        _ => {
            // slots disagree with the records (the accessors trust the records for end points)
            if !edges.is_empty() && n > 0 {
                let e = rng.below(edges.len());
                let v = rng.below(n);
                adj[v].push((e, rng.below(n)));
            }
            "acc_slots_disagree"
        }
    };
    NetSpec { family, vertices, edges, adj, rev }
}

fn probes(rng: &mut Rng, len: usize, extra: usize) -> Vec<usize> {
    let top = len.max(extra);
    let mut p: Vec<usize> = if top <= 12 {
        (0..top).collect()
    } else {
        let mut s: Vec<usize> = (0..10).map(|_| rng.below(top)).collect();
        s.push(0);
        s.push(top - 1);
        s.sort();
        s.dedup();
        s
    };
    // boundary and far out of range
    p.push(top);
    p.push(top + 1 + rng.below(5));
    if rng.chance(1, 4) {
        p.push(usize::MAX);
    }
    p
}

fn acc_corpus() -> Vec<NetSpec> {
    vec![
        // no vertex, no edge
        NetSpec { family: "acc_corpus", vertices: vec![], edges: vec![], adj: vec![], rev: vec![] },
        // one vertex, one self loop
        NetSpec { family: "acc_corpus", vertices: vec![(0, 1.5, -2.5)], edges: vec![(0, 0, 0, 3.0)], adj: vec![vec![(0, 0)]], rev: vec![vec![(0, 0)]] },
        // edge 0 -> 7 with two vertices: edge_triplet(0) = VertexNotFound(7); attributes forward at 0 the same;
        // attributes reverse at 1 has nothing to report (the slot of vertex 7 does not exist)
        NetSpec {
            family: "acc_corpus",
            vertices: vec![(0, 0.0, 0.0), (1, 1.0, 1.0)],
            edges: vec![(0, 0, 7, 3.0), (1, 7, 1, 4.0)],
            adj: vec![vec![(0, 7)], vec![]],
            rev: vec![vec![], vec![(1, 7)]],
        },
        // a slot naming edge 9 after a good edge: the first error wins, the good triplet is dropped
        NetSpec {
            family: "acc_corpus",
            vertices: vec![(0, 0.0, 0.0), (1, 1.0, 1.0)],
            edges: vec![(0, 0, 1, 3.0)],
            adj: vec![vec![(0, 1), (9, 1)], vec![]],
            rev: vec![vec![], vec![(9, 0), (0, 0)]],
        },
        // parallel edges and a self loop at one vertex, reverse direction: (v, e, src of e)
        NetSpec {
            family: "acc_corpus",
            vertices: vec![(0, 0.0, 0.0), (1, 1.0, 1.0), (2, 2.0, 2.0)],
            edges: vec![(0, 0, 1, 3.0), (1, 0, 1, 4.0), (2, 1, 1, 5.0), (3, 2, 1, 6.0)],
            adj: vec![vec![(0, 1), (1, 1)], vec![(2, 1)], vec![(3, 1)]],
            rev: vec![vec![], vec![(0, 0), (1, 0), (2, 1), (3, 2)], vec![]],
        },
    ]
}

fn run_acc_case(ctx: &mut Ctx, idx: usize, rng: &mut Rng, spec: &NetSpec) {
    let g = build_net(spec);
    let pe = probes(rng, g.edges.len(), 0);
    let pv = probes(rng, g.vertices.len(), g.adj.len().max(g.rev.len()));
    let out = std::panic::catch_unwind(std::panic::AssertUnwindSafe(|| acc_out(&g, &pe, &pv)));
    ctx.count(&format!("family_{}", spec.family));
    match out {
        Ok(o) => {
            let line = net_case_line(&g, &pe, &pv);
            ctx.nontrivial(&line);
            // which error arms this case took (for the distribution)
            if o.contains(" ne ") {
                ctx.count("acc_edge_not_found_arm");
            }
            if o.contains(" nv ") {
                ctx.count("acc_vertex_not_found_arm");
            }
            ctx.emit(idx, line, o);
            acc_oracle(ctx, idx, &g, &pe, &pv);
        }
        Err(_) => {
            ctx.emit(idx, net_case_line(&g, &pe, &pv), "panic".to_string());
            ctx.fail(idx, "graph/panic", "an accessor panicked".to_string());
        }
    }
}

pub(crate) fn run_acc(ctx: &mut Ctx) {
    for spec in acc_corpus() {
        let Some(idx) = ctx.begin() else { continue };
        let mut rng = Rng::for_case(ctx.seed, 18, idx as u64);
        run_acc_case(ctx, idx, &mut rng, &spec);
    }
    for _ in 0..ctx.n(1500, 15000) {
        let Some(idx) = ctx.begin() else { continue };
        let mut rng = Rng::for_case(ctx.seed, 18, idx as u64);
        let spec = gen_net(&mut rng);
        run_acc_case(ctx, idx, &mut rng, &spec);
    }
}

// ---------------------------------------------------------------------------------------------
// `dfs`: the two public search functions called directly

fn run_dfs_case(ctx: &mut Ctx, idx: usize, rng: &mut Rng, spec: &Spec) {
    let g = build(spec);
    let wf = well_formed(&g);
    let n = spec.n;
    let reverse = rng.chance(1, 2);
    // start vertex: mostly a vertex, sometimes not one
    let start = if n == 0 || rng.chance(1, 12) { n + rng.below(3) } else { rng.below(n) };
    // pre-filled visited set and stack (arbitrary, the functions do not relate them)
    let mut visited0: Vec<usize> = vec![];
    let mut stack0: Vec<usize> = vec![];
    if n > 0 {
        for _ in 0..rng.below(n + 1) {
            if rng.chance(1, 2) {
                visited0.push(rng.below(n + 1));
            }
        }
        for _ in 0..rng.below(4) {
            stack0.push(rng.below(n + 2));
        }
    }
    visited0.sort();
    visited0.dedup();
    let mut visited: HashSet<VertexId> = visited0.iter().map(|v| VertexId(*v)).collect();
    let mut stack: Vec<VertexId> = stack0.iter().map(|v| VertexId(*v)).collect();
    let res = std::panic::catch_unwind(std::panic::AssertUnwindSafe(|| {
        if reverse {
            reverse_depth_first_search(&g, &VertexId(start), &mut visited, &mut stack)
        } else {
            depth_first_search(&g, &VertexId(start), &mut visited, &mut stack)
        }
    }));
    let line = format!(
        "dfs {} {} {} {} {}",
        crate::c18::case_line(&g, &None).trim_start_matches("scc ").trim_end_matches(" n"),
        reverse as u8,
        start,
        list_out(&visited0),
        list_out(&stack0)
    );
    ctx.count(if reverse { "dfs_reverse" } else { "dfs_forward" });
    match res {
        Err(_) => {
            ctx.emit(idx, line, "panic".to_string());
            ctx.fail(idx, "dfs/panic", "the search panicked".to_string());
        }
        Ok(Err(e)) => {
            let k = match e {
                NetworkError::EdgeNotFound(_) => "edge_not_found",
                _ => "other",
            };
            ctx.emit(idx, line, format!("err {}", k));
            if wf {
                ctx.fail(idx, "dfs/error", format!("well-formed graph, error {}", k));
            }
        }
        Ok(Ok(())) => {
            let mut vis: Vec<usize> = visited.iter().map(|v| v.0).collect();
            vis.sort();
            let st: Vec<usize> = stack.iter().map(|v| v.0).collect();
            ctx.emit(idx, line.clone(), format!("ok {} {}", list_out(&vis), list_out(&st)));
            ctx.nontrivial(&line);
            if wf {
                // white-path theorem, by an independent breadth-first search that avoids the visited set
                let mut succ = vec![vec![]; n];
                for (s, d) in &spec.edges {
                    if reverse {
                        succ[*d].push(*s);
                    } else {
                        succ[*s].push(*d);
                    }
                }
                let blocked: HashSet<usize> = visited0.iter().cloned().collect();
                let mut white: Vec<usize> = vec![];
                if !blocked.contains(&start) {
                    let mut seen: HashSet<usize> = HashSet::new();
                    let mut queue = std::collections::VecDeque::new();
                    seen.insert(start);
                    queue.push_back(start);
                    while let Some(x) = queue.pop_front() {
                        white.push(x);
                        if x < n {
                            for y in &succ[x] {
                                if !blocked.contains(y) && seen.insert(*y) {
                                    queue.push_back(*y);
                                }
                            }
                        }
                    }
                }
                white.sort();
                if st.len() < stack0.len() || st[..stack0.len()] != stack0[..] {
                    ctx.fail(idx, "dfs/stack-prefix", "the entries already on the stack were changed".to_string());
                } else {
                    let mut pushed: Vec<usize> = st[stack0.len()..].to_vec();
                    if pushed.last().map(|v| *v != start).unwrap_or(!white.is_empty()) {
                        ctx.fail(idx, "dfs/root-not-last", format!("the start vertex {} is not the last push", start));
                    }
                    pushed.sort();
                    if pushed != white {
                        ctx.fail(idx, "dfs/white-path", format!("pushed {:?} but the vertices reachable from {} avoiding the visited set are {:?}", pushed, start, white));
                    }
                    let mut want_vis: Vec<usize> = visited0.iter().cloned().chain(white.iter().cloned()).collect();
                    want_vis.sort();
                    want_vis.dedup();
                    if vis != want_vis {
                        ctx.fail(idx, "dfs/visited", "visited is not the old set plus the pushed vertices".to_string());
                    }
                }
            }
        }
    }
}

pub(crate) fn run_dfs(ctx: &mut Ctx) {
    for _ in 0..ctx.n(1500, 15000) {
        let Some(idx) = ctx.begin() else { continue };
        let mut rng = Rng::for_case(ctx.seed, 18, idx as u64);
        let n = match rng.below(6) {
            0 => rng.below(3),
            _ => 2 + rng.below(14),
        };
        let mut edges = match rng.below(3) {
            0 => {
                let m = rng.below(2 * n + 1);
                gen_random(&mut rng, n, m)
            }
            1 => gen_planted(&mut rng, n),
            _ => gen_chain(&mut rng, n, true),
        };
        if rng.chance(1, 2) {
            permute(&mut rng, n, &mut edges);
        }
        let mut spec = Spec { family: "dfs", n, edges, slots: None };
        if rng.chance(1, 10) && n > 0 {
            // a slot that names a missing edge: the `?` arm of the searches
            let (mut a, mut r) = slots_of(&spec);
            let bad = spec.edges.len() + rng.below(2);
            let v = rng.below(n);
            a[v].push((bad, 0));
            r[v].push((bad, 0));
            spec.slots = Some((a, r));
        }
        run_dfs_case(ctx, idx, &mut rng, &spec);
    }
}

// ---------------------------------------------------------------------------------------------
// `file`: Graph::from_files, then the component analysis of what was loaded

#[derive(Clone, Copy, PartialEq, Debug)]
enum Defect {
    None,
    EdgeFileAbsent,
    VertexFileAbsent,
    EdgeFileEmpty,
    VertexFileEmpty,
    BadEdgeCell,
    BadVertexCell,
    TruncatedEdgeGz,
    TruncatedVertexGz,
    EndpointBeyondRows,
    EdgeIdNotRow,
    VertexIdNotRow,
    DeclaredVerticesTooFew,
    DeclaredVerticesMore,
}

struct FileCase {
    defect: Defect,
    vertices: Vec<(usize, f32, f32)>,
    edges: Vec<(usize, usize, usize, f64)>,
    bad_row: usize,
    n_e: Option<usize>,
    n_v: Option<usize>,
    e_gz: bool,
    v_gz: bool,
}

fn write_bytes(path: &Path, text: &str, gz: bool, truncate: bool) {
    let mut bytes: Vec<u8> = vec![];
    if gz {
        let mut enc = flate2::write::GzEncoder::new(&mut bytes, flate2::Compression::default());
        enc.write_all(text.as_bytes()).expect("gz write");
        enc.finish().expect("gz finish");
    } else {
        bytes.extend_from_slice(text.as_bytes());
    }
    if truncate {
        // keep the ten-byte gzip header and half of what follows
        let keep = 10 + (bytes.len() - 10) / 2;
        bytes.truncate(keep);
    }
    std::fs::write(path, bytes).expect("write case file");
}

fn f32_text(x: f32) -> String {
    format!("{:?}", x)
}

fn file_paths(dir: &Path, idx: usize, c: &FileCase) -> (PathBuf, PathBuf) {
    (
        dir.join(format!("c18_{}_edges.csv{}", idx, if c.e_gz { ".gz" } else { "" })),
        dir.join(format!("c18_{}_vertices.csv{}", idx, if c.v_gz { ".gz" } else { "" })),
    )
}

/// writes the files; returns (edge file text lines, vertex file text lines)
fn write_files(e_path: &Path, v_path: &Path, c: &FileCase) -> (usize, usize) {
    let _ = std::fs::remove_file(e_path);
    let _ = std::fs::remove_file(v_path);
    let mut e_text = String::from("edge_id,src_vertex_id,dst_vertex_id,distance\n");
    for (k, (i, s, d, x)) in c.edges.iter().enumerate() {
        if c.defect == Defect::BadEdgeCell && k == c.bad_row {
            e_text.push_str(&format!("{},{},north,{:?}\n", i, s, x));
        } else {
            e_text.push_str(&format!("{},{},{},{:?}\n", i, s, d, x));
        }
    }
    let mut v_text = String::from("vertex_id,x,y\n");
    for (k, (i, x, y)) in c.vertices.iter().enumerate() {
        if c.defect == Defect::BadVertexCell && k == c.bad_row {
            v_text.push_str(&format!("{},{},\n", i, f32_text(*x)));
        } else {
            v_text.push_str(&format!("{},{},{}\n", i, f32_text(*x), f32_text(*y)));
        }
    }
    if c.defect == Defect::EdgeFileEmpty {
        e_text.clear();
    }
    if c.defect == Defect::VertexFileEmpty {
        v_text.clear();
    }
    if c.defect != Defect::EdgeFileAbsent {
        write_bytes(e_path, &e_text, c.e_gz, c.defect == Defect::TruncatedEdgeGz);
    }
    if c.defect != Defect::VertexFileAbsent {
        write_bytes(v_path, &v_text, c.v_gz, c.defect == Defect::TruncatedVertexGz);
    }
    (e_text.matches('\n').count(), v_text.matches('\n').count())
}

fn opt_tok(o: Option<usize>) -> String {
    match o {
        Some(n) => format!("s {}", n),
        None => "n".to_string(),
    }
}

/// the case line in the format of C15's `load` cases (decoding is not modelled: a file that cannot be read to
/// its end — absent, or a truncated gzip stream — is `present = 0`; an undecodable row is `b`)
fn file_case_line(c: &FileCase, e_lines: usize, v_lines: usize) -> String {
    let mut t: Vec<String> = vec!["file".into(), format!("{:?}", c.defect), opt_tok(c.n_e), opt_tok(c.n_v)];
    let e_unreadable = matches!(c.defect, Defect::EdgeFileAbsent | Defect::TruncatedEdgeGz);
    let v_unreadable = matches!(c.defect, Defect::VertexFileAbsent | Defect::TruncatedVertexGz);
    t.push(if e_unreadable { "0" } else { "1" }.into());
    t.push(e_lines.to_string());
    // the csv reader finds a header row (C15's `hasHeader`): not in a file without any content
    t.push(if c.defect == Defect::EdgeFileEmpty { "0" } else { "1" }.into());
    if e_unreadable || c.defect == Defect::EdgeFileEmpty {
        t.push("0".into());
    } else {
        t.push(c.edges.len().to_string());
        for (k, (i, s, d, x)) in c.edges.iter().enumerate() {
            if c.defect == Defect::BadEdgeCell && k == c.bad_row {
                t.push("b".into());
            } else {
                t.push(format!("r {} {} {} {}", i, s, d, fbits(*x)));
            }
        }
    }
    t.push(if v_unreadable { "0" } else { "1" }.into());
    t.push(v_lines.to_string());
    t.push(if c.defect == Defect::VertexFileEmpty { "0" } else { "1" }.into());
    if v_unreadable || c.defect == Defect::VertexFileEmpty {
        t.push("0".into());
    } else {
        t.push(c.vertices.len().to_string());
        for (k, (i, x, y)) in c.vertices.iter().enumerate() {
            if c.defect == Defect::BadVertexCell && k == c.bad_row {
                t.push("b".into());
            } else {
                t.push(format!("r {} {} {}", i, fbits(*x as f64), fbits(*y as f64)));
            }
        }
    }
    t.join(" ")
}

fn gen_file_case(rng: &mut Rng, defect: Defect) -> FileCase {
    let n = match rng.below(6) {
        0 => 1,
        _ => 2 + rng.below(10),
    };
    let m = match defect {
        Defect::None if rng.chance(1, 8) => 0,
        _ => 1 + rng.below(2 * n + 2),
    };
    let pairs = match rng.below(3) {
        0 => gen_planted(rng, n),
        _ => gen_random(rng, n, m),
    };
    let mut pairs = if pairs.is_empty() && defect != Defect::None { vec![(0, n - 1)] } else { pairs };
    if rng.chance(1, 2) {
        permute(rng, n, &mut pairs);
    }
    let mut vertices: Vec<(usize, f32, f32)> = (0..n)
        .map(|i| {
            let (x, y) = coord(rng);
            (i, x, y)
        })
        .collect();
    let mut edges: Vec<(usize, usize, usize, f64)> = pairs.iter().enumerate().map(|(i, (s, d))| (i, *s, *d, 1.0 + rng.below(900) as f64 / 8.0)).collect();
    let scan_e = rng.chance(1, 2);
    let scan_v = rng.chance(1, 2);
    let mut n_e = if scan_e { None } else { Some(edges.len()) };
    let mut n_v = if scan_v { None } else { Some(n) };
    if !scan_e && rng.chance(1, 4) {
        // the declared edge count only sizes a progress bar
        n_e = Some(rng.below(2 * edges.len() + 2));
    }
    let mut bad_row = 0;
    match defect {
        Defect::BadEdgeCell => bad_row = rng.below(edges.len()),
        Defect::BadVertexCell => bad_row = rng.below(vertices.len()),
        Defect::EndpointBeyondRows => {
            let k = rng.below(edges.len());
            if rng.chance(1, 2) {
                edges[k].1 = n + rng.below(2);
            } else {
                edges[k].2 = n + rng.below(2);
            }
        }
        Defect::EdgeIdNotRow => {
            let k = rng.below(edges.len());
            edges[k].0 += 1 + rng.below(3);
        }
        Defect::VertexIdNotRow => {
            let k = rng.below(vertices.len());
            vertices[k].0 += 1 + rng.below(3);
        }
        Defect::DeclaredVerticesTooFew => {
            // the tables are sized by the declared count: an end point at or beyond it is rejected
            let top = edges.iter().map(|e| e.1.max(e.2)).max().unwrap_or(0);
            n_v = Some(rng.below(top + 1));
        }
        Defect::DeclaredVerticesMore => {
            // more slots than vertex rows: loads, the surplus slots stay empty
            n_v = Some(n + 1 + rng.below(3));
        }
        _ => {}
    }
    let mut e_gz = rng.chance(1, 2);
    let mut v_gz = rng.chance(1, 2);
    if defect == Defect::TruncatedEdgeGz {
        e_gz = true;
    }
    if defect == Defect::TruncatedVertexGz {
        v_gz = true;
    }
    FileCase { defect, vertices, edges, bad_row, n_e, n_v, e_gz, v_gz }
}

fn graph_digest(g: &Graph) -> String {
    format!("{} {} {} {}", g.n_edges(), g.n_vertices(), slots_out(g.adj.iter()), slots_out(g.rev.iter()))
}

fn run_file_case(ctx: &mut Ctx, idx: usize, dir: &Path, c: &FileCase) {
    let (e_path, v_path) = file_paths(dir, idx, c);
    let (e_lines, v_lines) = write_files(&e_path, &v_path, c);
    let line = file_case_line(c, e_lines, v_lines);
    ctx.count(&format!("file_{:?}", c.defect));
    let (ep, vp, ne, nv) = (e_path.clone(), v_path.clone(), c.n_e, c.n_v);
    // the loader prints a progress bar on stderr; the check captures and drops the harness's output
    let loaded = std::panic::catch_unwind(move || Graph::from_files(&ep, &vp, ne, nv, Some(false)));
    let _ = std::fs::remove_file(&e_path);
    let _ = std::fs::remove_file(&v_path);
    let listed_ok = matches!(c.defect, Defect::None | Defect::DeclaredVerticesMore);
    match loaded {
        Err(_) => {
            ctx.emit(idx, line, "panic".to_string());
            ctx.fail(idx, "file/panic", format!("Graph::from_files panicked ({:?})", c.defect));
        }
        Ok(Err(e)) => {
            let k = match e {
                NetworkError::IOError { .. } => "io",
                NetworkError::DatasetError(_) => "dataset",
                NetworkError::CsvError { .. } => "csv",
                _ => "other",
            };
            ctx.emit(idx, line, format!("err {}", k));
            ctx.count(&format!("file_outcome_err_{}", k));
            if listed_ok {
                ctx.fail(idx, "file/listed-network-rejected", format!("files in the documented format were rejected: {}", k));
            }
        }
        Ok(Ok(g)) => {
            ctx.count("file_outcome_loaded");
            // an empty (0-byte) edge file with a declared edge count is read as "no edges" (C15's model says so
            // too: the declared edge count only sizes a progress bar); every other defect must be rejected
            let edgeless_ok = c.defect == Defect::EdgeFileEmpty && c.n_e.is_some();
            if !listed_ok && !edgeless_ok {
                ctx.fail(idx, "file/defective-files-accepted", format!("{:?} loaded without error", c.defect));
            }
            let wf = well_formed(&g);
            if !wf {
                ctx.fail(idx, "file/loaded-graph-not-well-formed", format!("{:?}: the loaded graph's slots do not describe its edge records", c.defect));
            }
            let n = g.vertices.len();
            let res = std::panic::catch_unwind(std::panic::AssertUnwindSafe(|| {
                (all_strongly_connected_componenets(&g), largest_strongly_connected_component(&g))
            }));
            match res {
                Ok((Ok(comps), Ok(largest))) => {
                    let raw: Vec<Vec<usize>> = comps.iter().map(|c| c.iter().map(|v| v.0).collect()).collect();
                    let raw_largest: Vec<usize> = largest.iter().map(|v| v.0).collect();
                    let mut canon: Vec<Vec<usize>> = raw
                        .iter()
                        .map(|c| {
                            let mut c = c.clone();
                            c.sort();
                            c
                        })
                        .collect();
                    canon.sort();
                    let mut l = raw_largest.clone();
                    l.sort();
                    let chk = if wf && n <= CHK_LIMIT { "1" } else { "-" };
                    let full = format!("{} s {}", line, comps_out(&canon));
                    ctx.emit(idx, full.clone(), format!("ok {} wf {} scc {} L {} chk {}", graph_digest(&g), wf as u8, comps_out(&canon), list_out(&l), chk));
                    ctx.nontrivial(&full);
                    if listed_ok {
                        // the property against the network that was *listed* in the files
                        let listed: Vec<(usize, usize)> = c.edges.iter().map(|e| (e.1, e.2)).collect();
                        oracle(ctx, idx, c.vertices.len(), &listed, &raw, &raw_largest);
                    }
                }
                Ok(_) => {
                    ctx.emit(idx, format!("{} n", line), format!("ok {} wf {} scc err", graph_digest(&g), wf as u8));
                    ctx.fail(idx, "scc/error", "component analysis of a loaded graph returned an error".to_string());
                }
                Err(_) => {
                    ctx.emit(idx, format!("{} n", line), format!("ok {} wf {} scc panic", graph_digest(&g), wf as u8));
                    ctx.fail(idx, "scc/panic", "component analysis of a loaded graph panicked".to_string());
                }
            }
        }
    }
}

pub(crate) fn run_file(ctx: &mut Ctx) {
    let dir = std::env::temp_dir().join(format!("cvh_c18_{}", std::process::id()));
    std::fs::create_dir_all(&dir).expect("scratch directory");
    let defects = [
        Defect::None,
        Defect::None,
        Defect::None,
        Defect::DeclaredVerticesMore,
        Defect::EdgeFileAbsent,
        Defect::VertexFileAbsent,
        Defect::EdgeFileEmpty,
        Defect::VertexFileEmpty,
        Defect::BadEdgeCell,
        Defect::BadVertexCell,
        Defect::TruncatedEdgeGz,
        Defect::TruncatedVertexGz,
        Defect::EndpointBeyondRows,
        Defect::EdgeIdNotRow,
        Defect::VertexIdNotRow,
        Defect::DeclaredVerticesTooFew,
    ];
    // corpus: witnesses of /repo 81bf7f8 (a gzip file cut off inside its first block, read with a declared
    // count, was an empty table: the edge file gave a network without edges, the vertex file no vertices)
    for which in [Defect::TruncatedEdgeGz, Defect::TruncatedVertexGz, Defect::None] {
        let Some(idx) = ctx.begin() else { continue };
        let c = FileCase {
            defect: which,
            vertices: vec![(0, -105.0, 39.5), (1, -105.25, 39.75), (2, -104.5, 39.25)],
            edges: vec![(0, 0, 1, 12.5), (1, 1, 0, 12.5), (2, 1, 2, 3.0)],
            bad_row: 0,
            n_e: Some(3),
            n_v: Some(3),
            e_gz: true,
            v_gz: true,
        };
        run_file_case(ctx, idx, &dir, &c);
    }
    for k in 0..ctx.n(480, 4800) {
        let Some(idx) = ctx.begin() else { continue };
        let mut rng = Rng::for_case(ctx.seed, 18, idx as u64);
        let c = gen_file_case(&mut rng, defects[k % defects.len()]);
        run_file_case(ctx, idx, &dir, &c);
    }
    let _ = std::fs::remove_dir_all(&dir);
}

// ---------------------------------------------------------------------------------------------
// `deep` / `big`: recursion depth, in a forked child inside a thread with the default stack size

/// an iterative Tarjan, independent of scc.rs and of the Lean model: the components, each sorted, sorted
fn tarjan(n: usize, edges: &[(usize, usize)]) -> Vec<Vec<usize>> {
    let mut start = vec![0usize; n + 1];
    for (s, _) in edges {
        start[*s + 1] += 1;
    }
    for i in 0..n {
        start[i + 1] += start[i];
    }
    let mut fill = start.clone();
    let mut succ = vec![0usize; edges.len()];
    for (s, d) in edges {
        succ[fill[*s]] = *d;
        fill[*s] += 1;
    }
    const NONE: usize = usize::MAX;
    let mut index = vec![NONE; n];
    let mut low = vec![0usize; n];
    let mut on = vec![false; n];
    let mut st: Vec<usize> = vec![];
    let mut comps: Vec<Vec<usize>> = vec![];
    let mut next = 0usize;
    let mut frames: Vec<(usize, usize)> = vec![];
    for root in 0..n {
        if index[root] != NONE {
            continue;
        }
        index[root] = next;
        low[root] = next;
        next += 1;
        st.push(root);
        on[root] = true;
        frames.push((root, start[root]));
        while let Some((v, pos)) = frames.last_mut() {
            let v = *v;
            if *pos < start[v + 1] {
                let w = succ[*pos];
                *pos += 1;
                if index[w] == NONE {
                    index[w] = next;
                    low[w] = next;
                    next += 1;
                    st.push(w);
                    on[w] = true;
                    frames.push((w, start[w]));
                } else if on[w] {
                    low[v] = low[v].min(index[w]);
                }
            } else {
                frames.pop();
                if let Some((p, _)) = frames.last() {
                    let p = *p;
                    low[p] = low[p].min(low[v]);
                }
                if low[v] == index[v] {
                    let mut c = vec![];
                    loop {
                        let w = st.pop().unwrap();
                        on[w] = false;
                        c.push(w);
                        if w == v {
                            break;
                        }
                    }
                    c.sort();
                    comps.push(c);
                }
            }
        }
    }
    comps.sort();
    comps
}

enum ChildResult {
    /// canonical components and largest
    Ok(Vec<Vec<usize>>, Vec<usize>),
    Err(String),
    Panic,
    /// the child was killed by a signal (stack overflow: SIGSEGV / SIGABRT) or by its alarm
    Killed(i32),
    /// fork / pipe failed: not a verdict
    Unavailable,
}

/// runs both public functions on `g` in a forked child, inside `std::thread::spawn` (default stack size,
/// 2 MiB unless RUST_MIN_STACK says otherwise)
fn scc_in_child(g: Graph, secs: u32) -> ChildResult {
    unsafe {
        let mut fds = [0i32; 2];
        if libc::pipe(fds.as_mut_ptr()) != 0 {
            return ChildResult::Unavailable;
        }
        let pid = libc::fork();
        if pid < 0 {
            libc::close(fds[0]);
            libc::close(fds[1]);
            return ChildResult::Unavailable;
        }
        if pid == 0 {
            libc::close(fds[0]);
            let devnull = libc::open(b"/dev/null\0".as_ptr() as *const libc::c_char, libc::O_WRONLY);
            if devnull >= 0 {
                libc::dup2(devnull, 2);
            }
            libc::alarm(secs);
            std::env::remove_var("RUST_MIN_STACK");
            let handle = std::thread::spawn(move || {
                std::panic::catch_unwind(std::panic::AssertUnwindSafe(|| {
                    (all_strongly_connected_componenets(&g), largest_strongly_connected_component(&g))
                }))
            });
            let msg = match handle.join() {
                Ok(Ok((Ok(comps), Ok(largest)))) => {
                    let mut canon: Vec<Vec<usize>> = comps
                        .iter()
                        .map(|c| {
                            let mut c: Vec<usize> = c.iter().map(|v| v.0).collect();
                            c.sort();
                            c
                        })
                        .collect();
                    canon.sort();
                    let mut l: Vec<usize> = largest.iter().map(|v| v.0).collect();
                    l.sort();
                    format!("O {} L {}", comps_out(&canon), list_out(&l))
                }
                Ok(Ok(_)) => "E".to_string(),
                _ => "P".to_string(),
            };
            let b = msg.as_bytes();
            let mut off = 0;
            while off < b.len() {
                let k = libc::write(fds[1], b[off..].as_ptr() as *const libc::c_void, b.len() - off);
                if k <= 0 {
                    break;
                }
                off += k as usize;
            }
            libc::_exit(0);
        }
        libc::close(fds[1]);
        let mut buf = Vec::new();
        let mut chunk = vec![0u8; 1 << 16];
        loop {
            let k = libc::read(fds[0], chunk.as_mut_ptr() as *mut libc::c_void, chunk.len());
            if k <= 0 {
                break;
            }
            buf.extend_from_slice(&chunk[..k as usize]);
        }
        libc::close(fds[0]);
        let mut status = 0i32;
        libc::waitpid(pid, &mut status, 0);
        if libc::WIFSIGNALED(status) {
            return ChildResult::Killed(libc::WTERMSIG(status));
        }
        if !(libc::WIFEXITED(status) && libc::WEXITSTATUS(status) == 0) || buf.is_empty() {
            return ChildResult::Killed(0);
        }
        let s = String::from_utf8_lossy(&buf).to_string();
        match s.as_bytes()[0] {
            b'O' => {
                let toks: Vec<usize> = s.split(' ').filter_map(|t| t.parse::<usize>().ok()).collect();
                // "O k (len v*)*k L len v*"
                let mut p = 0;
                let k = toks[p];
                p += 1;
                let mut comps = Vec::with_capacity(k);
                for _ in 0..k {
                    let len = toks[p];
                    p += 1;
                    comps.push(toks[p..p + len].to_vec());
                    p += len;
                }
                let len = toks[p];
                p += 1;
                ChildResult::Ok(comps, toks[p..p + len].to_vec())
            }
            b'E' => ChildResult::Err("error".to_string()),
            _ => ChildResult::Panic,
        }
    }
}

fn deep_edges(rng: &mut Rng, n: usize, shape: usize) -> (&'static str, Vec<(usize, usize)>) {
    match shape % 4 {
        0 => ("chain", gen_chain(rng, n, false)),
        1 => {
            let mut e = gen_chain(rng, n, false);
            e.push((n - 1, 0));
            ("cycle", e)
        }
        2 => ("chain_nested_cycles", gen_chain(rng, n, true)),
        _ => {
            // a chain whose DFS is entered at its far end first (vertex ids reversed): shallow forward pass,
            // deep reverse pass only inside the closing cycle
            let mut e: Vec<(usize, usize)> = (0..n - 1).map(|i| (i + 1, i)).collect();
            e.push((0, n - 1));
            ("reversed_cycle", e)
        }
    }
}

fn run_deep_case(ctx: &mut Ctx, idx: usize, n: usize, shape: usize, modelled: bool) {
    let mut rng = Rng::for_case(ctx.seed, 18, idx as u64);
    let (name, edges) = deep_edges(&mut rng, n, shape);
    let spec = Spec { family: "deep", n, edges, slots: None };
    let g = build(&spec);
    let line = if modelled {
        format!("deep {}", crate::c18::case_line(&g, &None).trim_start_matches("scc ").trim_end_matches(" n"))
    } else {
        format!("big {} {}", name, n)
    };
    ctx.count(&format!("{}_{}", if modelled { "deep" } else { "big" }, name));
    ctx.count(match n {
        0..=9_999 => "depth_below_10k",
        10_000..=29_999 => "depth_10k_30k",
        30_000..=199_999 => "depth_30k_200k",
        _ => "depth_200k_up",
    });
    let want = tarjan(n, &spec.edges);
    let mut res = scc_in_child(build(&spec), 600);
    for _ in 0..3 {
        if !matches!(res, ChildResult::Unavailable) {
            break;
        }
        std::thread::sleep(std::time::Duration::from_millis(500));
        res = scc_in_child(build(&spec), 600);
    }
    drop(g);
    let describe = format!("{} of {} vertices (recursion depth about {})", name, n, n);
    let out = match &res {
        ChildResult::Ok(comps, largest) => {
            if *comps != want {
                ctx.fail(idx, "scc/deep-wrong-components", format!("{}: the components differ from Tarjan's", describe));
            }
            let max = want.iter().map(|c| c.len()).max().unwrap_or(0);
            if largest.len() != max || !want.iter().any(|c| c == largest) {
                ctx.fail(idx, "largest/deep-not-max", format!("{}: the largest component has {} vertices, the biggest class {}", describe, largest.len(), max));
            }
            ctx.nontrivial(&line);
            if modelled {
                format!("ok {} L {}", comps_out(comps), list_out(largest))
            } else {
                "not-modelled".to_string()
            }
        }
        ChildResult::Err(e) => {
            ctx.fail(idx, "scc/error", format!("{}: {}", describe, e));
            "err".to_string()
        }
        ChildResult::Panic => {
            ctx.fail(idx, "scc/panic", describe.clone());
            "panic".to_string()
        }
        ChildResult::Killed(sig) => {
            ctx.fail(
                idx,
                "scc/stack-overflow",
                format!("{}: the process running all_strongly_connected_componenets in a thread with the default stack was killed (signal {})", describe, sig),
            );
            "killed".to_string()
        }
        ChildResult::Unavailable => {
            // fork failed on a loaded machine: not a verdict
            ctx.count("deep_child_unavailable");
            if modelled { "child-unavailable".to_string() } else { "not-modelled".to_string() }
        }
    };
    ctx.emit(idx, line, out);
}

pub(crate) fn run_deep(ctx: &mut Ctx) {
    // compared with the model (the model's visited set is a list, so its cost is quadratic in the depth)
    let modelled: &[usize] = if ctx.quick() { &[6_000, 20_000] } else { &[6_000, 12_000, 20_000, 20_000, 20_000, 24_000] };
    for (k, n) in modelled.iter().enumerate() {
        let Some(idx) = ctx.begin() else { continue };
        run_deep_case(ctx, idx, *n, k, true);
    }
    // oracle only
    let big: &[usize] = if ctx.quick() { &[100_000, 100_000, 250_000] } else { &[100_000, 100_000, 100_000, 100_000, 300_000, 300_000, 1_000_000, 1_000_000] };
    for (k, n) in big.iter().enumerate() {
        let Some(idx) = ctx.begin() else { continue };
        run_deep_case(ctx, idx, *n, k, false);
    }
}

