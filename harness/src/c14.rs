//! C14 — interpolated powertrain predictions stay faithful to the underlying model.
//! Correspondence (bit-exact): `find_nearest_index`, `linspace`, `Interp1D/2D/3D/ND` through
//! `Interpolator::interpolate` (every strategy) and through the raw `linear` methods, the
//! constructors' validation, and `InterpolationSpeedGradeModel::{new,predict}` over the bundled
//! random-forest models (and interpolation-of-interpolation), every speed/grade unit.
//! Oracle (independent of the Lean model): result between the corner values of the cell, exact on grid
//! points, both sides of a cell border agree, clamping outside, multilinear data reproduced, ND agrees
//! with 1D/2D/3D, outside points rejected, no panic on a validated path.
use crate::ctx::{fbits, Ctx};
use crate::rng::Rng;
use ndarray::{ArrayD, IxDyn};
use routee_compass_core::model::unit::as_f64::AsF64;
use routee_compass_core::model::unit::*;
use routee_compass_powertrain::routee::prediction::interpolation::interp::{
    Interp1D, Interp2D, Interp3D, InterpND, Interpolator, Strategy,
};
use routee_compass_powertrain::routee::prediction::interpolation::interpolation_speed_grade_model::InterpolationSpeedGradeModel;
use routee_compass_powertrain::routee::prediction::interpolation::utils::{find_nearest_index, linspace};
use routee_compass_powertrain::routee::prediction::model_type::ModelType;
use routee_compass_powertrain::routee::prediction::smartcore::smartcore_speed_grade_model::SmartcoreSpeedGradeModel;
use routee_compass_powertrain::routee::prediction::PredictionModel;
use std::panic::{catch_unwind, AssertUnwindSafe};

const S: [SpeedUnit; 3] = [SpeedUnit::KilometersPerHour, SpeedUnit::MilesPerHour, SpeedUnit::MetersPerSecond];
const G: [GradeUnit; 3] = [GradeUnit::Percent, GradeUnit::Decimal, GradeUnit::Millis];
const ER: [EnergyRateUnit; 5] = [
    EnergyRateUnit::GallonsGasolinePerMile,
    EnergyRateUnit::GallonsDieselPerMile,
    EnergyRateUnit::KilowattHoursPerMile,
    EnergyRateUnit::KilowattHoursPerKilometer,
    EnergyRateUnit::KilowattHoursPerMeter,
];
const MODELS: [&str; 4] = [
    "Toyota_Camry.bin",
    "2017_CHEVROLET_Bolt.bin",
    "2016_CHEVROLET_Volt_Charge_Depleting.bin",
    "2016_CHEVROLET_Volt_Charge_Sustaining.bin",
];
/// root of the source tree under test (`VERIF_REPO`, default /repo): model files and bundled configuration
fn repo() -> String {
    std::env::var("VERIF_REPO").unwrap_or_else(|_| "/repo".to_string())
}
fn model_dir() -> String {
    format!("{}/rust/routee-compass-powertrain/src/routee/test", repo())
}
const REL: f64 = 1.0e-9;

/// canonical double: both zeros are `0`
fn fo(x: f64) -> String {
    if x == 0.0 {
        "0".to_string()
    } else {
        fbits(x)
    }
}

fn flist(xs: &[f64]) -> String {
    let mut s = xs.len().to_string();
    for x in xs {
        s.push(' ');
        // inputs cross as raw bit patterns (NaN included)
        s.push_str(&x.to_bits().to_string());
    }
    s
}

/// the allocation limit handed to the model (a count of f64 values): the generated bin counts are either far
/// below it (at most a few million) or far above it (2^33 and more), and the real code is run on the latter in
/// a forked child whose address space is limited to 4 GiB, so `try_reserve_exact` fails there for certain
const CAP: u64 = 1 << 30;

fn unallocatable(sb: usize, gb: usize) -> bool {
    sb as u64 > CAP || gb as u64 > CAP || (sb as u128) * (gb as u128) > CAP as u128
}

/// `linspace` for grids that can be allocated
fn lin(a: f64, b: f64, n: usize) -> Vec<f64> {
    linspace(a, b, n).expect("a small grid can be allocated")
}

/// runs `work` in a forked child with a 4 GiB address-space limit and a 30 s alarm and returns what it
/// printed; `abort` when the child died (allocation failure aborts are not catchable) or timed out
fn forked(work: &mut dyn FnMut() -> String) -> String {
    unsafe {
        let mut fds = [0i32; 2];
        if libc::pipe(fds.as_mut_ptr()) != 0 {
            return "abort".to_string();
        }
        let pid = libc::fork();
        if pid < 0 {
            return "abort".to_string();
        }
        if pid == 0 {
            libc::close(fds[0]);
            let devnull = libc::open(b"/dev/null\0".as_ptr() as *const libc::c_char, libc::O_WRONLY);
            if devnull >= 0 {
                libc::dup2(devnull, 2);
            }
            let lim = libc::rlimit { rlim_cur: 4 << 30, rlim_max: 4 << 30 };
            libc::setrlimit(libc::RLIMIT_AS, &lim);
            libc::alarm(30);
            let msg = work();
            let b = msg.as_bytes();
            let mut off = 0;
            while off < b.len() {
                let n = libc::write(fds[1], b[off..].as_ptr() as *const libc::c_void, b.len() - off);
                if n <= 0 {
                    break;
                }
                off += n as usize;
            }
            libc::_exit(0);
        }
        libc::close(fds[1]);
        let mut buf = Vec::new();
        let mut chunk = [0u8; 4096];
        loop {
            let n = libc::read(fds[0], chunk.as_mut_ptr() as *mut libc::c_void, chunk.len());
            if n <= 0 {
                break;
            }
            buf.extend_from_slice(&chunk[..n as usize]);
        }
        libc::close(fds[0]);
        let mut status = 0i32;
        libc::waitpid(pid, &mut status, 0);
        if !(libc::WIFEXITED(status) && libc::WEXITSTATUS(status) == 0) || buf.is_empty() {
            return "abort".to_string();
        }
        String::from_utf8_lossy(&buf).to_string()
    }
}

#[derive(Clone, Debug, PartialEq)]
enum Out {
    Ok(f64),
    Err,
    Panic,
}

impl Out {
    fn text(&self) -> String {
        match self {
            Out::Ok(v) => format!("ok {}", fo(*v)),
            Out::Err => "err".to_string(),
            Out::Panic => "panic".to_string(),
        }
    }
}

fn call<E>(f: impl FnOnce() -> Result<f64, E>) -> Out {
    match catch_unwind(AssertUnwindSafe(f)) {
        Ok(Ok(v)) => Out::Ok(v),
        Ok(Err(_)) => Out::Err,
        Err(_) => Out::Panic,
    }
}

fn strat(s: usize) -> (Strategy, &'static str) {
    match s {
        0 => (Strategy::None, "N"),
        1 => (Strategy::Linear, "L"),
        2 => (Strategy::LeftNearest, "LN"),
        3 => (Strategy::RightNearest, "RN"),
        _ => (Strategy::Nearest, "NE"),
    }
}

// ---------------------------------------------------------------------------------------------
// tables

#[derive(Clone)]
struct Table {
    axes: Vec<Vec<f64>>,
    /// row-major
    data: Vec<f64>,
    /// shape of the data (differs from the axes' lengths only in corrupted tables)
    dshape: Vec<usize>,
    /// coefficients of the multilinear function the data was sampled from (subset mask -> coefficient)
    multilinear: Option<Vec<f64>>,
}

impl Table {
    fn d(&self) -> usize {
        self.axes.len()
    }
    fn at(&self, ix: &[usize]) -> f64 {
        let mut k = 0;
        for (a, i) in self.axes.iter().zip(ix) {
            k = k * a.len() + i;
        }
        self.data[k]
    }
    fn scale(&self) -> f64 {
        self.data.iter().fold(0.0f64, |m, v| m.max(v.abs()))
    }
    fn rows2(&self) -> Vec<Vec<f64>> {
        // rows by the data's own shape, so that a corrupted axis gives a genuine x / y shape mismatch
        let ny = self.dshape[1];
        self.data.chunks(ny.max(1)).map(|c| c.to_vec()).collect()
    }
    fn rows3(&self) -> Vec<Vec<Vec<f64>>> {
        let ny = self.dshape[1];
        let nz = self.dshape[2];
        self.data
            .chunks((ny * nz).max(1))
            .map(|c| c.chunks(nz.max(1)).map(|r| r.to_vec()).collect())
            .collect()
    }
}

fn eval_multilinear(c: &[f64], p: &[f64]) -> (f64, f64) {
    // value and a magnitude bound (sum of absolute terms)
    let mut v = 0.0;
    let mut mag = 0.0;
    for (mask, coef) in c.iter().enumerate() {
        let mut t = *coef;
        for (i, x) in p.iter().enumerate() {
            if mask >> i & 1 == 1 {
                t *= *x;
            }
        }
        v += t;
        mag += t.abs();
    }
    (v, mag)
}

fn gen_axis(rng: &mut Rng, n: usize) -> Vec<f64> {
    let style = rng.below(5);
    let mut v: Vec<f64> = match style {
        0 => {
            // uniform, as the speed/grade model builds it
            let lo = rng.range(-40, 40) as f64 * 0.5;
            let w = rng.small_decimal(60, 1) + 0.5;
            lin(lo, lo + w, n.max(1))
        }
        1 => {
            let lo = rng.range(-20, 20);
            let mut cur = lo;
            (0..n)
                .map(|_| {
                    let x = cur as f64;
                    cur += rng.range(1, 5);
                    x
                })
                .collect()
        }
        2 => {
            let lo = rng.range(-2000, 2000) as f64 / 100.0;
            let mut cur = lo;
            (0..n)
                .map(|_| {
                    let x = cur;
                    cur += rng.range(1, 900) as f64 / 100.0;
                    x
                })
                .collect()
        }
        3 => {
            let lo = rng.uniform(-100.0, 100.0);
            let mut cur = lo;
            (0..n)
                .map(|_| {
                    let x = cur;
                    cur += rng.uniform(0.01, 20.0);
                    x
                })
                .collect()
        }
        _ => {
            // very uneven cells
            let lo = rng.uniform(-1.0, 1.0);
            let mut cur = lo;
            (0..n)
                .map(|_| {
                    let x = cur;
                    cur += if rng.chance(1, 2) { rng.uniform(0.001, 0.01) } else { rng.uniform(10.0, 100.0) };
                    x
                })
                .collect()
        }
    };
    v.iter_mut().for_each(|x| {
        if *x == 0.0 {
            *x = 0.0
        }
    });
    v
}

fn gen_table(rng: &mut Rng, d: usize, max_n: usize, allow_single: bool) -> Table {
    let axes: Vec<Vec<f64>> = (0..d)
        .map(|_| {
            let n = if allow_single && rng.chance(1, 12) { 1 } else { 2 + rng.below(max_n - 1) };
            gen_axis(rng, n)
        })
        .collect();
    let total: usize = axes.iter().map(|a| a.len()).product();
    if rng.chance(1, 2) {
        let c: Vec<f64> = (0..(1usize << d)).map(|_| if rng.chance(1, 5) { 0.0 } else { rng.uniform(-3.0, 3.0) }).collect();
        let mut data = Vec::with_capacity(total);
        let mut ix = vec![0usize; d];
        for _ in 0..total {
            let p: Vec<f64> = ix.iter().enumerate().map(|(k, i)| axes[k][*i]).collect();
            data.push(eval_multilinear(&c, &p).0);
            for k in (0..d).rev() {
                ix[k] += 1;
                if ix[k] < axes[k].len() {
                    break;
                }
                ix[k] = 0;
            }
        }
        Table { dshape: axes.iter().map(|a| a.len()).collect(), axes, data, multilinear: Some(c) }
    } else {
        let style = rng.below(3);
        let data = (0..total)
            .map(|_| match style {
                0 => rng.uniform(-10.0, 10.0),
                1 => rng.range(-5, 5) as f64,
                _ => rng.uniform(0.0, 1.0e-3),
            })
            .map(|x| if x == 0.0 { 0.0 } else { x })
            .collect();
        Table { dshape: axes.iter().map(|a| a.len()).collect(), axes, data, multilinear: None }
    }
}

#[derive(Clone, Copy, PartialEq, Debug)]
enum Kind {
    Inside,
    OnLine,
    Upper,
    Lower,
    Below,
    Above,
    Mid,
}

fn gen_coord(rng: &mut Rng, g: &[f64], kind: Kind) -> f64 {
    let lo = g[0];
    let hi = *g.last().unwrap();
    let x = match kind {
        Kind::Inside => rng.uniform(lo, hi),
        Kind::OnLine => g[rng.below(g.len())],
        Kind::Upper => hi,
        Kind::Lower => lo,
        Kind::Below => match rng.below(3) {
            0 => lo.next_down(),
            1 => lo - rng.uniform(0.0, 1.0) - 1e-6,
            _ => lo - rng.uniform(1.0, 1000.0),
        },
        Kind::Above => match rng.below(3) {
            0 => hi.next_up(),
            1 => hi + rng.uniform(0.0, 1.0) + 1e-6,
            _ => hi + rng.uniform(1.0, 1000.0),
        },
        Kind::Mid => {
            if g.len() < 2 {
                lo
            } else {
                let k = rng.below(g.len() - 1);
                (g[k] + g[k + 1]) / 2.0
            }
        }
    };
    if x == 0.0 {
        0.0
    } else {
        x
    }
}

fn pick_kind(rng: &mut Rng, outside_ok: bool) -> Kind {
    let r = rng.below(20);
    match r {
        0..=7 => Kind::Inside,
        8..=11 => Kind::OnLine,
        12..=13 => Kind::Upper,
        14 => Kind::Lower,
        15 => Kind::Mid,
        16 | 17 => {
            if outside_ok {
                Kind::Below
            } else {
                Kind::Inside
            }
        }
        _ => {
            if outside_ok {
                Kind::Above
            } else {
                Kind::OnLine
            }
        }
    }
}

/// points for a table; `border[i] = Some(j)` marks point i as a neighbour of the on-border point j
struct Points {
    pts: Vec<Vec<f64>>,
    border_of: Vec<Option<(usize, usize)>>, // (index of the border point, dimension)
}

fn gen_points(rng: &mut Rng, t: &Table, n: usize, ctx: &mut Ctx) -> Points {
    let d = t.d();
    let mut pts = vec![];
    let mut border_of = vec![];
    for _ in 0..n {
        // at most one coordinate outside in most points, so that the other checks still see in-range coordinates
        let outside_dim = if rng.chance(1, 4) { Some(rng.below(d.max(1))) } else { None };
        let all_on_grid = rng.chance(1, 6);
        let mut p = Vec::with_capacity(d);
        for k in 0..d {
            let kind = if all_on_grid {
                Kind::OnLine
            } else if outside_dim == Some(k) {
                if rng.chance(1, 2) {
                    Kind::Below
                } else {
                    Kind::Above
                }
            } else {
                pick_kind(rng, false)
            };
            ctx.count(match kind {
                Kind::Inside => "coord_inside",
                Kind::OnLine => "coord_on_grid_line",
                Kind::Upper => "coord_upper_boundary",
                Kind::Lower => "coord_lower_boundary",
                Kind::Below => "coord_below",
                Kind::Above => "coord_above",
                Kind::Mid => "coord_cell_middle",
            });
            p.push(gen_coord(rng, &t.axes[k], kind));
        }
        pts.push(p.clone());
        border_of.push(None);
        // a border triple: the point moved onto an interior grid line in one dimension, and its two float neighbours
        if d > 0 && outside_dim.is_none() && rng.chance(1, 3) {
            let k = rng.below(d);
            if t.axes[k].len() >= 3 {
                let line = 1 + rng.below(t.axes[k].len() - 2);
                let mut q = p.clone();
                q[k] = t.axes[k][line];
                let j = pts.len();
                pts.push(q.clone());
                border_of.push(None);
                let mut a = q.clone();
                a[k] = q[k].next_down();
                pts.push(a);
                border_of.push(Some((j, k)));
                let mut b = q.clone();
                b[k] = q[k].next_up();
                pts.push(b);
                border_of.push(Some((j, k)));
                ctx.count("border_triple");
            }
        }
    }
    Points { pts, border_of }
}

fn pts_text(pts: &[Vec<f64>]) -> String {
    let mut s = pts.len().to_string();
    for p in pts {
        s.push(' ');
        s.push_str(&flist(p));
    }
    s
}

fn table_text(t: &Table, nd: bool) -> String {
    if nd {
        let mut s = t.axes.len().to_string();
        for a in &t.axes {
            s.push(' ');
            s.push_str(&flist(a));
        }
        let sh = t.dshape.clone();
        s.push_str(&format!(" {}", sh.len()));
        for n in sh {
            s.push_str(&format!(" {}", n));
        }
        s.push(' ');
        s.push_str(&flist(&t.data));
        return s;
    }
    match t.d() {
        1 => format!("{} {}", flist(&t.axes[0]), flist(&t.data)),
        2 => {
            let rows = t.rows2();
            let mut s = format!("{} {} {}", flist(&t.axes[0]), flist(&t.axes[1]), rows.len());
            for r in rows {
                s.push(' ');
                s.push_str(&flist(&r));
            }
            s
        }
        _ => {
            let f = t.rows3();
            let mut s = format!("{} {} {} {}", flist(&t.axes[0]), flist(&t.axes[1]), flist(&t.axes[2]), f.len());
            for plane in f {
                s.push_str(&format!(" {}", plane.len()));
                for r in plane {
                    s.push(' ');
                    s.push_str(&flist(&r));
                }
            }
            s
        }
    }
}

enum Built {
    D1(Interp1D),
    D2(Interp2D),
    D3(Interp3D),
    DN(InterpND),
}

/// Ok(interp) / Err(true) = constructor returned Err / Err(false) = constructor panicked
fn build(t: &Table, nd: bool) -> Result<Built, bool> {
    let r = catch_unwind(AssertUnwindSafe(|| -> Result<Built, String> {
        if nd {
            let arr = ArrayD::from_shape_vec(IxDyn(&t.dshape), t.data.clone()).map_err(|e| e.to_string())?;
            return Ok(Built::DN(InterpND::new(t.axes.clone(), arr)?));
        }
        Ok(match t.d() {
            1 => Built::D1(Interp1D::new(t.axes[0].clone(), t.data.clone())?),
            2 => Built::D2(Interp2D::new(t.axes[0].clone(), t.axes[1].clone(), t.rows2())?),
            _ => Built::D3(Interp3D::new(t.axes[0].clone(), t.axes[1].clone(), t.axes[2].clone(), t.rows3())?),
        })
    }));
    match r {
        Ok(Ok(b)) => Ok(b),
        Ok(Err(_)) => Err(true),
        Err(_) => Err(false),
    }
}

fn eval(b: Built, raw: bool, s: usize, pts: &[Vec<f64>]) -> Vec<Out> {
    if raw {
        return pts
            .iter()
            .map(|p| match &b {
                Built::D1(i) => call(|| i.linear(p[0])),
                Built::D2(i) => call(|| i.linear(p)),
                Built::D3(i) => call(|| i.linear(p)),
                Built::DN(i) => call(|| i.linear(p)),
            })
            .collect();
    }
    let it = match b {
        Built::D1(i) => Interpolator::Interp1D(i),
        Built::D2(i) => Interpolator::Interp2D(i),
        Built::D3(i) => Interpolator::Interp3D(i),
        Built::DN(i) => Interpolator::InterpND(i),
    };
    pts.iter().map(|p| call(|| it.interpolate(p, &strat(s).0))).collect()
}

fn in_range(t: &Table, p: &[f64]) -> bool {
    p.len() == t.d() && t.axes.iter().zip(p).all(|(g, x)| !g.is_empty() && g[0] <= *x && *x <= *g.last().unwrap())
}

/// independent cell lookup: the lower index `l <= len-2` of a cell `[g[l], g[l+1]]` containing x
fn cell_of(g: &[f64], x: f64) -> usize {
    let mut l = 0;
    while l + 2 < g.len() && g[l + 1] <= x {
        l += 1;
    }
    l
}

fn ulp(x: f64) -> f64 {
    (x.next_up() - x).abs().max((x - x.next_down()).abs())
}

/// the property, stated directly on what the validated linear path returned
fn oracle_linear(ctx: &mut Ctx, idx: usize, tag: &str, t: &Table, pts: &Points, outs: &[Out]) {
    if t.axes.iter().any(|a| a.len() < 2) {
        // one-point axes are outside the property's quantifier, but the constructors accept them:
        // a panic on the validated path is reported under its own key
        for (p, o) in pts.pts.iter().zip(outs) {
            if *o == Out::Panic && in_range(t, p) {
                ctx.fail(idx, "interp/single_point_axis_panics", format!("{} with a one-point axis (accepted by new) panics at the in-range point {:?}", tag, p));
                break;
            }
        }
        return;
    }
    let scale = t.scale();
    for (i, (p, o)) in pts.pts.iter().zip(outs).enumerate() {
        if *o == Out::Panic {
            ctx.fail(idx, "interp/panic_validated", format!("{} point {:?} panicked on the validated path", tag, p));
            continue;
        }
        if !in_range(t, p) {
            if let Out::Ok(v) = o {
                ctx.fail(idx, "interp/accepts_outside", format!("{} point {:?} outside the grid gave {}", tag, p, v));
            }
            continue;
        }
        let v = match o {
            Out::Ok(v) => *v,
            _ => {
                ctx.fail(idx, "interp/rejects_inside", format!("{} point {:?} inside the grid was rejected", tag, p));
                continue;
            }
        };
        // between the corners of the cell
        let lows: Vec<usize> = t.axes.iter().zip(p).map(|(g, x)| cell_of(g, *x)).collect();
        let d = t.d();
        let (mut mn, mut mx) = (f64::INFINITY, f64::NEG_INFINITY);
        for mask in 0..(1usize << d) {
            let ix: Vec<usize> = (0..d).map(|k| lows[k] + (mask >> k & 1)).collect();
            let c = t.at(&ix);
            mn = mn.min(c);
            mx = mx.max(c);
        }
        let cs = mn.abs().max(mx.abs());
        let tol = REL * cs + 1e-300;
        if v < mn - tol || v > mx + tol {
            ctx.fail(idx, "interp/outside_corner_range", format!("{} point {:?}: {} not within corners [{}, {}]", tag, p, v, mn, mx));
        }
        // exact on grid points
        let on: Vec<Option<usize>> = t.axes.iter().zip(p).map(|(g, x)| g.iter().position(|y| y == x)).collect();
        if on.iter().all(|o| o.is_some()) {
            let ix: Vec<usize> = on.iter().map(|o| o.unwrap()).collect();
            let want = t.at(&ix);
            if (v - want).abs() > REL * want.abs() + 1e-300 {
                ctx.fail(idx, "interp/not_exact_on_grid", format!("{} grid point {:?}: {} but the table holds {}", tag, p, v, want));
            }
            ctx.count("oracle_exact_on_grid");
        }
        // multilinear data is reproduced
        if let Some(c) = &t.multilinear {
            let (want, mag) = eval_multilinear(c, p);
            // the corner values carry the rounding of the table itself: bound by the magnitude at the corners
            let mut cmag = mag;
            for mask in 0..(1usize << d) {
                let q: Vec<f64> = (0..d).map(|k| t.axes[k][lows[k] + (mask >> k & 1)]).collect();
                cmag = cmag.max(eval_multilinear(c, &q).1);
            }
            if (v - want).abs() > REL * cmag + 1e-300 {
                ctx.fail(idx, "interp/multilinear", format!("{} point {:?}: {} but the multilinear function is {}", tag, p, v, want));
            }
            ctx.count("oracle_multilinear");
        }
        // both sides of a border agree with the value on the border
        if let Some((j, k)) = pts.border_of[i] {
            if let Out::Ok(w) = outs[j] {
                let g = &t.axes[k];
                let minw = g.windows(2).map(|w| w[1] - w[0]).fold(f64::INFINITY, f64::min);
                let tolc = scale * (REL + 16.0 * ulp(pts.pts[j][k]) / minw) + 1e-300;
                if (v - w).abs() > tolc {
                    ctx.fail(idx, "interp/discontinuous_border", format!("{} border point {:?} gives {} but its neighbour {:?} gives {}", tag, pts.pts[j], w, p, v));
                }
                ctx.count("oracle_border_side");
            }
        }
    }
}

// ---------------------------------------------------------------------------------------------
// cases

fn case_fni(ctx: &mut Ctx, idx: usize, g: Vec<f64>, t: f64) {
    let r = catch_unwind(AssertUnwindSafe(|| find_nearest_index(&g, t)));
    let out = match &r {
        Ok(Ok(i)) => format!("ok {}", i),
        Ok(Err(_)) => "err".to_string(),
        Err(_) => "panic".to_string(),
    };
    // regression (fixed): a one-point grid hit exactly underflowed `arr.len() - 2` (panic with overflow
    // checks, usize::MAX without); more generally the lookup never panics and never leaves the grid
    match &r {
        Ok(Ok(i)) if *i >= g.len() => ctx.fail(idx, "find_nearest_index/single_point_underflow", format!("grid {:?} target {} gave the out-of-range index {}", g, t, i)),
        Err(_) => ctx.fail(idx, "find_nearest_index/single_point_underflow", format!("grid {:?} target {} panicked", g, t)),
        _ => {}
    }
    ctx.emit(idx, format!("fni {} {}", flist(&g), fbits(t)), out);
    ctx.count("fni");
    ctx.nontrivial(&format!("fni {} {}", flist(&g), fbits(t)));
    // oracle: strictly increasing grid with >= 2 points and an in-range target => a bracketing cell
    if g.len() >= 2 && g.windows(2).all(|w| w[0] < w[1]) && g[0] <= t && t <= *g.last().unwrap() {
        match r {
            Ok(Ok(i)) if i + 1 < g.len() && g[i] <= t && t <= g[i + 1] => {}
            other => ctx.fail(idx, "find_nearest_index/not_bracketing", format!("grid {:?} target {} gave {:?}", g, t, other.map_err(|_| "panic"))),
        }
    }
}

fn case_lin(ctx: &mut Ctx, idx: usize, a: f64, b: f64, n: usize) {
    let line = format!("lin {} {} {} {}", fbits(a), fbits(b), n, CAP);
    ctx.count("linspace");
    if n as u64 > CAP {
        // a count that cannot be allocated: an Err (before the repair `vec![x0; n]` aborted the process or
        // panicked with "capacity overflow"); in a child, so that a regression cannot take the harness down
        let out = forked(&mut || match catch_unwind(AssertUnwindSafe(|| linspace(a, b, n))) {
            Ok(Ok(v)) => format!("ok {}", v.len()),
            Ok(Err(_)) => "err".to_string(),
            Err(_) => "panic".to_string(),
        });
        if out != "err" {
            ctx.fail(idx, "speed_grade/unallocatable_bins", format!("linspace({}, {}, {}) gave {} instead of an error", a, b, n, out));
        }
        ctx.count("linspace_unallocatable");
        ctx.emit(idx, line, out);
        return;
    }
    let r = catch_unwind(AssertUnwindSafe(|| linspace(a, b, n)));
    let out = match &r {
        Ok(Ok(v)) => format!("ok {} {}", v.len(), v.iter().map(|x| fo(*x)).collect::<Vec<_>>().join(" ")).trim_end().to_string(),
        Ok(Err(_)) => "err".to_string(),
        Err(_) => "panic".to_string(),
    };
    // regression (fixed): n = 0 underflowed `n - 1`
    match &r {
        Ok(Ok(v)) if v.len() == n => {}
        other => ctx.fail(idx, "linspace/zero_underflow", format!("linspace({}, {}, {}) gave {:?}", a, b, n, other.as_ref().map_err(|_| "panic"))),
    }
    ctx.emit(idx, line.clone(), out);
    if let Ok(Ok(v)) = &r {
        if n >= 2 {
            ctx.nontrivial(&line);
            let w = (b - a).abs().max(a.abs()).max(b.abs());
            if v.len() != n || v[0] != a || (v[n - 1] - b).abs() > 1e-9 * w + 1e-300 {
                ctx.fail(idx, "linspace/endpoints", format!("linspace({}, {}, {}) = {:?}", a, b, n, v));
            }
        }
    }
}

/// one generic-interpolator case; returns the outputs (for the cross-dimension oracle)
fn case_interp(ctx: &mut Ctx, idx: usize, t: &Table, nd: bool, raw: bool, s: usize, pts: &Points) -> Option<Vec<Out>> {
    let name = if nd { "in".to_string() } else { format!("i{}", t.d()) };
    let line = format!("{} {} {} {} {}", name, if raw { "r" } else { "v" }, strat(s).1, table_text(t, nd), pts_text(&pts.pts));
    ctx.count(&format!("{}_{}_{}", name, if raw { "raw" } else { "validated" }, strat(s).1));
    match build(t, nd) {
        Err(is_err) => {
            ctx.emit(idx, line, if is_err { "new err".to_string() } else { "new panic".to_string() });
            ctx.count(if is_err { "constructor_rejects" } else { "constructor_panics" });
            None
        }
        Ok(b) => {
            let outs = eval(b, raw, s, &pts.pts);
            ctx.emit(idx, line.clone(), outs.iter().map(|o| o.text()).collect::<Vec<_>>().join(" "));
            for o in &outs {
                ctx.count(match o {
                    Out::Ok(_) => "point_ok",
                    Out::Err => "point_err",
                    Out::Panic => "point_panic",
                });
            }
            if outs.iter().any(|o| matches!(o, Out::Ok(_))) {
                ctx.nontrivial(&line);
            }
            if !raw && s == 1 {
                oracle_linear(ctx, idx, &name, t, pts, &outs);
            }
            if raw && t.axes.iter().all(|a| a.len() >= 2) {
                // the raw `linear` methods are public; outside points are not rejected there
                for (p, o) in pts.pts.iter().zip(&outs) {
                    if p.len() == t.d() && !in_range(t, p) && *o != Out::Err {
                        ctx.fail(idx, "interp/raw_linear_outside_not_rejected", format!("{}::linear called directly with {:?} outside the grid gave {:?} instead of Err", name, p, o));
                    }
                }
            }
            Some(outs)
        }
    }
}

fn corrupt(rng: &mut Rng, t: &mut Table, ctx: &mut Ctx) {
    let d = t.d();
    match rng.below(5) {
        0 => {
            // unsorted / repeated axis
            let k = rng.below(d);
            let n = t.axes[k].len();
            if n >= 2 {
                let i = rng.below(n - 1);
                if rng.chance(1, 2) {
                    t.axes[k][i + 1] = t.axes[k][i];
                } else {
                    t.axes[k].swap(i, i + 1);
                }
            }
            ctx.count("corrupt_unsorted");
        }
        1 => {
            // an axis longer than the data
            let k = rng.below(d);
            let last = *t.axes[k].last().unwrap();
            t.axes[k].push(last + 1.0);
            ctx.count("corrupt_axis_longer");
        }
        2 => {
            // an axis shorter than the data
            let k = rng.below(d);
            if t.axes[k].len() > 1 {
                t.axes[k].pop();
            }
            ctx.count("corrupt_axis_shorter");
        }
        3 => {
            let k = rng.below(d);
            t.axes[k].clear();
            ctx.count("corrupt_axis_empty");
        }
        _ => {
            ctx.count("corrupt_none");
        }
    }
}

// ---------------------------------------------------------------------------------------------
// speed/grade model

/// the underlying models: the four bundled random forests, plus stub forests trained here on random
/// bilinear-plus-noise data and written to work/ (the interpolation model can only be built from a model
/// file: its fields are private and `new` loads the underlying model itself)
struct Underlying {
    paths: Vec<String>,
    models: Vec<SmartcoreSpeedGradeModel>,
    /// the interpolation configurations of the bundled vehicles (python resources, osm_default_energy.toml)
    bundled: Vec<SgSpec>,
}

fn bundled_dir() -> String {
    format!("{}/python/nrel/routee/compass/resources", repo())
}

/// the `[[traversal.vehicles]]` entries that use `model_type.interpolate`, read with a line scanner
/// (key = value pairs of the vehicle table and of its interpolate sub-table)
fn bundled_vehicles() -> Vec<std::collections::BTreeMap<String, String>> {
    let Ok(text) = std::fs::read_to_string(format!("{}/osm_default_energy.toml", bundled_dir())) else { return vec![] };
    let mut out = vec![];
    let mut cur: Option<std::collections::BTreeMap<String, String>> = None;
    let mut in_vehicle = false;
    for line in text.lines() {
        let l = line.trim();
        if l.ends_with("model_type.interpolate]") {
            if let Some(c) = cur.as_mut() {
                c.insert("interpolate".to_string(), "1".to_string());
            }
        } else if l.starts_with("[[traversal.vehicles]]") || l.starts_with("[traversal.vehicles.") {
            // a vehicle, or the charge_depleting / charge_sustaining model of a plug-in hybrid
            if let Some(c) = cur.take() {
                out.push(c);
            }
            cur = Some(Default::default());
            in_vehicle = true;
        } else if l.starts_with('[') {
            if let Some(c) = cur.take() {
                out.push(c);
            }
            in_vehicle = false;
        } else if in_vehicle {
            if let (Some((k, v)), Some(c)) = (l.split_once('='), cur.as_mut()) {
                c.insert(k.trim().to_string(), v.trim().trim_matches('"').to_string());
            }
        }
    }
    if let Some(c) = cur.take() {
        out.push(c);
    }
    out.into_iter().filter(|c| c.contains_key("interpolate")).collect()
}

fn train_stub(seed: u64, k: usize, dir: &str) -> String {
    use smartcore::ensemble::random_forest_regressor::{RandomForestRegressor, RandomForestRegressorParameters};
    use smartcore::linalg::basic::matrix::DenseMatrix;
    let mut rng = Rng::for_case(seed, 1400, k as u64);
    let n = 20 + rng.below(60);
    let (a, b, c, d) = (rng.uniform(0.0, 1.0), rng.uniform(-0.01, 0.01), rng.uniform(-2.0, 2.0), rng.uniform(-0.05, 0.05));
    let noise = if k % 2 == 0 { 0.0 } else { 0.2 };
    let mut rows = vec![];
    let mut ys = vec![];
    for _ in 0..n {
        let s = rng.uniform(0.0, 200.0);
        let g = rng.uniform(-30.0, 30.0);
        rows.push(vec![s, g]);
        ys.push(a + b * s + c * g + d * s * g + noise * rng.uniform(-1.0, 1.0));
    }
    let x = DenseMatrix::from_2d_vec(&rows);
    let params = RandomForestRegressorParameters::default()
        .with_n_trees(1 + k % 3)
        .with_max_depth(10)
        .with_min_samples_leaf(1)
        .with_min_samples_split(2)
        .with_m(2)
        .with_seed(seed ^ k as u64);
    let rf: RandomForestRegressor<f64, f64, DenseMatrix<f64>, Vec<f64>> =
        RandomForestRegressor::fit(&x, &ys, params).expect("stub forest trains");
    std::fs::create_dir_all(dir).expect("stub dir");
    let path = format!("{}/stub_{}.bin", dir, k);
    std::fs::write(&path, bincode::serialize(&rf).expect("stub serialises")).expect("stub written");
    path
}

impl Underlying {
    fn load(seed: u64, stubs: usize) -> Underlying {
        let mut paths: Vec<String> = MODELS.iter().map(|m| format!("{}/{}", model_dir(), m)).collect();
        for k in 0..stubs {
            paths.push(train_stub(seed, k, "work/C14_stub"));
        }
        let models = paths
            .iter()
            .map(|p| {
                SmartcoreSpeedGradeModel::new(p, SpeedUnit::MilesPerHour, GradeUnit::Decimal, EnergyRateUnit::GallonsGasolinePerMile)
                    .expect("underlying model loads")
            })
            .collect();
        let mut und = Underlying { paths, models, bundled: vec![] };
        for v in bundled_vehicles() {
            let get = |k: &str| v.get(k).cloned().unwrap_or_default();
            let unit = |k: &str| format!("\"{}\"", get(k));
            let (Ok(su), Ok(gu), Ok(ru)) = (
                serde_json::from_str::<SpeedUnit>(&unit("speed_unit")),
                serde_json::from_str::<GradeUnit>(&unit("grade_unit")),
                serde_json::from_str::<EnergyRateUnit>(&unit("energy_rate_unit")),
            ) else {
                continue;
            };
            let num = |k: &str| get(k).parse::<f64>();
            let (Ok(s0), Ok(s1), Ok(g0), Ok(g1), Ok(sb), Ok(gb)) = (
                num("speed_lower_bound"),
                num("speed_upper_bound"),
                num("grade_lower_bound"),
                num("grade_upper_bound"),
                get("speed_bins").parse::<usize>(),
                get("grade_bins").parse::<usize>(),
            ) else {
                continue;
            };
            let path = format!("{}/{}", bundled_dir(), get("model_input_file"));
            let Ok(model) = SmartcoreSpeedGradeModel::new(&path, SpeedUnit::MilesPerHour, GradeUnit::Decimal, EnergyRateUnit::GallonsGasolinePerMile) else {
                continue;
            };
            und.paths.push(path);
            und.models.push(model);
            und.bundled.push(SgSpec { model: und.paths.len() - 1, nested: None, su, gu, ru, s0, s1, sb, g0, g1, gb });
        }
        und
    }
    /// raw random-forest output at (s, g)
    fn rate(&self, m: usize, s: f64, g: f64) -> f64 {
        self.models[m]
            .predict((Speed::new(s), SpeedUnit::MilesPerHour), (Grade::new(g), GradeUnit::Decimal))
            .expect("underlying predicts")
            .0
            .as_f64()
    }
}

#[derive(Clone)]
struct SgSpec {
    model: usize,
    /// wrap the random forest in an interpolation model first (interpolation of an interpolation)
    nested: Option<(f64, f64, usize, f64, f64, usize)>,
    su: SpeedUnit,
    gu: GradeUnit,
    ru: EnergyRateUnit,
    s0: f64,
    s1: f64,
    sb: usize,
    g0: f64,
    g1: f64,
    gb: usize,
}

#[derive(Clone)]
struct Query {
    s: f64,
    su: SpeedUnit,
    g: f64,
    gu: GradeUnit,
    /// index of a query this one must agree with (clamp twin / border neighbour), and the kind
    twin: Option<(usize, &'static str)>,
}

fn sg_model_type(spec: &SgSpec) -> ModelType {
    let inner = match spec.nested {
        None => ModelType::Smartcore,
        Some((a, b, n, c, d, m)) => ModelType::Interpolate {
            underlying_model_type: Box::new(ModelType::Smartcore),
            speed_lower_bound: Speed::new(a),
            speed_upper_bound: Speed::new(b),
            speed_bins: n,
            grade_lower_bound: Grade::new(c),
            grade_upper_bound: Grade::new(d),
            grade_bins: m,
        },
    };
    inner
}

fn case_sg(ctx: &mut Ctx, idx: usize, und: &Underlying, spec: &SgSpec, queries: &[Query]) {
    let path = und.paths[spec.model].clone();
    // the underlying model as `new` will see it (same file, same units); raw underlying rates at the grid
    // points (grid by the real linspace).  The nested underlying model is real code too: its failures are
    // findings, not harness errors.
    let huge = unallocatable(spec.sb, spec.gb);
    let xs = if huge { vec![] } else { lin(spec.s0, spec.s1, spec.sb) };
    let ys = if huge { vec![] } else { lin(spec.g0, spec.g1, spec.gb) };
    let table = catch_unwind(AssertUnwindSafe(|| -> Result<Vec<Vec<f64>>, String> {
        let nested_model = match spec.nested {
            None => None,
            Some((a, b, n, c, d, m)) => Some(
                InterpolationSpeedGradeModel::new(&path, ModelType::Smartcore, "u".to_string(), spec.su, (Speed::new(a), Speed::new(b)), n, spec.gu, (Grade::new(c), Grade::new(d)), m, spec.ru)
                    .map_err(|e| format!("nested underlying model does not build: {}", e))?,
            ),
        };
        let mut u = vec![];
        for s in &xs {
            let mut row = vec![];
            for g in &ys {
                row.push(match &nested_model {
                    None => und.rate(spec.model, *s, *g),
                    Some(m) => m
                        .predict((Speed::new(*s), spec.su), (Grade::new(*g), spec.gu))
                        .map_err(|e| format!("nested underlying model fails at ({}, {}): {}", s, g, e))?
                        .0
                        .as_f64(),
                });
            }
            u.push(row);
        }
        Ok(u)
    }));
    let u: Vec<Vec<f64>> = match table {
        Ok(Ok(u)) => u,
        other => {
            let msg = match other {
                Ok(Err(e)) => e,
                _ => "nested underlying interpolation model panicked".to_string(),
            };
            ctx.fail(idx, "speed_grade/predict_fails", format!("as underlying model of another interpolation model: {}", msg));
            ctx.emit(idx, format!("sg-underlying-failed {} {}", spec.sb, spec.gb), "underlying failed".to_string());
            return;
        }
    };

    let mut line = format!(
        "sg {} {} {} {} {} {} {} {} {} {} {}",
        spec.su, spec.gu, spec.ru, fbits(spec.s0), fbits(spec.s1), spec.sb, fbits(spec.g0), fbits(spec.g1), spec.gb, CAP, u.len()
    );
    for r in &u {
        line.push(' ');
        line.push_str(&flist(r));
    }
    line.push_str(&format!(" {}", queries.len()));
    for q in queries {
        line.push_str(&format!(" {} {} {} {}", fbits(q.s), q.su, fbits(q.g), q.gu));
    }

    if huge {
        // bin counts (or a table) that cannot be allocated: new() must return an error, before predicting
        // anything; in a child, because the unrepaired code aborts the process
        let out = forked(&mut || {
            match catch_unwind(AssertUnwindSafe(|| {
                InterpolationSpeedGradeModel::new(&path, sg_model_type(spec), "m".to_string(), spec.su, (Speed::new(spec.s0), Speed::new(spec.s1)), spec.sb, spec.gu, (Grade::new(spec.g0), Grade::new(spec.g1)), spec.gb, spec.ru).is_ok()
            })) {
                Ok(true) => "new ok".to_string(),
                Ok(false) => "new err".to_string(),
                Err(_) => "new panic".to_string(),
            }
        });
        if out != "new err" {
            ctx.fail(idx, "speed_grade/unallocatable_bins", format!("InterpolationSpeedGradeModel::new with {} x {} bins gave '{}' instead of an error", spec.sb, spec.gb, out));
        }
        ctx.count("sg_unallocatable_bins");
        ctx.emit(idx, line, out);
        return;
    }
    let built = catch_unwind(AssertUnwindSafe(|| {
        InterpolationSpeedGradeModel::new(
            &path,
            sg_model_type(spec),
            "m".to_string(),
            spec.su,
            (Speed::new(spec.s0), Speed::new(spec.s1)),
            spec.sb,
            spec.gu,
            (Grade::new(spec.g0), Grade::new(spec.g1)),
            spec.gb,
            spec.ru,
        )
    }));
    ctx.count(if spec.nested.is_some() {
        "sg_underlying_interpolation"
    } else if spec.model < MODELS.len() || und.bundled.iter().any(|b| b.model == spec.model) {
        "sg_underlying_bundled_forest"
    } else {
        "sg_underlying_stub_forest"
    });
    ctx.count(&format!("sg_model_units_{}_{}", spec.su, spec.gu));
    let model = match built {
        Err(_) => {
            // never expected: the constructor returns an error for every degenerate configuration
            ctx.fail(idx, "speed_grade/new_panics", format!("InterpolationSpeedGradeModel::new panicked for {}x{} bins, speed ({}, {}), grade ({}, {})", spec.sb, spec.gb, spec.s0, spec.s1, spec.g0, spec.g1));
            ctx.emit(idx, line, "new panic".to_string());
            ctx.count("sg_new_panics");
            return;
        }
        Ok(Err(_)) => {
            ctx.emit(idx, line, "new err".to_string());
            ctx.count("sg_new_rejects");
            return;
        }
        Ok(Ok(m)) => m,
    };
    let run = |q: &Query| -> Result<(f64, EnergyRateUnit), Out> {
        match catch_unwind(AssertUnwindSafe(|| model.predict((Speed::new(q.s), q.su), (Grade::new(q.g), q.gu)))) {
            Ok(Ok((r, unit))) => Ok((r.as_f64(), unit)),
            Ok(Err(_)) => Err(Out::Err),
            Err(_) => Err(Out::Panic),
        }
    };
    let results: Vec<Result<(f64, EnergyRateUnit), Out>> = queries.iter().map(run).collect();
    let out = results
        .iter()
        .map(|r| match r {
            Ok((v, unit)) => format!("ok {} {}", fo(*v), unit),
            Err(o) => o.text(),
        })
        .collect::<Vec<_>>()
        .join(" ");
    ctx.emit(idx, line.clone(), out);
    ctx.nontrivial(&line);

    // oracle
    if spec.sb < 2 || spec.gb < 2 {
        // regression (fixed): a grid with a single bin was accepted and every predict panicked; it must be
        // rejected by new() (handled above), so reaching this point is the defect
        let panics = results.iter().any(|r| matches!(r, Err(Out::Panic)));
        ctx.fail(idx, "speed_grade/single_bin_panics", format!("grid with {}x{} bins was accepted by new(){}", spec.sb, spec.gb, if panics { " and predict panics" } else { "" }));
        return;
    }
    let scale = u.iter().flatten().fold(0.0f64, |m, v| m.max(v.abs()));
    for (i, (q, r)) in queries.iter().zip(&results).enumerate() {
        ctx.count(&format!("sg_query_units_{}_{}", q.su, q.gu));
        let (v, unit) = match r {
            Ok(x) => *x,
            Err(o) => {
                ctx.fail(idx, "speed_grade/predict_fails", format!("predict({} {}, {} {}) returned {:?}", q.s, q.su, q.g, q.gu, o));
                continue;
            }
        };
        if unit != spec.ru {
            ctx.fail(idx, "speed_grade/unit", format!("rate unit {} but the model's is {}", unit, spec.ru));
        }
        let sv = q.su.convert(&Speed::new(q.s), &spec.su).as_f64();
        let gv = q.gu.convert(&Grade::new(q.g), &spec.gu).as_f64();
        let outside = sv < xs[0] || sv > xs[xs.len() - 1] || gv < ys[0] || gv > ys[ys.len() - 1];
        ctx.count(if outside { "sg_query_outside" } else { "sg_query_in_range" });
        let sc = sv.max(xs[0]).min(xs[xs.len() - 1]);
        let gc = gv.max(ys[0]).min(ys[ys.len() - 1]);
        let (lx, ly) = (cell_of(&xs, sc), cell_of(&ys, gc));
        let corners = [u[lx][ly], u[lx + 1][ly], u[lx][ly + 1], u[lx + 1][ly + 1]];
        let mn = corners.iter().cloned().fold(f64::INFINITY, f64::min);
        let mx = corners.iter().cloned().fold(f64::NEG_INFINITY, f64::max);
        let tol = REL * mn.abs().max(mx.abs()) + 1e-300;
        if v < mn - tol || v > mx + tol {
            ctx.fail(idx, "speed_grade/outside_corner_range", format!("predict({} {}, {} {}) = {} not within the corner rates [{}, {}]", q.s, q.su, q.g, q.gu, v, mn, mx));
        }
        if let (Some(a), Some(b)) = (xs.iter().position(|x| *x == sc), ys.iter().position(|y| *y == gc)) {
            if (v - u[a][b]).abs() > REL * u[a][b].abs() + 1e-300 {
                ctx.fail(idx, "speed_grade/not_exact_on_grid", format!("grid point ({}, {}): {} but the underlying model gives {}", sc, gc, v, u[a][b]));
            }
            ctx.count("sg_oracle_exact_on_grid");
        }
        if let Some((j, kind)) = q.twin {
            if let Ok((w, _)) = results[j] {
                match kind {
                    "clamp" => {
                        if (v - w).abs() > REL * scale + 1e-300 {
                            ctx.fail(idx, "speed_grade/clamp", format!("outside point ({} {}, {} {}) gives {} but the nearest boundary point gives {}", q.s, q.su, q.g, q.gu, v, w));
                        }
                        ctx.count("sg_oracle_clamp");
                    }
                    _ => {
                        let minw = (xs[1] - xs[0]).abs().min((ys[1] - ys[0]).abs());
                        let tolc = scale * (REL + 16.0 * ulp(sc).max(ulp(gc)) / minw) + 1e-300;
                        if (v - w).abs() > tolc {
                            ctx.fail(idx, "speed_grade/discontinuous_border", format!("({}, {}) gives {} but the border point next to it gives {}", sc, gc, v, w));
                        }
                        ctx.count("sg_oracle_border_side");
                    }
                }
            }
        }
        let _ = i;
    }
}

fn gen_sg(rng: &mut Rng, realistic: bool, n_models: usize) -> SgSpec {
    let su = *rng.pick(&S);
    let gu = *rng.pick(&G);
    let ru = *rng.pick(&ER);
    let model = if realistic { rng.below(MODELS.len()) } else { rng.below(n_models) };
    // bounds in the model's units, roughly 0..100 mph and -0.2..0.2
    let mph = SpeedUnit::MilesPerHour.convert(&Speed::new(1.0), &su).as_f64();
    let dec = GradeUnit::Decimal.convert(&Grade::new(1.0), &gu).as_f64();
    let (s0, s1, sb, g0, g1, gb) = if realistic {
        (0.0, 100.0 * mph, 101, -0.2 * dec, 0.2 * dec, 41)
    } else {
        let s0 = if rng.chance(1, 2) { 0.0 } else { rng.small_decimal(40, 1) * mph };
        let s1 = s0 + (rng.small_decimal(70, 1) + 1.0) * mph;
        let g0 = -(rng.small_decimal(25, 2)) * dec;
        let g1 = g0 + (rng.small_decimal(40, 2) + 0.01) * dec;
        (s0, s1, 2 + rng.below(11), g0, g1, 2 + rng.below(11))
    };
    let nested = if !realistic && rng.chance(1, 4) {
        Some((0.0, 90.0 * mph, 2 + rng.below(6), -0.15 * dec, 0.15 * dec, 2 + rng.below(6)))
    } else {
        None
    };
    SgSpec { model, nested, su, gu, ru, s0, s1, sb, g0, g1, gb }
}

fn gen_queries(rng: &mut Rng, spec: &SgSpec, n: usize) -> Vec<Query> {
    let xs = lin(spec.s0, spec.s1, spec.sb.max(1));
    let ys = lin(spec.g0, spec.g1, spec.gb.max(1));
    let mut qs: Vec<Query> = vec![];
    for _ in 0..n {
        let same_units = rng.chance(1, 2);
        let (qsu, qgu) = if same_units { (spec.su, spec.gu) } else { (*rng.pick(&S), *rng.pick(&G)) };
        // choose the point in the model's units, then express it in the query's units
        let ks = pick_kind(rng, true);
        let kg = pick_kind(rng, true);
        let sv = gen_coord(rng, &xs, ks);
        let gv = gen_coord(rng, &ys, kg);
        let s = spec.su.convert(&Speed::new(sv), &qsu).as_f64();
        let g = spec.gu.convert(&Grade::new(gv), &qgu).as_f64();
        qs.push(Query { s, su: qsu, g, gu: qgu, twin: None });
        let me = qs.len() - 1;
        // clamp twin: the nearest boundary point, given in the model's own units
        let q = qs[me].clone();
        let svc = q.su.convert(&Speed::new(q.s), &spec.su).as_f64();
        let gvc = q.gu.convert(&Grade::new(q.g), &spec.gu).as_f64();
        let sc = svc.max(xs[0]).min(xs[xs.len() - 1]);
        let gc = gvc.max(ys[0]).min(ys[ys.len() - 1]);
        if sc != svc || gc != gvc {
            qs.push(Query { s: sc, su: spec.su, g: gc, gu: spec.gu, twin: None });
            qs[me].twin = Some((me + 1, "clamp"));
        } else if xs.len() >= 3 && rng.chance(1, 2) {
            // a border triple in the model's units
            let line = 1 + rng.below(xs.len() - 2);
            let on_speed = rng.chance(1, 2) || ys.len() < 3;
            let (bs, bg) = if on_speed { (xs[line], gc) } else { (sc, ys[1 + rng.below(ys.len() - 2)]) };
            let j = qs.len();
            qs.push(Query { s: bs, su: spec.su, g: bg, gu: spec.gu, twin: None });
            for up in [false, true] {
                let (a, b) = if on_speed {
                    (if up { bs.next_up() } else { bs.next_down() }, bg)
                } else {
                    (bs, if up { bg.next_up() } else { bg.next_down() })
                };
                qs.push(Query { s: a, su: spec.su, g: b, gu: spec.gu, twin: Some((j, "border")) });
            }
        }
    }
    qs
}

// ---------------------------------------------------------------------------------------------

// ---------------------------------------------------------------------------------------------
// model loading: SmartcoreSpeedGradeModel, load_prediction_model, PredictionModelRecord

#[derive(Clone)]
enum Mt {
    Smartcore,
    Onnx,
    Interpolate(Box<Mt>, f64, f64, usize, f64, f64, usize),
}

impl Mt {
    fn real(&self) -> ModelType {
        match self {
            Mt::Smartcore => ModelType::Smartcore,
            Mt::Onnx => ModelType::Onnx,
            Mt::Interpolate(u, a, b, n, c, d, m) => ModelType::Interpolate {
                underlying_model_type: Box::new(u.real()),
                speed_lower_bound: Speed::new(*a),
                speed_upper_bound: Speed::new(*b),
                speed_bins: *n,
                grade_lower_bound: Grade::new(*c),
                grade_upper_bound: Grade::new(*d),
                grade_bins: *m,
            },
        }
    }
    fn text(&self) -> String {
        match self {
            Mt::Smartcore => "S".to_string(),
            Mt::Onnx => "O".to_string(),
            Mt::Interpolate(u, a, b, n, c, d, m) => format!("I {} {} {} {} {} {} {}", u.text(), fbits(*a), fbits(*b), n, fbits(*c), fbits(*d), m),
        }
    }
    fn has_onnx(&self) -> bool {
        match self {
            Mt::Smartcore => false,
            Mt::Onnx => true,
            Mt::Interpolate(u, ..) => u.has_onnx(),
        }
    }
    /// every interpolation level has at least two bins per axis and increasing bounds
    fn grids_valid(&self) -> bool {
        match self {
            Mt::Interpolate(u, a, b, n, c, d, m) => u.grids_valid() && *n >= 2 && *m >= 2 && a < b && c < d && !unallocatable(*n, *m),
            _ => true,
        }
    }
    /// some interpolation level asks for bins that cannot be allocated
    fn has_unallocatable(&self) -> bool {
        match self {
            Mt::Interpolate(u, _, _, n, _, _, m) => unallocatable(*n, *m) || u.has_unallocatable(),
            _ => false,
        }
    }
    /// the grid of the innermost interpolation level (the one filled from the random forest)
    fn innermost_grid(&self) -> Option<(Vec<f64>, Vec<f64>)> {
        match self {
            Mt::Interpolate(u, a, b, n, c, d, m) => match **u {
                Mt::Interpolate(..) => u.innermost_grid(),
                _ if unallocatable(*n, *m) => None,
                _ => Some((lin(*a, *b, *n), lin(*c, *d, *m))),
            },
            _ => None,
        }
    }
    fn depth(&self) -> usize {
        match self {
            Mt::Interpolate(u, ..) => 1 + u.depth(),
            _ => 0,
        }
    }
}

fn gen_mt(rng: &mut Rng, su: &SpeedUnit, gu: &GradeUnit, depth: usize) -> Mt {
    let r = rng.below(10);
    if depth >= 2 || r < 3 {
        if rng.chance(1, 12) {
            Mt::Onnx
        } else {
            Mt::Smartcore
        }
    } else {
        let mph = SpeedUnit::MilesPerHour.convert(&Speed::new(1.0), su).as_f64();
        let dec = GradeUnit::Decimal.convert(&Grade::new(1.0), gu).as_f64();
        let s0 = if rng.chance(1, 2) { 0.0 } else { rng.small_decimal(20, 1) * mph };
        let mut s1 = s0 + (rng.small_decimal(80, 1) + 20.0) * mph;
        let g0 = -(rng.small_decimal(25, 2) + 0.01) * dec;
        let mut g1 = (rng.small_decimal(25, 2) + 0.01) * dec;
        let mut sb = 2 + rng.below(9);
        let mut gb = 2 + rng.below(9);
        // degenerate configurations: too few bins, bounds not increasing
        match rng.below(20) {
            0 => sb = rng.below(2),
            1 => gb = rng.below(2),
            2 => s1 = s0,
            3 => g1 = g0 - 0.5 * dec,
            // bin counts that cannot be allocated: one axis, or only the table of the two
            4 => sb = *rng.pick(&[4_000_000_000_000usize, usize::MAX, 1 << 33, 1 << 62]),
            5 => gb = *rng.pick(&[4_000_000_000_000usize, usize::MAX, 1 << 33, (1 << 63) + 1]),
            6 => {
                sb = 1_000_000 + rng.below(2_000_000);
                gb = 1_000_000 + rng.below(2_000_000);
            }
            _ => {}
        }
        Mt::Interpolate(Box::new(gen_mt(rng, su, gu, depth + 1)), s0, s1, sb, g0, g1, gb)
    }
}

const D_UNITS: [DistanceUnit; 5] = [DistanceUnit::Meters, DistanceUnit::Kilometers, DistanceUnit::Miles, DistanceUnit::Inches, DistanceUnit::Feet];

fn points_text(tbl: &[(f64, f64, f64)]) -> String {
    let mut s = tbl.len().to_string();
    for (a, b, c) in tbl {
        s.push_str(&format!(" {} {} {}", fbits(*a), fbits(*b), fbits(*c)));
    }
    s
}

/// an unreadable model file: missing, or not a serialised forest
fn bad_model_path(rng: &mut Rng) -> String {
    if rng.chance(1, 2) {
        "work/C14_stub/does_not_exist.bin".to_string()
    } else {
        std::fs::create_dir_all("work/C14_stub").ok();
        std::fs::write("work/C14_stub/garbage.bin", b"this is not a random forest").ok();
        "work/C14_stub/garbage.bin".to_string()
    }
}

/// `SmartcoreSpeedGradeModel::{new, predict}`: every model unit x query unit combination
fn case_sc(ctx: &mut Ctx, idx: usize, und: &Underlying, rng: &mut Rng) {
    let m = rng.below(und.paths.len());
    let (su, gu, ru) = (*rng.pick(&S), *rng.pick(&G), *rng.pick(&ER));
    let file_ok = !rng.chance(1, 10);
    let path = if file_ok { und.paths[m].clone() } else { bad_model_path(rng) };
    let nq = 4;
    let mut qs = vec![];
    let mut tbl = vec![];
    for _ in 0..nq {
        let (qsu, qgu) = (*rng.pick(&S), *rng.pick(&G));
        let s = if rng.chance(1, 6) { rng.range(0, 120) as f64 } else { rng.uniform(-10.0, 150.0) };
        let g = if rng.chance(1, 6) { rng.range(-30, 30) as f64 } else { rng.uniform(-40.0, 40.0) };
        // the forest's value at the converted point (conversion by the real unit code: C09)
        let sv = qsu.convert(&Speed::new(s), &su).as_f64();
        let gv = qgu.convert(&Grade::new(g), &gu).as_f64();
        tbl.push((sv, gv, und.rate(m, sv, gv)));
        qs.push((s, qsu, g, qgu));
    }
    let mut line = format!("sc {} {} {} {} {} {}", su, gu, ru, if file_ok { 1 } else { 0 }, points_text(&tbl), qs.len());
    for (s, qsu, g, qgu) in &qs {
        line.push_str(&format!(" {} {} {} {}", fbits(*s), qsu, fbits(*g), qgu));
    }
    ctx.count(if file_ok { "smartcore_load_ok" } else { "smartcore_load_bad_file" });
    ctx.count(&format!("smartcore_model_units_{}_{}", su, gu));
    let built = catch_unwind(AssertUnwindSafe(|| SmartcoreSpeedGradeModel::new(&path, su, gu, ru)));
    let model = match built {
        Ok(Ok(m)) => m,
        Ok(Err(_)) => {
            if file_ok {
                ctx.fail(idx, "smartcore/load_fails", format!("bundled model {} did not load", path));
            }
            ctx.emit(idx, line, "new err".to_string());
            return;
        }
        Err(_) => {
            ctx.fail(idx, "smartcore/load_panics", format!("SmartcoreSpeedGradeModel::new({}) panicked", path));
            ctx.emit(idx, line, "new panic".to_string());
            return;
        }
    };
    if !file_ok {
        ctx.fail(idx, "smartcore/loads_bad_file", format!("unreadable file {} gave a model", path));
    }
    let mut outs = vec![];
    for ((s, qsu, g, qgu), (_, _, want)) in qs.iter().zip(&tbl) {
        let r = catch_unwind(AssertUnwindSafe(|| model.predict((Speed::new(*s), *qsu), (Grade::new(*g), *qgu))));
        outs.push(match r {
            Ok(Ok((v, unit))) => {
                ctx.count(&format!("smartcore_query_units_{}_{}", qsu, qgu));
                // oracle: the forest evaluated at the converted inputs, tagged with the model's own unit
                if v.as_f64().to_bits() != want.to_bits() || unit != ru {
                    ctx.fail(idx, "smartcore/unit_conversion", format!("predict({} {}, {} {}) on a model in {}/{} gave {} {} but the forest at the converted point gives {}", s, qsu, g, qgu, su, gu, v, unit, want));
                }
                format!("ok {} {}", fo(v.as_f64()), unit)
            }
            Ok(Err(_)) => {
                ctx.fail(idx, "smartcore/predict_fails", format!("predict({} {}, {} {}) failed", s, qsu, g, qgu));
                "err".to_string()
            }
            Err(_) => {
                ctx.fail(idx, "smartcore/predict_fails", format!("predict({} {}, {} {}) panicked", s, qsu, g, qgu));
                "panic".to_string()
            }
        });
    }
    ctx.nontrivial(&line);
    ctx.emit(idx, line, outs.join(" "));
}

/// `load_prediction_model`: every arm, nested model types, ideal rate given / swept, adjustment given /
/// default, unreadable files, degenerate bins; then the record's prediction model and its `predict`
fn case_lpm(ctx: &mut Ctx, idx: usize, und: &Underlying, rng: &mut Rng) {
    use routee_compass_powertrain::routee::prediction::load_prediction_model;
    let m = rng.below(und.paths.len());
    let (su, gu, ru) = (*rng.pick(&S), *rng.pick(&G), *rng.pick(&ER));
    let mt = gen_mt(rng, &su, &gu, 0);
    let file_ok = !rng.chance(1, 12);
    let path = if file_ok { und.paths[m].clone() } else { bad_model_path(rng) };
    let ideal = if rng.chance(1, 2) { Some(rng.small_decimal(1, 4) + 0.0001) } else { None };
    let adj = if rng.chance(1, 2) { Some(1.0 + rng.small_decimal(1, 3)) } else { None };
    // queries
    let mph = SpeedUnit::MilesPerHour.convert(&Speed::new(1.0), &su).as_f64();
    let dec = GradeUnit::Decimal.convert(&Grade::new(1.0), &gu).as_f64();
    let mut qs = vec![];
    for _ in 0..4 {
        let (qsu, qgu) = if rng.chance(1, 2) { (su, gu) } else { (*rng.pick(&S), *rng.pick(&G)) };
        let sv = rng.uniform(-10.0, 130.0) * mph;
        let gv = rng.uniform(-0.4, 0.4) * dec;
        let s = su.convert(&Speed::new(sv), &qsu).as_f64();
        let g = gu.convert(&Grade::new(gv), &qgu).as_f64();
        let d = rng.small_decimal(50, 2) + 0.01;
        qs.push((s, qsu, g, qgu, d, *rng.pick(&D_UNITS)));
    }
    // the forest at every point the loading and the queries can evaluate it at
    let mut tbl: Vec<(f64, f64, f64)> = vec![];
    let mut add = |s: f64, g: f64| tbl.push((s, g, und.rate(m, s, g)));
    for i in 20..80 {
        add(SpeedUnit::MilesPerHour.convert(&Speed::new(i as f64), &su).as_f64(), GradeUnit::Percent.convert(&Grade::ZERO, &gu).as_f64());
    }
    if let Some((xs, ys)) = mt.innermost_grid() {
        for x in &xs {
            for y in &ys {
                add(*x, *y);
            }
        }
    }
    for (s, qsu, g, qgu, _, _) in &qs {
        add(qsu.convert(&Speed::new(*s), &su).as_f64(), qgu.convert(&Grade::new(*g), &gu).as_f64());
    }
    let opt = |o: &Option<f64>| match o {
        Some(x) => format!("s {}", fbits(*x)),
        None => "n".to_string(),
    };
    let mut line = format!("lpm {} {} {} {} {} {} {} {} {} {}", mt.text(), su, gu, ru, if file_ok { 1 } else { 0 }, CAP, opt(&ideal), opt(&adj), points_text(&tbl), qs.len());
    for (s, qsu, g, qgu, d, du) in &qs {
        line.push_str(&format!(" {} {} {} {} {} {}", fbits(*s), qsu, fbits(*g), qgu, fbits(*d), du));
    }
    ctx.count(&format!("load_model_type_depth_{}_{}", mt.depth(), if mt.has_onnx() { "onnx" } else { "smartcore" }));
    ctx.count(match (ideal.is_some(), adj.is_some()) {
        (true, true) => "load_ideal_given_adjustment_given",
        (true, false) => "load_ideal_given_adjustment_default",
        (false, true) => "load_ideal_swept_adjustment_given",
        (false, false) => "load_ideal_swept_adjustment_default",
    });
    if mt.has_unallocatable() {
        // a level whose axes or table cannot be allocated: an error (whatever else is wrong with the
        // configuration), in a child because the unrepaired code aborts the process
        let out = forked(&mut || {
            match catch_unwind(AssertUnwindSafe(|| {
                load_prediction_model("m".to_string(), &path, mt.real(), su, gu, ru, ideal.map(EnergyRate::new), adj, None).is_ok()
            })) {
                Ok(true) => "ok".to_string(),
                Ok(false) => "err".to_string(),
                Err(_) => "panic".to_string(),
            }
        });
        if out != "err" {
            ctx.fail(idx, "speed_grade/unallocatable_bins", format!("load_prediction_model with {} gave '{}' instead of an error", mt.text(), out));
        }
        ctx.count("load_unallocatable_bins");
        ctx.emit(idx, line, out);
        return;
    }
    let loaded = catch_unwind(AssertUnwindSafe(|| {
        load_prediction_model("m".to_string(), &path, mt.real(), su, gu, ru, ideal.map(EnergyRate::new), adj, None)
    }));
    let should_load = file_ok && !mt.has_onnx() && mt.grids_valid();
    let rec = match loaded {
        Ok(Ok(r)) => r,
        Ok(Err(_)) => {
            if should_load {
                ctx.fail(idx, "load/rejects_valid", format!("load_prediction_model rejected the valid configuration {}", mt.text()));
            }
            ctx.count("load_rejected");
            ctx.emit(idx, line, "err".to_string());
            return;
        }
        Err(_) => {
            ctx.fail(idx, "load/panics", format!("load_prediction_model panicked for {}", mt.text()));
            ctx.emit(idx, line, "panic".to_string());
            return;
        }
    };
    if !should_load {
        ctx.fail(idx, "load/accepts_invalid", format!("load_prediction_model accepted file_ok={} {}", file_ok, mt.text()));
    }
    ctx.count("load_ok");
    // oracle on the record
    let ideal_rate = rec.ideal_energy_rate.as_f64();
    match ideal {
        Some(x) => {
            if ideal_rate != x {
                ctx.fail(idx, "load/ideal_rate", format!("configured ideal rate {} became {}", x, ideal_rate));
            }
        }
        None => {
            let mut mn = f64::MAX;
            for i in 20..80 {
                if let Ok((r, _)) = rec.prediction_model.predict((Speed::new(i as f64), SpeedUnit::MilesPerHour), (Grade::ZERO, GradeUnit::Percent)) {
                    mn = mn.min(r.as_f64());
                }
            }
            if ideal_rate != mn {
                ctx.fail(idx, "load/ideal_rate", format!("swept ideal rate {} but the minimum of the sweep is {}", ideal_rate, mn));
            }
        }
    }
    if rec.real_world_energy_adjustment != adj.unwrap_or(1.0) {
        ctx.fail(idx, "load/adjustment", format!("adjustment {:?} became {}", adj, rec.real_world_energy_adjustment));
    }
    if format!("{} {} {}", rec.speed_unit, rec.grade_unit, rec.energy_rate_unit) != format!("{} {} {}", su, gu, ru) {
        ctx.fail(idx, "load/units", "the record's units differ from the configured ones".to_string());
    }
    // the Interpolate arm hands bounds and bins to the interpolation model in their places
    let twin = match &mt {
        Mt::Interpolate(u, a, b, n, c, d, mm) if matches!(**u, Mt::Smartcore) => {
            InterpolationSpeedGradeModel::new(&path, ModelType::Smartcore, "t".to_string(), su, (Speed::new(*a), Speed::new(*b)), *n, gu, (Grade::new(*c), Grade::new(*d)), *mm, ru).ok()
        }
        _ => None,
    };
    let mut outs = vec![format!("ok {} {} {} {} {}", fo(ideal_rate), fo(rec.real_world_energy_adjustment), rec.speed_unit, rec.grade_unit, rec.energy_rate_unit)];
    for (k, (s, qsu, g, qgu, d, du)) in qs.iter().enumerate() {
        let p = catch_unwind(AssertUnwindSafe(|| rec.prediction_model.predict((Speed::new(*s), *qsu), (Grade::new(*g), *qgu))));
        let e = catch_unwind(AssertUnwindSafe(|| rec.predict((Speed::new(*s), *qsu), (Grade::new(*g), *qgu), (Distance::new(*d), *du))));
        let ptxt = match &p {
            Ok(Ok((v, unit))) => format!("ok {} {}", fo(v.as_f64()), unit),
            Ok(Err(_)) => "err".to_string(),
            Err(_) => "panic".to_string(),
        };
        let etxt = match &e {
            Ok(Ok((v, unit))) => format!("ok {} {}", fo(v.as_f64()), unit),
            Ok(Err(_)) => "err".to_string(),
            Err(_) => "panic".to_string(),
        };
        match (&p, &e) {
            (Ok(Ok((rate, runit))), Ok(Ok((energy, eunit)))) => {
                let dist = du.convert(&Distance::new(*d), &ru.associated_distance_unit()).as_f64();
                let want = rate.as_f64() * rec.real_world_energy_adjustment * dist;
                if (energy.as_f64() - want).abs() > 1e-12 * want.abs() + 1e-300 || *eunit != ru.associated_energy_unit() || *runit != ru {
                    ctx.fail(idx, "load/record_energy", format!("rate {} x adjustment {} x {} {} gave {} {}", rate, rec.real_world_energy_adjustment, d, du, energy, eunit));
                }
                if let Mt::Smartcore = mt {
                    let want = tbl[tbl.len() - qs.len() + k].2;
                    if rate.as_f64().to_bits() != want.to_bits() {
                        ctx.fail(idx, "smartcore/unit_conversion", format!("loaded smartcore model: predict({} {}, {} {}) = {} but the forest at the converted point gives {}", s, qsu, g, qgu, rate, want));
                    }
                }
                if let Some(t) = &twin {
                    if let Ok((w, _)) = t.predict((Speed::new(*s), *qsu), (Grade::new(*g), *qgu)) {
                        if w.as_f64().to_bits() != rate.as_f64().to_bits() {
                            ctx.fail(idx, "load/interpolate_params", format!("model loaded through load_prediction_model gives {} but InterpolationSpeedGradeModel::new with the same bounds and bins gives {}", rate, w));
                        }
                        ctx.count("load_oracle_interpolate_twin");
                    }
                }
            }
            _ => ctx.fail(idx, "load/predict_fails", format!("loaded model: predict({} {}, {} {}) gave {} / {}", s, qsu, g, qgu, ptxt, etxt)),
        }
        outs.push(format!("{} {}", ptxt, etxt));
    }
    ctx.nontrivial(&line);
    ctx.emit(idx, line, outs.join(" "));
}

fn plain_points(pts: Vec<Vec<f64>>) -> Points {
    let n = pts.len();
    Points { pts, border_of: vec![None; n] }
}

pub fn run(ctx: &mut Ctx) -> &'static str {
    let und = Underlying::load(ctx.seed, ctx.n(8, 40));

    // ---- corpus: witnesses of the findings and hand-written boundary cases
    {
        let cases: Vec<(Vec<f64>, f64)> = vec![
            (vec![5.0], 5.0),                // arr.len() - 2 underflow
            (vec![], 1.0),                   // empty: Err
            (vec![5.0], 4.0),
            (vec![5.0], 6.0),
            (vec![0.0, 1.0], 1.0),           // upper boundary special case
            (vec![0.0, 1.0], 0.0),
            (vec![0.0, 1.0, 2.0], 1.0),      // on an interior line: lower cell
            (vec![0.0, 1.0, 2.0], 2.0),
            (vec![0.0, 1.0, 2.0], 2.5),      // above: returns len - 1
            (vec![0.0, 1.0, 2.0], -1.0),     // below: returns 0
            (vec![0.0, 1.0, 2.0, 3.0, 4.0], 3.75),
        ];
        for (g, t) in cases {
            let Some(idx) = ctx.begin() else { continue };
            case_fni(ctx, idx, g, t);
        }
        for (a, b, n) in [(0.0, 1.0, 0usize), (0.0, 1.0, 1), (0.0, 1.0, 2), (0.0, 100.0, 101), (-0.2, 0.2, 41), (3.0, 3.0, 4), (5.0, 1.0, 3), (0.0, 1.0, usize::MAX), (0.0, 100.0, 4_000_000_000_000), (0.0, 1.0, 1 << 40), (0.0, 1.0, 1 << 62)] {
            let Some(idx) = ctx.begin() else { continue };
            case_lin(ctx, idx, a, b, n);
        }
        // the tables of the crate's own tests
        let t1 = Table { axes: vec![vec![0., 1., 2., 3., 4.]], data: vec![0.2, 0.4, 0.6, 0.8, 1.0], dshape: vec![5], multilinear: None };
        let t2 = Table { axes: vec![vec![0.05, 0.10, 0.15], vec![0.10, 0.20, 0.30]], data: vec![0., 1., 2., 3., 4., 5., 6., 7., 8.], dshape: vec![3, 3], multilinear: None };
        let t3 = Table {
            axes: vec![vec![0.05, 0.10, 0.15], vec![0.10, 0.20, 0.30], vec![0.20, 0.40, 0.60]],
            data: (0..27).map(|i| i as f64).collect(),
            dshape: vec![3, 3, 3],
            multilinear: None,
        };
        for (t, pts) in [
            (&t1, vec![vec![3.0], vec![3.75], vec![4.0], vec![0.0], vec![-0.5], vec![4.5]]),
            (&t2, vec![vec![0.05, 0.12], vec![0.07, 0.30], vec![0.15, 0.30], vec![0.16, 0.2], vec![0.04, 0.2], vec![0.1, 0.31]]),
            (&t3, vec![vec![0.05, 0.12, 0.3], vec![0.15, 0.30, 0.60], vec![0.10, 0.20, 0.40], vec![0.16, 0.2, 0.4], vec![0.1, 0.2, 0.1]]),
        ] {
            for nd in [false, true] {
                for raw in [false, true] {
                    let Some(idx) = ctx.begin() else { continue };
                    case_interp(ctx, idx, t, nd, raw, 1, &plain_points(pts.clone()));
                }
            }
        }
        for s in 0..5 {
            let Some(idx) = ctx.begin() else { continue };
            case_interp(ctx, idx, &t1, false, false, s, &plain_points(vec![vec![3.0], vec![3.75], vec![3.25], vec![3.5], vec![4.0], vec![5.0]]));
        }
        // one-point axes: accepted by the constructors
        let single = Table { axes: vec![vec![1.0], vec![0.0, 1.0]], data: vec![3.0, 4.0], dshape: vec![1, 2], multilinear: None };
        for nd in [false, true] {
            for raw in [false, true] {
                let Some(idx) = ctx.begin() else { continue };
                case_interp(ctx, idx, &single, nd, raw, 1, &plain_points(vec![vec![1.0, 0.5], vec![1.0, 1.0], vec![1.0, 0.0], vec![2.0, 0.5]]));
            }
        }
        // N-D interpolators over a single value (`ndim()` is 0 for them whatever the array's own
        // dimensionality): accepted with no grid, or with an empty first grid; the validated entry point
        // must answer the empty point with that value, for every strategy it accepts
        for (axes, dshape) in [
            (vec![], vec![1usize]),
            (vec![vec![], vec![1.0, 2.0]], vec![1, 1]),
            (vec![vec![]], vec![1]),
            (vec![vec![], vec![]], vec![1, 1]),
            (vec![], vec![]),
            (vec![], vec![1, 1, 1]),
        ] {
            let t = Table { axes, data: vec![7.0], dshape, multilinear: None };
            for (s, raw) in [(1usize, false), (0, false), (2, false), (1, true)] {
                let Some(idx) = ctx.begin() else { continue };
                let pts = plain_points(vec![vec![], vec![0.5]]);
                let line = format!("in {} {} {} {}", if raw { "r" } else { "v" }, strat(s).1, table_text(&t, true), pts_text(&pts.pts));
                ctx.count("nd_single_value");
                match build(&t, true) {
                    Err(is_err) => {
                        if !is_err {
                            ctx.fail(idx, "interp_nd/single_value_panics", format!("InterpND::new panicked on a single value with grid {:?}", t.axes));
                        }
                        ctx.emit(idx, line, if is_err { "new err".to_string() } else { "new panic".to_string() });
                    }
                    Ok(b) => {
                        let outs = eval(b, raw, s, &pts.pts);
                        // the empty point is the only valid one: the value for Linear / None, never a panic
                        if !raw {
                            let want_ok = s <= 1;
                            if outs[0] == Out::Panic || outs[1] == Out::Panic || (want_ok && outs[0] != Out::Ok(7.0)) {
                                ctx.fail(idx, "interp_nd/single_value_panics", format!("N-D interpolator over a single value, grid {:?}, shape {:?}, accepted by new: interpolate(&[], {}) gave {:?}", t.axes, t.dshape, strat(s).1, outs[0]));
                            }
                        }
                        ctx.emit(idx, line, outs.iter().map(|o| o.text()).collect::<Vec<_>>().join(" "));
                    }
                }
            }
        }
        // every small N-D configuration: shapes up to two dimensions with extents 1..2, grid vectors of 0..2 axes
        // drawn from {[], [5], [0,1]}, a handful of points, Linear and None: whatever `new` accepts must not panic
        // on the validated path (this enumeration is what exposes the single-value defect)
        {
            let shapes: Vec<Vec<usize>> = vec![vec![], vec![1], vec![2], vec![1, 1], vec![1, 2], vec![2, 1], vec![2, 2]];
            let axes_pool: Vec<Vec<f64>> = vec![vec![], vec![5.0], vec![0.0, 1.0]];
            let mut grids: Vec<Vec<Vec<f64>>> = vec![vec![]];
            for a in &axes_pool {
                grids.push(vec![a.clone()]);
                for b in &axes_pool {
                    grids.push(vec![a.clone(), b.clone()]);
                }
            }
            let pts = plain_points(vec![vec![], vec![5.0], vec![0.5], vec![5.0, 0.5], vec![0.5, 5.0], vec![0.5, 0.5], vec![5.0, 5.0], vec![2.0]]);
            for sh in &shapes {
                let total: usize = sh.iter().product();
                for g in &grids {
                    for s in [1usize, 0] {
                        let Some(idx) = ctx.begin() else { continue };
                        let t = Table { axes: g.clone(), data: (0..total).map(|i| 3.0 + i as f64).collect(), dshape: sh.clone(), multilinear: None };
                        let line = format!("in v {} {} {}", strat(s).1, table_text(&t, true), pts_text(&pts.pts));
                        ctx.count("nd_small_enumeration");
                        match build(&t, true) {
                            Err(is_err) => {
                                if !is_err {
                                    ctx.fail(idx, "interp_nd/new_panics_on_short_grid", format!("InterpND::new panicked: grid {:?}, shape {:?}", g, sh));
                                }
                                ctx.emit(idx, line, if is_err { "new err".to_string() } else { "new panic".to_string() });
                            }
                            Ok(b) => {
                                ctx.count("nd_small_enumeration_accepted");
                                let outs = eval(b, false, s, &pts.pts);
                                if let Some(k) = outs.iter().position(|o| *o == Out::Panic) {
                                    let key = if total == 1 { "interp_nd/single_value_panics" } else { "interp/panic_validated" };
                                    ctx.fail(idx, key, format!("N-D interpolator grid {:?}, shape {:?}, accepted by new: interpolate({:?}, {}) panicked", g, sh, pts.pts[k], strat(s).1));
                                }
                                ctx.emit(idx, line, outs.iter().map(|o| o.text()).collect::<Vec<_>>().join(" "));
                            }
                        }
                    }
                }
            }
        }
        // ND constructor: fewer grids than dimensions, no grid at all
        if let Some(idx) = ctx.begin() {
            // shape (3,3) with a single grid: built by hand because Table derives the shape from the axes
            let line = format!("in v L 1 {} 2 3 3 {} 1 2 {} {}", flist(&t2.axes[0]), flist(&t2.data), fbits(0.07), fbits(0.2));
            let r = catch_unwind(AssertUnwindSafe(|| {
                InterpND::new(vec![t2.axes[0].clone()], ArrayD::from_shape_vec(IxDyn(&[3, 3]), t2.data.clone()).unwrap()).map(|_| ())
            }));
            let out = match r {
                Ok(Ok(())) => "built".to_string(),
                Ok(Err(_)) => "new err".to_string(),
                Err(_) => "new panic".to_string(),
            };
            if out == "new panic" {
                ctx.fail(idx, "interp_nd/new_panics_on_short_grid", "InterpND::new with 1 grid axis and 2-dimensional values panics (grid[i] out of bounds) instead of returning the dimensionality error".to_string());
            }
            ctx.emit(idx, line, out);
            ctx.count("nd_constructor_short_grid");
        }
        if let Some(idx) = ctx.begin() {
            let line = format!("in v L 0 1 2 {} 1 1 {}", flist(&[1.0, 2.0]), fbits(0.5));
            let r = catch_unwind(AssertUnwindSafe(|| {
                InterpND::new(vec![], ArrayD::from_shape_vec(IxDyn(&[2]), vec![1.0, 2.0]).unwrap()).map(|_| ())
            }));
            let out = match r {
                Ok(Ok(())) => "built".to_string(),
                Ok(Err(_)) => "new err".to_string(),
                Err(_) => "new panic".to_string(),
            };
            if out == "new panic" {
                ctx.fail(idx, "interp_nd/new_panics_on_short_grid", "InterpND::new with an empty grid vector panics (grid[0] out of bounds) instead of returning an error".to_string());
            }
            ctx.emit(idx, line, out);
            ctx.count("nd_constructor_no_grid");
        }
        // speed/grade model: zero bins, one bin, reversed bounds, the crate's own test configuration
        let base = SgSpec {
            model: 0,
            nested: None,
            su: SpeedUnit::MilesPerHour,
            gu: GradeUnit::Decimal,
            ru: EnergyRateUnit::GallonsGasolinePerMile,
            s0: 0.0,
            s1: 100.0,
            sb: 101,
            g0: -0.2,
            g1: 0.2,
            gb: 41,
        };
        let q = |s: f64, su: SpeedUnit, g: f64, gu: GradeUnit| Query { s, su, g, gu, twin: None };
        let qs = vec![
            q(50.0, SpeedUnit::MilesPerHour, 0.0, GradeUnit::Percent),
            q(50.5, SpeedUnit::MilesPerHour, 1.25, GradeUnit::Percent),
            q(100.0, SpeedUnit::MilesPerHour, 0.2, GradeUnit::Decimal),
            q(0.0, SpeedUnit::MilesPerHour, -0.2, GradeUnit::Decimal),
            q(200.0, SpeedUnit::KilometersPerHour, 300.0, GradeUnit::Millis),
            q(-3.0, SpeedUnit::MetersPerSecond, -30.0, GradeUnit::Percent),
        ];
        for (sb, gb, s1) in [(101usize, 41usize, 100.0), (0, 41, 100.0), (5, 0, 100.0), (1, 5, 100.0), (5, 1, 100.0), (1, 1, 100.0), (5, 5, 0.0), (5, 5, -10.0), (2, 2, 100.0), (4_000_000_000_000, 41, 100.0), (101, usize::MAX, 100.0), (usize::MAX, usize::MAX, 100.0), (3_000_000, 3_000_000, 100.0), (1 << 40, 0, 100.0)] {
            let Some(idx) = ctx.begin() else { continue };
            let mut spec = base.clone();
            spec.sb = sb;
            spec.gb = gb;
            spec.s1 = s1;
            case_sg(ctx, idx, &und, &spec, &qs);
        }
    }

    // ---- 0-D interpolator: every strategy, with and without a point
    for sidx in 0..5 {
        let Some(idx) = ctx.begin() else { continue };
        let v = 0.5 + sidx as f64;
        let it = Interpolator::Interp0D(v);
        let pts: Vec<Vec<f64>> = vec![vec![], vec![0.0], vec![1.0, 2.0]];
        let outs: Vec<Out> = pts.iter().map(|p| call(|| it.interpolate(p, &strat(sidx).0))).collect();
        for (p, o) in pts.iter().zip(&outs) {
            let want_ok = p.is_empty() && sidx == 0;
            if want_ok != matches!(o, Out::Ok(x) if *x == v) || *o == Out::Panic {
                ctx.fail(idx, "interp0/value", format!("0-D interpolator with strategy {} and point {:?} gave {:?}", strat(sidx).1, p, o));
            }
        }
        ctx.emit(idx, format!("i0 {} {} {}", strat(sidx).1, fbits(v), pts_text(&pts)), outs.iter().map(|o| o.text()).collect::<Vec<_>>().join(" "));
        ctx.count("i0");
    }
    // ---- find_nearest_index, exhaustively on small grids: every strictly increasing subset of {0..5},
    // every target on the half-integer lattice from -1 to 6
    for mask in 1u32..64 {
        let g: Vec<f64> = (0..6).filter(|b| mask >> b & 1 == 1).map(|b| b as f64).collect();
        for h in -2i32..=12 {
            let Some(idx) = ctx.begin() else { continue };
            case_fni(ctx, idx, g.clone(), h as f64 / 2.0);
        }
    }
    // ---- find_nearest_index
    for k in 0..ctx.n(600, 20000) {
        let Some(idx) = ctx.begin() else { continue };
        let mut rng = Rng::for_case(ctx.seed, 14, idx as u64);
        let n = if k % 25 == 0 { 1 } else { 2 + rng.below(12) };
        let g = gen_axis(&mut rng, n);
        let kind = pick_kind(&mut rng, true);
        let t = gen_coord(&mut rng, &g, kind);
        case_fni(ctx, idx, g, t);
    }
    // ---- linspace
    for _ in 0..ctx.n(200, 5000) {
        let Some(idx) = ctx.begin() else { continue };
        let mut rng = Rng::for_case(ctx.seed, 14, idx as u64);
        let a = if rng.chance(1, 2) { rng.range(-100, 100) as f64 } else { rng.uniform(-100.0, 100.0) };
        let b = a + if rng.chance(1, 2) { rng.range(1, 200) as f64 } else { rng.uniform(0.001, 200.0) };
        let n = if rng.chance(1, 10) { rng.below(2) } else { 2 + rng.below(120) };
        case_lin(ctx, idx, a, b, n);
    }
    // ---- generic interpolators, every dimension; ND against 1D/2D/3D on the same data
    for k in 0..ctx.n(1500, 40000) {
        let mut rng = Rng::for_case(ctx.seed, 14, 1_000_000 + k as u64);
        let d = 1 + rng.below(3);
        let mut t = gen_table(&mut rng, d, if d == 3 { 5 } else { 7 }, k % 10 == 9);
        if k % 10 == 8 {
            corrupt(&mut rng, &mut t, ctx);
        }
        let valid = t.axes.iter().all(|a| !a.is_empty());
        let pts = if valid {
            gen_points(&mut rng, &t, 4, ctx)
        } else {
            plain_points(vec![vec![0.5; d]])
        };
        let raw = k % 5 == 4;
        let s = if d == 1 && k % 3 == 0 { 1 + rng.below(4) } else if k % 11 == 0 { rng.below(5) } else { 1 };
        let mut pts = pts;
        if k % 13 == 5 {
            // a point of the wrong dimensionality (validate_inputs' length arms; the raw methods index it)
            let i = rng.below(pts.pts.len());
            if rng.chance(1, 2) {
                pts.pts[i].pop();
            } else {
                pts.pts[i].push(0.25);
            }
            ctx.count("point_wrong_length");
        }
        let a = match ctx.begin() {
            Some(idx) => case_interp(ctx, idx, &t, false, raw, s, &pts).map(|o| (idx, o)),
            None => None,
        };
        // the N-D interpolator on the same data; sometimes with one grid axis too few / too many
        let mut tn = t.clone();
        if k % 17 == 3 {
            if rng.chance(1, 2) {
                tn.axes.pop();
                ctx.count("corrupt_nd_grid_missing");
            } else {
                tn.axes.push(vec![0.0, 1.0]);
                ctx.count("corrupt_nd_grid_extra");
            }
        }
        let b = match ctx.begin() {
            Some(idx) => case_interp(ctx, idx, &tn, true, raw, s, &pts),
            None => None,
        };
        // ND agrees with the fixed-dimension interpolator on the same data (validated linear path)
        if let (Some((idx, a)), Some(b)) = (a, b) {
            if !raw && s == 1 && t.axes.iter().all(|a| a.len() >= 2) {
                let scale = t.scale();
                for ((p, x), y) in pts.pts.iter().zip(&a).zip(&b) {
                    let same = match (x, y) {
                        (Out::Ok(v), Out::Ok(w)) => (v - w).abs() <= REL * scale + 1e-300,
                        (x, y) => x == y,
                    };
                    if !same {
                        ctx.fail(idx, "interp/nd_disagrees", format!("{}-D gives {:?} but N-D gives {:?} at {:?}", d, x, y, p));
                    }
                    ctx.count("oracle_nd_agreement");
                }
            }
        }
    }
    // ---- ND in four and five dimensions
    for k in 0..ctx.n(150, 5000) {
        let Some(idx) = ctx.begin() else { continue };
        let mut rng = Rng::for_case(ctx.seed, 14, idx as u64);
        let d = 4 + rng.below(2);
        let t = gen_table(&mut rng, d, 3, false);
        let pts = gen_points(&mut rng, &t, 3, ctx);
        case_interp(ctx, idx, &t, true, k % 6 == 5, 1, &pts);
    }
    // ---- N-D tables with a NaN value (the `is_nan` guard of InterpND::linear; 1-3-D propagate NaN)
    for k in 0..ctx.n(120, 3000) {
        let mut rng = Rng::for_case(ctx.seed, 14, 2_000_000 + k as u64);
        let d = 1 + rng.below(3);
        let mut t = gen_table(&mut rng, d, 4, false);
        t.multilinear = None;
        let n = t.data.len();
        for _ in 0..1 + rng.below(2) {
            t.data[rng.below(n)] = f64::NAN;
        }
        let mut pts = vec![];
        for _ in 0..5 {
            let p: Vec<f64> = (0..d)
                .map(|a| {
                    let kind = if rng.chance(1, 3) { Kind::OnLine } else { Kind::Inside };
                    gen_coord(&mut rng, &t.axes[a], kind)
                })
                .collect();
            pts.push(p);
        }
        let pts = plain_points(pts);
        for nd in [false, true] {
            let Some(idx) = ctx.begin() else { continue };
            let line = format!("{} v L {} {}", if nd { "in".to_string() } else { format!("i{}", d) }, table_text(&t, nd), pts_text(&pts.pts));
            match build(&t, nd) {
                Err(is_err) => ctx.emit(idx, line, if is_err { "new err".to_string() } else { "new panic".to_string() }),
                Ok(b) => {
                    let outs = eval(b, false, 1, &pts.pts);
                    for o in &outs {
                        ctx.count(match o {
                            Out::Ok(v) if v.is_nan() => "nan_table_result_nan",
                            Out::Ok(_) => "nan_table_result_value",
                            Out::Err => "nan_table_rejected",
                            Out::Panic => "nan_table_panic",
                        });
                        if *o == Out::Panic {
                            ctx.fail(idx, "interp/panic_validated", format!("table with NaN values panicked on the validated path ({}-D, nd={})", d, nd));
                        }
                    }
                    ctx.nontrivial(&line);
                    ctx.emit(idx, line, outs.iter().map(|o| o.text()).collect::<Vec<_>>().join(" "));
                }
            }
        }
    }
    // ---- tables whose first / last grid line is -inf / +inf (accepted: strictly increasing); fractions become
    // inf/inf = NaN or x/inf = 0: model and code must agree bit for bit, and the validated path must not panic
    for k in 0..ctx.n(120, 3000) {
        let mut rng = Rng::for_case(ctx.seed, 14, 3_000_000 + k as u64);
        let d = 1 + rng.below(3);
        let mut t = gen_table(&mut rng, d, 4, false);
        t.multilinear = None;
        for a in 0..d {
            match rng.below(4) {
                0 => t.axes[a][0] = f64::NEG_INFINITY,
                1 => {
                    let n = t.axes[a].len();
                    t.axes[a][n - 1] = f64::INFINITY;
                }
                2 => {
                    let n = t.axes[a].len();
                    t.axes[a][0] = f64::NEG_INFINITY;
                    t.axes[a][n - 1] = f64::INFINITY;
                }
                _ => {}
            }
        }
        let mut pts = vec![];
        for _ in 0..5 {
            let p: Vec<f64> = (0..d)
                .map(|a| {
                    let g = &t.axes[a];
                    match rng.below(5) {
                        0 => g[rng.below(g.len())],
                        1 => f64::INFINITY,
                        2 => f64::NEG_INFINITY,
                        _ => {
                            let lo = if g[0].is_finite() { g[0] } else { g[1].min(0.0) - 10.0 };
                            let hi = if g[g.len() - 1].is_finite() { g[g.len() - 1] } else { g[g.len() - 2].max(0.0) + 10.0 };
                            rng.uniform(lo.min(hi), hi.max(lo))
                        }
                    }
                })
                .collect();
            pts.push(p);
        }
        let pts = plain_points(pts);
        for nd in [false, true] {
            let Some(idx) = ctx.begin() else { continue };
            let line = format!("{} v L {} {}", if nd { "in".to_string() } else { format!("i{}", d) }, table_text(&t, nd), pts_text(&pts.pts));
            match build(&t, nd) {
                Err(is_err) => ctx.emit(idx, line, if is_err { "new err".to_string() } else { "new panic".to_string() }),
                Ok(b) => {
                    let outs = eval(b, false, 1, &pts.pts);
                    for o in &outs {
                        ctx.count(match o {
                            Out::Ok(v) if v.is_nan() => "inf_grid_result_nan",
                            Out::Ok(_) => "inf_grid_result_value",
                            Out::Err => "inf_grid_rejected",
                            Out::Panic => "inf_grid_panic",
                        });
                        if *o == Out::Panic {
                            ctx.fail(idx, "interp/panic_validated", format!("grid with infinite lines panicked on the validated path ({}-D, nd={})", d, nd));
                        }
                    }
                    ctx.nontrivial(&line);
                    ctx.emit(idx, line, outs.iter().map(|o| o.text()).collect::<Vec<_>>().join(" "));
                }
            }
        }
    }
    // ---- SmartcoreSpeedGradeModel: loading and prediction in every unit combination
    for _ in 0..ctx.n(300, 6000) {
        let Some(idx) = ctx.begin() else { continue };
        let mut rng = Rng::for_case(ctx.seed, 14, idx as u64);
        case_sc(ctx, idx, &und, &mut rng);
    }
    // ---- load_prediction_model: every arm
    for _ in 0..ctx.n(300, 6000) {
        let Some(idx) = ctx.begin() else { continue };
        let mut rng = Rng::for_case(ctx.seed, 14, idx as u64);
        case_lpm(ctx, idx, &und, &mut rng);
    }
    // ---- every bundled vehicle with its bundled interpolation configuration
    for b in 0..und.bundled.len() {
        let Some(idx) = ctx.begin() else { continue };
        let mut rng = Rng::for_case(ctx.seed, 14, idx as u64);
        let spec = und.bundled[b].clone();
        let qs = gen_queries(&mut rng, &spec, ctx.n(6, 40));
        case_sg(ctx, idx, &und, &spec, &qs);
        ctx.count("sg_bundled_vehicle_configuration");
    }
    // ---- speed/grade model
    let n_generic = und.paths.len() - und.bundled.len();
    for k in 0..ctx.n(400, 10000) {
        let Some(idx) = ctx.begin() else { continue };
        let mut rng = Rng::for_case(ctx.seed, 14, idx as u64);
        let spec = gen_sg(&mut rng, k % 50 == 49, n_generic);
        let qs = gen_queries(&mut rng, &spec, 4);
        case_sg(ctx, idx, &und, &spec, &qs);
    }
    "non-trivial: a case in which the real code returned a value for at least one point (generic interpolators), every find_nearest_index / linspace(n >= 2) / speed-grade case that built a model"
}
