//! C17 — grid search expands a query into exactly the Cartesian product of its options.
//!
//! Three kinds of case line (model: lean/Compass/Drv/C17.lean):
//!   `proc <json>`  the real `GridSearchPlugin {}.process(&mut value)`            -> `ok <json>` | `err <variant>` | `panic` | `diverges`
//!   `ms <sets>`    the real `MultiSet::from(&sets).into_iter().collect()`         -> `ok <list of lists>`
//!   `pipe <json>`  the real `apply_input_plugins(&query, &[GridSearchPlugin])`    -> `ok n <json>…` | `perr <request json>`
//!   `jop <json>`   the real `json_array_op(&mut state, grid search)` on a whole query STATE (an array
//!                  with several queries, as left by an earlier plugin), then `json_array_flatten`
//!                                                                               -> `ok <state> (fok n <json>… | ferr <request>)` | `perr <request json>`
//!   `flat <json>`  the real `json_array_flatten_in_place(&mut v)` on ANY value          -> `ok <json>` | `perr <request json>`
//!   `fin <json>`   the real `json_array_flatten(&mut v)` on ANY value                    -> `ok n <json>…` | `perr <request json>`
//!   `pkg e <json>` / `pkg i <opt json> <opt json>`  the real `package_error` / `package_invariant_error`
//!                  (all four Some/None combinations)                                    -> the response, its message replaced by "E"
//!   `msd k <sets>` the real `MultiSet` on ANY vector of vectors — no set, empty sets, one set, very many
//!                  axes — stopped after at most `k` calls of `next`                      -> `ok <ended> <list of lists>` | `panic`
//!   `bld <cfg> <json>`  the real `CompassAppBuilder::default().build_input_plugins(cfg)` (grid-search entries,
//!                  arbitrary parameters, malformed sections) and then `apply_input_plugins` with what was built
//!                                                                               -> `cerr <variant>` | `built n` + the `pipe` answer
//! JSON crosses the protocol through `jsonproto::enc` (key order preserved), so the model has to
//! reproduce the implementation's output textually, key order included.
//!
//! Oracle (independent of the Lean model; objects compared as maps, i.e. `serde_json` equality):
//!   grid/count            number of generated queries = product of the axis lengths
//!   grid/combinations     the generated queries are, as a multiset, exactly { original − grid key,
//!                         overlaid with the options of c | c an index combination } — every combination
//!                         present, none twice (enumerated here by plain recursion, not by MultiSet)
//!   grid/duplicate-query  no key collisions and pairwise different options per axis, yet two equal outputs
//!   grid/grid-key-left    a generated query still has the grid key
//!   grid/not-objects      the replacement is not an array of objects
//!   grid/passthrough      a query without grid section was changed or rejected
//!   grid/degenerate       a section without array field / with an empty array is not answered by `Err`
//!   grid/recursion        a section whose text contains `grid_search` is not answered by `Err`
//!   grid/section-type     a section that is not an object is not answered by `Err`
//!   grid/rejected         a well-formed grid section was rejected
//!   grid/equal-queries-witness  a recorded witness of "two combinations, one query" no longer reproduces
//!   grid/panic            the plugin panicked (any other input; on a degenerate section: grid/degenerate)
//!   multiset/count, multiset/duplicate, multiset/range   MultiSet over index sets
//!   pipeline/expansion    apply_input_plugins does not return exactly the plugin's expansion
//!   pipeline/state-flatten  json_array_op over a state of several queries does not return, in order, each
//!                         query's own expansion (a query without grid section standing for itself)
//!   multiset/degenerate   MultiSet on no set / an empty set does not yield the Cartesian product ([[]] / nothing)
//!   multiset/product      MultiSet (any input, bounded run) does not yield the Cartesian product
//!   response/shape        an error response is not exactly {"request": …, "error": "<text>"} with the request it
//!                         is about (or the placeholder) and a message that shows the offending JSON
//!   flatten/one-level     json_array_flatten_in_place is not the one-level concatenation / rejects an array
//!   flatten/objects       json_array_flatten does not return exactly the elements of an array of objects, or
//!                         accepts something else
//!   builder/config        build_input_plugins: wrong number of plugins, or a malformed section accepted
//!   builder/behaviour     a built grid-search plugin (whatever its parameters) does not behave like the plugin
use crate::ctx::Ctx;
use crate::jsonproto::enc;
use crate::rng::Rng;
use routee_compass::app::compass::compass_app::apply_input_plugins;
use routee_compass::plugin::input::default::grid_search::plugin::GridSearchPlugin;
use routee_compass::plugin::input::input_plugin::InputPlugin;
use routee_compass::app::compass::config::builders::InputPluginBuilder;
use routee_compass::app::compass::config::compass_app_builder::CompassAppBuilder;
use routee_compass::app::compass::config::compass_configuration_error::CompassConfigurationError;
use routee_compass::plugin::input::default::grid_search::builder::GridSearchBuilder;
use routee_compass::plugin::input::input_plugin_ops::{
    json_array_flatten, json_array_flatten_in_place, json_array_op, package_error, package_invariant_error,
};
use routee_compass::plugin::input::InputPluginError;
use routee_compass_core::util::multiset::MultiSet;
use serde_json::{json, Map, Value};
use std::collections::HashSet;
use std::sync::Arc;

const GRID: &str = "grid_search";

/// small pool, so that option keys collide with axis names, with other fields and with each other
const KEYS: &[&str] = &[
    "a", "b", "c", "x", "y", "name", "weights", "model_name", "origin_x", "abc", "k\"q", "é", "_ignore", "grid", "search",
];

/// top-level field names that merely CONTAIN the section's name: every one of them is an "other field of
/// the original" and has to be in every generated query (a plugin that drops the section by a text test
/// on the key, instead of by the key, loses them)
const NEAR_GRID: &[&str] = &["grid_search_id", "my_grid_search", "grid_searches", "xgrid_searchx", "grid_search ", "Grid_search", "grid_search.notes"];

fn other_field_name(rng: &mut Rng) -> String {
    if rng.below(4) == 0 { rng.pick(NEAR_GRID).to_string() } else { rng.pick(KEYS).to_string() }
}

fn variant(e: &InputPluginError) -> &'static str {
    match e {
        InputPluginError::BuildFailed(_) => "BuildFailed",
        InputPluginError::MissingExpectedQueryField(_) => "MissingExpectedQueryField",
        InputPluginError::MissingQueryFieldPair(_, _) => "MissingQueryFieldPair",
        InputPluginError::QueryFieldHasInvalidType(_, _) => "QueryFieldHasInvalidType",
        InputPluginError::UnexpectedQueryStructure(_) => "UnexpectedQueryStructure",
        InputPluginError::JsonError { .. } => "JsonError",
        InputPluginError::InputPluginFailed(_) => "InputPluginFailed",
        InputPluginError::InternalError(_) => "InternalError",
    }
}

/// what the real plugin did
enum Real {
    Ok(Value),
    Err(&'static str),
    Panic,
    /// only from the forked runner: the child was killed by its alarm or memory limit
    Diverges,
}

fn real_line(r: &Real) -> String {
    match r {
        Real::Ok(v) => format!("ok {}", enc(v)),
        Real::Err(k) => format!("err {}", k),
        Real::Panic => "panic".to_string(),
        Real::Diverges => "diverges".to_string(),
    }
}

fn call_plugin(q: &Value) -> Real {
    let mut v = q.clone();
    let r = std::panic::catch_unwind(std::panic::AssertUnwindSafe(|| {
        let plugin = GridSearchPlugin {};
        let r = plugin.process(&mut v);
        (r, v)
    }));
    match r {
        Err(_) => Real::Panic,
        Ok((Ok(()), v)) => Real::Ok(v),
        Ok((Err(e), _)) => Real::Err(variant(&e)),
    }
}

/// the same call in a forked child with a 10 s alarm and a 2 GiB address-space limit: used for the
/// sections on which an unguarded MultiSet would never finish (no axis), so that a regression shows up
/// as `diverges` instead of hanging the check.  Only the (short) `err …`/`panic` answers travel back.
fn call_plugin_forked(q: &Value) -> Real {
    unsafe {
        let mut fds = [0i32; 2];
        if libc::pipe(fds.as_mut_ptr()) != 0 {
            return call_plugin(q);
        }
        let pid = libc::fork();
        if pid < 0 {
            return call_plugin(q);
        }
        if pid == 0 {
            libc::close(fds[0]);
            // the child's allocation-failure backtraces are noise
            let devnull = libc::open(b"/dev/null\0".as_ptr() as *const libc::c_char, libc::O_WRONLY);
            if devnull >= 0 {
                libc::dup2(devnull, 2);
            }
            let lim = libc::rlimit { rlim_cur: 2 << 30, rlim_max: 2 << 30 };
            libc::setrlimit(libc::RLIMIT_AS, &lim);
            libc::alarm(10);
            let msg = match call_plugin(q) {
                Real::Ok(v) => format!("O{}", serde_json::to_string(&v).unwrap_or_default()),
                Real::Err(k) => format!("E{}", k),
                Real::Panic => "P".to_string(),
                Real::Diverges => "D".to_string(),
            };
            let b = msg.as_bytes();
            let mut off = 0;
            while off < b.len() {
                let n = libc::write(fds[1], b[off..].as_ptr() as *const libc::c_void, b.len() - off);
                if n <= 0 {
                    break;
                }
                off += n as usize;
            }
            libc::_exit(0);
        }
        libc::close(fds[1]);
        let mut buf = Vec::new();
        let mut chunk = [0u8; 65536];
        loop {
            let n = libc::read(fds[0], chunk.as_mut_ptr() as *mut libc::c_void, chunk.len());
            if n <= 0 {
                break;
            }
            buf.extend_from_slice(&chunk[..n as usize]);
        }
        libc::close(fds[0]);
        let mut status = 0i32;
        libc::waitpid(pid, &mut status, 0);
        if !(libc::WIFEXITED(status) && libc::WEXITSTATUS(status) == 0) || buf.is_empty() {
            return Real::Diverges;
        }
        let s = String::from_utf8_lossy(&buf).to_string();
        match s.as_bytes()[0] {
            b'O' => match serde_json::from_str::<Value>(&s[1..]) {
                Ok(v) => Real::Ok(v),
                Err(_) => Real::Diverges,
            },
            b'E' => Real::Err(match &s[1..] {
                "InputPluginFailed" => "InputPluginFailed",
                "UnexpectedQueryStructure" => "UnexpectedQueryStructure",
                "JsonError" => "JsonError",
                _ => "Other",
            }),
            b'P' => Real::Panic,
            _ => Real::Diverges,
        }
    }
}

// ---------------------------------------------------------------------------------------------
// oracle

/// text of a value with object keys sorted at every level: equal texts <=> equal as maps
fn canon(v: &Value) -> String {
    match v {
        Value::Array(xs) => format!("[{}]", xs.iter().map(canon).collect::<Vec<_>>().join(",")),
        Value::Object(m) => {
            let mut items: Vec<(String, String)> =
                m.iter().map(|(k, x)| (serde_json::to_string(k).unwrap(), canon(x))).collect();
            items.sort();
            format!("{{{}}}", items.iter().map(|(k, x)| format!("{}:{}", k, x)).collect::<Vec<_>>().join(","))
        }
        other => serde_json::to_string(other).unwrap(),
    }
}

/// all index combinations for the sizes, by plain recursion (order irrelevant to the oracle)
fn all_combinations(sizes: &[usize]) -> Vec<Vec<usize>> {
    let mut out: Vec<Vec<usize>> = vec![vec![]];
    for n in sizes {
        let mut next = Vec::with_capacity(out.len() * n);
        for prefix in &out {
            for i in 0..*n {
                let mut p = prefix.clone();
                p.push(i);
                next.push(p);
            }
        }
        out = next;
    }
    out
}

/// shape of a query as the property sees it
enum Shape<'a> {
    /// not an object, or no grid key
    NoGrid,
    /// the section's text contains `grid_search`
    Recursive,
    /// the section is not an object
    SectionNotObject,
    /// no array-valued field (`no_axis`), or some empty array
    Degenerate { no_axis: bool },
    Grid { rest: Map<String, Value>, axes: Vec<(&'a String, &'a Vec<Value>)> },
}

fn text_has_grid(v: &Value) -> bool {
    // the guard as the code states it: a text test on the compact serialization
    serde_json::to_string(v).map(|s| s.contains(GRID)).unwrap_or(false)
}

fn shape(q: &Value) -> Shape<'_> {
    let Some(obj) = q.as_object() else { return Shape::NoGrid };
    let Some(sec) = obj.get(GRID) else { return Shape::NoGrid };
    if text_has_grid(sec) {
        return Shape::Recursive;
    }
    let Some(sec) = sec.as_object() else { return Shape::SectionNotObject };
    let axes: Vec<(&String, &Vec<Value>)> =
        sec.iter().filter_map(|(k, v)| v.as_array().map(|a| (k, a))).collect();
    if axes.is_empty() {
        return Shape::Degenerate { no_axis: true };
    }
    if axes.iter().any(|(_, a)| a.is_empty()) {
        return Shape::Degenerate { no_axis: false };
    }
    let mut rest = obj.clone();
    rest.shift_remove(GRID);
    Shape::Grid { rest, axes }
}

/// original minus the grid key, overlaid with the options of one combination (as a map)
fn expected_instance(rest: &Map<String, Value>, axes: &[(&String, &Vec<Value>)], comb: &[usize]) -> Value {
    let mut m = rest.clone();
    for ((key, opts), i) in axes.iter().zip(comb.iter()) {
        match &opts[*i] {
            Value::Object(o) => {
                for (k, v) in o {
                    m.insert(k.clone(), v.clone());
                }
            }
            scalar => {
                m.insert((*key).clone(), scalar.clone());
            }
        }
    }
    Value::Object(m)
}

/// true when no written key can hit another field, another axis' keys or the same key twice, and the
/// options of each axis are pairwise different: then different combinations must give different queries
fn collision_free(rest: &Map<String, Value>, axes: &[(&String, &Vec<Value>)]) -> bool {
    let mut owner: std::collections::HashMap<String, usize> = std::collections::HashMap::new();
    for (ai, (key, opts)) in axes.iter().enumerate() {
        let mut written: HashSet<String> = HashSet::new();
        let mut all_scalar = true;
        let mut all_object = true;
        for o in opts.iter() {
            match o {
                Value::Object(m) => {
                    all_scalar = false;
                    for k in m.keys() {
                        written.insert(k.clone());
                    }
                }
                _ => {
                    all_object = false;
                    written.insert((*key).clone());
                }
            }
        }
        // a mixed axis, or object options with different key sets, leave different keys behind: fine,
        // but keep the rule simple and sound — require uniform axes
        if !(all_scalar || all_object) {
            return false;
        }
        if all_object {
            let first: HashSet<&String> = opts[0].as_object().unwrap().keys().collect();
            if opts.iter().any(|o| o.as_object().unwrap().keys().collect::<HashSet<_>>() != first) {
                return false;
            }
        }
        for k in written {
            if rest.contains_key(&k) || owner.insert(k, ai).is_some() {
                return false;
            }
        }
        let cs: HashSet<String> = opts.iter().map(canon).collect();
        if cs.len() != opts.len() {
            return false;
        }
    }
    true
}

fn oracle_proc(ctx: &mut Ctx, idx: usize, q: &Value, real: &Real) {
    if matches!(real, Real::Panic) && !matches!(shape(q), Shape::Degenerate { .. }) {
        // (a panic on a degenerate section is reported under grid/degenerate below)
        ctx.fail(idx, "grid/panic", format!("GridSearchPlugin::process panicked on {}", q));
    }
    match shape(q) {
        Shape::NoGrid => match real {
            Real::Ok(v) if v == q && enc(v) == enc(q) => {}
            Real::Panic => {}
            _ => ctx.fail(idx, "grid/passthrough", format!("query without grid section did not pass through unchanged: {} -> {}", q, real_line(real))),
        },
        Shape::Recursive => {
            if !matches!(real, Real::Err(_)) {
                ctx.fail(idx, "grid/recursion", format!("section containing the text grid_search was not rejected: {} -> {}", q, real_line(real)));
            }
        }
        Shape::SectionNotObject => {
            if !matches!(real, Real::Err(_)) {
                ctx.fail(idx, "grid/section-type", format!("non-object grid section was not rejected: {} -> {}", q, real_line(real)));
            }
        }
        Shape::Degenerate { .. } => {
            if !matches!(real, Real::Err(_)) {
                ctx.fail(idx, "grid/degenerate", format!("degenerate grid section (no array field / empty array) must be answered with an error: {} -> {}", q, clip(&real_line(real))));
            }
        }
        Shape::Grid { rest, axes } => {
            let out = match real {
                Real::Ok(v) => v,
                Real::Panic => return,
                other => {
                    ctx.fail(idx, "grid/rejected", format!("well-formed grid section rejected: {} -> {}", q, real_line(other)));
                    return;
                }
            };
            let Some(outs) = out.as_array() else {
                ctx.fail(idx, "grid/not-objects", format!("replacement is not an array: {}", clip(&out.to_string())));
                return;
            };
            if outs.iter().any(|o| !o.is_object()) {
                ctx.fail(idx, "grid/not-objects", format!("a generated query is not an object: {}", clip(&out.to_string())));
                return;
            }
            let sizes: Vec<usize> = axes.iter().map(|(_, a)| a.len()).collect();
            let product: usize = sizes.iter().product();
            if outs.len() != product {
                ctx.fail(idx, "grid/count", format!("{} queries generated for axis sizes {:?} (product {}) from {}", outs.len(), sizes, product, q));
            }
            if outs.iter().any(|o| o.get(GRID).is_some()) {
                ctx.fail(idx, "grid/grid-key-left", format!("a generated query still has a grid_search field: {}", q));
            }
            let combs = all_combinations(&sizes);
            let mut want: Vec<String> = combs.iter().map(|c| canon(&expected_instance(&rest, &axes, c))).collect();
            // spot check of `canon` against serde_json's own (order-insensitive) equality
            if let (Some(c0), Some(o0)) = (combs.first(), outs.first()) {
                let e0 = expected_instance(&rest, &axes, c0);
                if (canon(&e0) == canon(o0)) != (&e0 == o0) {
                    ctx.fail(idx, "harness/canon", "canonical text and serde_json equality disagree".to_string());
                }
            }
            let mut got: Vec<String> = outs.iter().map(canon).collect();
            let distinct_got = got.iter().collect::<HashSet<_>>().len();
            want.sort();
            got.sort();
            if want != got {
                let missing = want.iter().find(|w| got.binary_search(w).is_err());
                let extra = got.iter().find(|g| want.binary_search(g).is_err());
                ctx.fail(idx, "grid/combinations", format!(
                    "generated queries are not one per combination: sizes {:?}, first missing {:?}, first unexpected {:?}, query {}",
                    sizes, missing.map(|s| clip(s)), extra.map(|s| clip(s)), clip(&q.to_string())));
            }
            if collision_free(&rest, &axes) && distinct_got != outs.len() {
                ctx.fail(idx, "grid/duplicate-query", format!("collision-free grid gave {} queries of which only {} distinct: {}", outs.len(), distinct_got, q));
            }
        }
    }
}

fn clip(s: &str) -> String {
    if s.len() <= 400 {
        s.to_string()
    } else {
        let mut e = 400;
        while !s.is_char_boundary(e) {
            e -= 1;
        }
        format!("{}…", &s[..e])
    }
}

// ---------------------------------------------------------------------------------------------
// generators

fn scalar(rng: &mut Rng) -> Value {
    match rng.below(12) {
        0 => Value::Null,
        1 => json!(true),
        2 => json!(false),
        3 => json!(rng.range(-3, 12)),
        4 => json!(rng.range(0, 3)),
        5 => json!(rng.small_decimal(9, 1)),
        6 => json!(-rng.small_decimal(99, 2)),
        7 => json!(["2016_TOYOTA_Camry_4cyl_2WD", "2017_CHEVROLET_Bolt", "a", "b", "", "x y", "ünï", "q\"uote\\", "tab\tnl\n", "grid", "search", "Grid_Search", "grid-search", "grid_searc", "rid_search"][rng.below(15)]),
        8 => json!(format!("s{}", rng.below(4))),
        9 => json!(1u64 << rng.below(63)),
        10 => json!(rng.uniform(-1.0e6, 1.0e6)),
        _ => json!(rng.below(3)),
    }
}

fn value(rng: &mut Rng, depth: usize) -> Value {
    if depth == 0 || rng.chance(3, 5) {
        return scalar(rng);
    }
    if rng.chance(1, 2) {
        let n = rng.below(4);
        Value::Array((0..n).map(|_| value(rng, depth - 1)).collect())
    } else {
        Value::Object(object(rng, depth - 1, 3))
    }
}

fn object(rng: &mut Rng, depth: usize, max_keys: usize) -> Map<String, Value> {
    let n = rng.below(max_keys + 1);
    let mut m = Map::new();
    for _ in 0..n {
        m.insert(rng.pick(KEYS).to_string(), value(rng, depth));
    }
    m
}

/// a non-empty object option
fn object_option(rng: &mut Rng, fresh: bool, tag: usize) -> Value {
    let n = 1 + rng.below(3);
    let mut m = Map::new();
    for j in 0..n {
        let k = if fresh { format!("o{}_{}", tag, j) } else { rng.pick(KEYS).to_string() };
        m.insert(k, value(rng, 2));
    }
    Value::Object(m)
}

#[derive(Clone, Copy, PartialEq)]
enum OptKind {
    Scalar,
    Object,
    Mixed,
}

struct GridSpec {
    sizes: Vec<usize>,
    /// option keys / axis names / other fields drawn from disjoint name spaces
    fresh: bool,
    before: usize,
    after: usize,
    /// non-array fields inside the section (the code ignores them)
    noise: usize,
}

fn grid_query(rng: &mut Rng, spec: &GridSpec) -> (Value, String) {
    let mut sec = Map::new();
    let mut kinds = String::new();
    let mut noise_left = spec.noise;
    for (ai, n) in spec.sizes.iter().enumerate() {
        while noise_left > 0 && rng.chance(1, 2) {
            noise_left -= 1;
            let v = match rng.below(3) {
                0 => scalar(rng),
                1 => Value::Object(object(rng, 1, 2)),
                _ => json!("note"),
            };
            sec.insert(format!("n{}", noise_left), v);
        }
        let name = loop {
            let k = if spec.fresh { format!("ax{}", ai) } else { rng.pick(KEYS).to_string() };
            if !sec.contains_key(&k) {
                break k;
            }
            if !spec.fresh && rng.chance(1, 4) {
                let k2 = format!("ax{}", ai);
                if !sec.contains_key(&k2) {
                    break k2;
                }
            }
        };
        let kind = *rng.pick(&[OptKind::Scalar, OptKind::Scalar, OptKind::Object, OptKind::Mixed]);
        kinds.push(match kind {
            OptKind::Scalar => 's',
            OptKind::Object => 'o',
            OptKind::Mixed => 'm',
        });
        let opts: Vec<Value> = (0..*n)
            .map(|j| {
                let as_obj = match kind {
                    OptKind::Scalar => false,
                    OptKind::Object => true,
                    OptKind::Mixed => rng.chance(1, 2),
                };
                if as_obj {
                    object_option(rng, spec.fresh, ai)
                } else if spec.fresh {
                    json!(format!("v{}_{}", ai, j))
                } else if rng.chance(1, 8) {
                    // a non-object, non-scalar choice: goes under the field's name like a scalar
                    Value::Array((0..rng.below(3)).map(|_| scalar(rng)).collect())
                } else if rng.chance(1, 12) {
                    // the empty object merges nothing
                    json!({})
                } else {
                    scalar(rng)
                }
            })
            .collect();
        sec.insert(name, Value::Array(opts));
    }
    while noise_left > 0 {
        noise_left -= 1;
        sec.insert(format!("n{}", noise_left), scalar(rng));
    }
    let mut q = Map::new();
    for j in 0..spec.before {
        let k = if spec.fresh { format!("f{}", j) } else { other_field_name(rng) };
        q.insert(k, value(rng, 2));
    }
    q.insert(GRID.to_string(), Value::Object(sec));
    for j in 0..spec.after {
        let k = if spec.fresh { format!("g{}", j) } else { other_field_name(rng) };
        if k != GRID {
            q.insert(k, value(rng, 2));
        }
    }
    let fp = format!("{:?}|{}|{}|{}|{}", spec.sizes, kinds, spec.before, spec.after, spec.fresh);
    (Value::Object(q), fp)
}

fn proc_case(ctx: &mut Ctx, q: &Value, branch: &str, fp: Option<String>) {
    let Some(idx) = ctx.begin() else { return };
    let forked = matches!(shape(q), Shape::Degenerate { no_axis: true });
    let real = if forked { call_plugin_forked(q) } else { call_plugin(q) };
    ctx.emit(idx, format!("proc {}", enc(q)), real_line(&real));
    ctx.count(branch);
    match &real {
        Real::Ok(Value::Array(a)) if !matches!(shape(q), Shape::NoGrid) => {
            ctx.count("outcome_expanded");
            ctx.count_n("generated_queries", a.len() as u64);
            if a.len() >= 2 {
                ctx.nontrivial(&fp.unwrap_or_else(|| enc(q)));
            }
            // equal queries for different combinations: conforming (one query per index tuple, see the
            // header of Props/C17.lean), counted so that the evidence shows how often the stream meets them
            let distinct = a.iter().map(canon).collect::<HashSet<_>>().len();
            if distinct < a.len() {
                ctx.count("expansions_with_equal_queries");
            }
            if branch == "corpus_equal_queries" && distinct == a.len() {
                // the witnesses of the `grid_outputs_distinct_counterexample*` theorems must reproduce
                ctx.fail(idx, "grid/equal-queries-witness", format!("the recorded witness no longer yields two equal queries: {} -> {}", q, clip(&real_line(&real))));
            }
        }
        Real::Ok(_) => ctx.count("outcome_unchanged"),
        Real::Err(k) => ctx.count(&format!("outcome_err_{}", k)),
        Real::Panic => ctx.count("outcome_panic"),
        Real::Diverges => ctx.count("outcome_diverges"),
    }
    oracle_proc(ctx, idx, q, &real);
}

fn nat_lists(l: &[Vec<usize>]) -> String {
    let mut out = l.len().to_string();
    for v in l {
        out.push_str(&format!(" {}", v.len()));
        for x in v {
            out.push_str(&format!(" {}", x));
        }
    }
    out
}

/// the real MultiSet, only ever on non-degenerate inputs (>= 1 set, every set non-empty)
fn ms_case(ctx: &mut Ctx, sets: &Vec<Vec<usize>>, index_sets: bool) {
    assert!(!sets.is_empty() && sets.iter().all(|s| !s.is_empty()));
    let Some(idx) = ctx.begin() else { return };
    let r = std::panic::catch_unwind(|| MultiSet::from(sets).into_iter().collect::<Vec<Vec<usize>>>());
    let product: usize = sets.iter().map(|s| s.len()).product();
    match r {
        Err(_) => {
            ctx.emit(idx, format!("ms {}", nat_lists(sets)), "panic".to_string());
            ctx.fail(idx, "multiset/panic", format!("MultiSet panicked on {:?}", sets));
        }
        Ok(l) => {
            ctx.emit(idx, format!("ms {}", nat_lists(sets)), format!("ok {}", nat_lists(&l)));
            if l.len() != product {
                ctx.fail(idx, "multiset/count", format!("{} combinations for sizes {:?}", l.len(), sets.iter().map(|s| s.len()).collect::<Vec<_>>()));
            }
            if index_sets {
                let distinct: HashSet<&Vec<usize>> = l.iter().collect();
                if distinct.len() != l.len() {
                    ctx.fail(idx, "multiset/duplicate", format!("a combination occurs twice for {:?}", sets));
                }
                // in range + distinct + count = product  =>  every combination present
                if l.iter().any(|c| c.len() != sets.len() || c.iter().zip(sets.iter()).any(|(i, s)| *i >= s.len())) {
                    ctx.fail(idx, "multiset/range", format!("a combination is not an index vector of {:?}", sets));
                }
            }
            if l.len() >= 2 {
                ctx.nontrivial(&format!("ms {:?}", sets));
            }
        }
    }
    ctx.count(if index_sets { "multiset_index_sets" } else { "multiset_value_sets" });
}

fn pipe_case(ctx: &mut Ctx, q: &Value) {
    if matches!(shape(q), Shape::Degenerate { no_axis: true }) {
        // never hand these to the in-process pipeline (see call_plugin_forked); covered by `proc`
        return;
    }
    let Some(idx) = ctx.begin() else { return };
    let plugins: Vec<Arc<dyn InputPlugin>> = vec![Arc::new(GridSearchPlugin {})];
    let r = std::panic::catch_unwind(std::panic::AssertUnwindSafe(|| apply_input_plugins(q, &plugins)));
    let line = match &r {
        Err(_) => "panic".to_string(),
        Ok(Ok(qs)) => {
            let mut s = format!("ok {}", qs.len());
            for x in qs {
                s.push(' ');
                s.push_str(&enc(x));
            }
            s
        }
        Ok(Err(resp)) => format!("perr {}", enc(resp.get("request").unwrap_or(&Value::Null))),
    };
    ctx.emit(idx, format!("pipe {}", enc(q)), line);
    ctx.count("pipeline");
    // oracle: for a query object the pipeline returns exactly what the plugin generated (or the query)
    if q.is_object() {
        match (call_plugin(q), &r) {
            (Real::Ok(Value::Array(a)), Ok(Ok(qs))) if !matches!(shape(q), Shape::NoGrid) => {
                if &a != qs {
                    ctx.fail(idx, "pipeline/expansion", format!("pipeline output differs from the plugin's expansion for {}", q));
                }
            }
            (Real::Ok(v), Ok(Ok(qs))) => {
                if qs.len() != 1 || qs[0] != v {
                    ctx.fail(idx, "pipeline/expansion", format!("pipeline changed a query without grid section: {}", q));
                }
            }
            (Real::Err(_), Ok(Err(resp))) => {
                if resp.get("request") != Some(q) || resp.get("error").is_none() {
                    ctx.fail(idx, "pipeline/expansion", format!("error response does not carry the request: {}", resp));
                }
            }
            (Real::Panic, _) | (_, Err(_)) => {
                let key = if matches!(shape(q), Shape::Degenerate { .. }) { "grid/degenerate" } else { "grid/panic" };
                ctx.fail(idx, key, format!("pipeline panicked on {}", q))
            }
            _ => ctx.fail(idx, "pipeline/expansion", format!("pipeline and plugin disagree on {}", q)),
        }
    }
}


// ---------------------------------------------------------------------------------------------
// coverage follow-up: every function of input_plugin_ops.rs on arbitrary values, MultiSet on every
// input, the builder from configuration

/// an error response must be exactly {"request": R, "error": "<non-empty text>"}; `shows` are JSON values
/// the message has to display (pretty-printed)
fn check_response(ctx: &mut Ctx, idx: usize, resp: &Value, request: &Value, shows: &[&Value]) {
    let ok_shape = match resp.as_object() {
        Some(m) => {
            m.len() == 2
                && m.keys().map(|k| k.as_str()).collect::<Vec<_>>() == vec!["request", "error"]
                && m.get("request") == Some(request)
                && m.get("error").and_then(|e| e.as_str()).map(|t| !t.is_empty()).unwrap_or(false)
        }
        None => false,
    };
    if !ok_shape {
        ctx.fail(idx, "response/shape", format!("error response {} is not {{request: {}, error: text}}", clip(&resp.to_string()), clip(&request.to_string())));
        return;
    }
    let text = resp["error"].as_str().unwrap_or("");
    for v in shows {
        let pretty = serde_json::to_string_pretty(v).unwrap_or_default();
        if !text.contains(&pretty) {
            ctx.fail(idx, "response/shape", format!("error message does not show {}: {}", clip(&v.to_string()), clip(text)));
        }
    }
}

fn placeholder() -> Value {
    json!({"error": "unable to display query"})
}

/// the response with its message replaced by "E" (messages are never compared with the model)
fn canon_response(resp: &Value) -> String {
    let mut r = resp.clone();
    if let Some(m) = r.as_object_mut() {
        if let Some(e) = m.get_mut("error") {
            if e.is_string() {
                *e = json!("E");
            }
        }
    }
    enc(&r)
}

fn opt_enc(v: &Option<Value>) -> String {
    match v {
        None => "n".to_string(),
        Some(x) => format!("s {}", enc(x)),
    }
}

fn pkg_cases(ctx: &mut Ctx, q: &Value, sub: &Value) {
    // package_error
    if let Some(idx) = ctx.begin() {
        let mut qq = q.clone();
        let resp = package_error(&mut qq, "some message");
        ctx.emit(idx, format!("pkg e {}", enc(q)), canon_response(&resp));
        ctx.count("package_error");
        check_response(ctx, idx, &resp, q, &[]);
        if resp.get("error") != Some(&json!("some message")) || &qq != q {
            ctx.fail(idx, "response/shape", format!("package_error changed the message or the query: {}", clip(&resp.to_string())));
        }
    }
    // package_invariant_error, the four combinations
    for (has_q, has_s) in [(false, false), (false, true), (true, false), (true, true)] {
        let Some(idx) = ctx.begin() else { continue };
        let mut qq = q.clone();
        let mut ss = sub.clone();
        let oq = if has_q { Some(q.clone()) } else { None };
        let os = if has_s { Some(sub.clone()) } else { None };
        let resp = package_invariant_error(if has_q { Some(&mut qq) } else { None }, if has_s { Some(&mut ss) } else { None });
        ctx.emit(idx, format!("pkg i {} {}", opt_enc(&oq), opt_enc(&os)), canon_response(&resp));
        ctx.count(&format!("package_invariant_error:{}{}", if has_q { "q" } else { "-" }, if has_s { "s" } else { "-" }));
        let request = if has_q { q.clone() } else { placeholder() };
        let mut shows: Vec<&Value> = vec![];
        if has_q {
            shows.push(q);
        }
        if has_s {
            shows.push(sub);
        }
        check_response(ctx, idx, &resp, &request, &shows);
        ctx.nontrivial(&format!("pkg {} {} {}", has_q, has_s, enc(q)));
    }
}

/// `json_array_flatten_in_place` and `json_array_flatten` called directly on any value
fn flat_cases(ctx: &mut Ctx, v: &Value, branch: &str) {
    if let Some(idx) = ctx.begin() {
        let mut w = v.clone();
        let r = std::panic::catch_unwind(std::panic::AssertUnwindSafe(|| {
            let r = json_array_flatten_in_place(&mut w);
            (r, w)
        }));
        let line = match &r {
            Err(_) => "panic".to_string(),
            Ok((Ok(()), w)) => format!("ok {}", enc(w)),
            Ok((Err(resp), _)) => format!("perr {}", enc(resp.get("request").unwrap_or(&Value::Null))),
        };
        ctx.emit(idx, format!("flat {}", enc(v)), line);
        ctx.count(&format!("flatten_in_place:{}", branch));
        match (&r, v.as_array()) {
            (Err(_), _) => ctx.fail(idx, "grid/panic", format!("json_array_flatten_in_place panicked on {}", clip(&v.to_string()))),
            (Ok((Ok(()), w)), Some(a)) => {
                // exactly one level: an array element stands for its elements, anything else for itself
                let mut want: Vec<Value> = vec![];
                for e in a {
                    match e {
                        Value::Array(sub) => want.extend(sub.iter().cloned()),
                        other => want.push(other.clone()),
                    }
                }
                if w.as_array() != Some(&want) {
                    ctx.fail(idx, "flatten/one-level", format!("{} flattened to {}", clip(&v.to_string()), clip(&w.to_string())));
                }
                if a.iter().any(|e| e.is_array()) {
                    ctx.nontrivial(&format!("flat {}", enc(v)));
                }
            }
            (Ok((Ok(()), _)), None) => ctx.fail(idx, "flatten/one-level", format!("a state that is not an array was accepted: {}", clip(&v.to_string()))),
            (Ok((Err(resp), w)), None) => {
                check_response(ctx, idx, resp, v, &[v]);
                if w != v {
                    ctx.fail(idx, "flatten/one-level", format!("a rejected state was modified: {}", clip(&v.to_string())));
                }
            }
            (Ok((Err(_), _)), Some(_)) => ctx.fail(idx, "flatten/one-level", format!("an array state was rejected: {}", clip(&v.to_string()))),
        }
    }
    if let Some(idx) = ctx.begin() {
        let mut w = v.clone();
        let r = std::panic::catch_unwind(std::panic::AssertUnwindSafe(|| json_array_flatten(&mut w)));
        let line = match &r {
            Err(_) => "panic".to_string(),
            Ok(Ok(qs)) => {
                let mut s = format!("ok {}", qs.len());
                for x in qs {
                    s.push(' ');
                    s.push_str(&enc(x));
                }
                s
            }
            Ok(Err(resp)) => format!("perr {}", enc(resp.get("request").unwrap_or(&Value::Null))),
        };
        ctx.emit(idx, format!("fin {}", enc(v)), line);
        ctx.count(&format!("flatten_final:{}", branch));
        let all_objects = v.as_array().map(|a| a.iter().all(|e| e.is_object()));
        match (&r, all_objects) {
            (Err(_), _) => ctx.fail(idx, "grid/panic", format!("json_array_flatten panicked on {}", clip(&v.to_string()))),
            (Ok(Ok(qs)), Some(true)) => {
                if Some(qs) != v.as_array() {
                    ctx.fail(idx, "flatten/objects", format!("{} gave {} queries", clip(&v.to_string()), qs.len()));
                }
            }
            (Ok(Ok(_)), _) => ctx.fail(idx, "flatten/objects", format!("a state that is not an array of objects was accepted: {}", clip(&v.to_string()))),
            (Ok(Err(_)), Some(true)) => ctx.fail(idx, "flatten/objects", format!("an array of objects was rejected: {}", clip(&v.to_string()))),
            (Ok(Err(resp)), Some(false)) => {
                // some element is not an object: the message shows one of them (the code shows the last)
                check_response(ctx, idx, resp, &placeholder(), &[]);
                let text = resp["error"].as_str().unwrap_or("").to_string();
                let shown = v.as_array().unwrap().iter().filter(|e| !e.is_object()).any(|e| text.contains(&serde_json::to_string_pretty(e).unwrap_or_default()));
                if !shown {
                    ctx.fail(idx, "response/shape", format!("invariant error shows none of the offending elements: {}", clip(&text)));
                }
            }
            (Ok(Err(resp)), None) => check_response(ctx, idx, resp, v, &[v]),
        }
    }
}

/// Cartesian product by plain recursion: [[]] for no set, nothing when a set is empty
fn product_of(sets: &[Vec<usize>]) -> Vec<Vec<usize>> {
    let mut out: Vec<Vec<usize>> = vec![vec![]];
    for s in sets {
        let mut next = Vec::with_capacity(out.len() * s.len());
        for prefix in &out {
            for x in s {
                let mut p = prefix.clone();
                p.push(*x);
                next.push(p);
            }
        }
        out = next;
    }
    out
}

/// the real MultiSet on ANY input, stopped after at most `k` calls of `next` (so a degenerate input
/// can neither hang nor exhaust memory), inside catch_unwind
fn msd_case(ctx: &mut Ctx, sets: &Vec<Vec<usize>>, k: usize, branch: &str) {
    let Some(idx) = ctx.begin() else { return };
    let r = std::panic::catch_unwind(|| {
        let mut it = MultiSet::from(sets);
        let mut out: Vec<Vec<usize>> = vec![];
        let mut ended = false;
        for _ in 0..k {
            match it.next() {
                Some(c) => out.push(c),
                None => {
                    ended = true;
                    break;
                }
            }
        }
        (out, ended)
    });
    let case = format!("msd {} {}", k, nat_lists(sets));
    ctx.count(&format!("multiset_bounded:{}", branch));
    let degenerate = sets.is_empty() || sets.iter().any(|s| s.is_empty());
    let key = if degenerate { "multiset/degenerate" } else { "multiset/product" };
    match r {
        Err(_) => {
            ctx.emit(idx, case, "panic".to_string());
            ctx.fail(idx, key, format!("MultiSet panicked on {:?}", sets));
        }
        Ok((out, ended)) => {
            ctx.emit(idx, case, format!("ok {} {}", if ended { 1 } else { 0 }, nat_lists(&out)));
            // the product has at most `limit` elements here, so it can be enumerated
            let total: u128 = sets.iter().fold(1u128, |acc, s| acc.saturating_mul(s.len() as u128));
            if total < k as u128 {
                let mut want = product_of(sets);
                let mut got = out.clone();
                want.sort();
                got.sort();
                if !ended || want != got {
                    ctx.fail(idx, key, format!("MultiSet over {:?}: {} combinations in {} calls (ended: {}), the product has {}", clip(&format!("{:?}", sets)), out.len(), k, ended, want.len()));
                }
            } else {
                // cut off: k distinct members of the product
                let distinct: HashSet<&Vec<usize>> = out.iter().collect();
                let member = |c: &Vec<usize>| c.len() == sets.len() && c.iter().zip(sets.iter()).all(|(x, s)| s.contains(x));
                let sets_distinct = sets.iter().all(|s| s.iter().collect::<HashSet<_>>().len() == s.len());
                if ended || out.len() != k || !out.iter().all(member) || (sets_distinct && distinct.len() != out.len()) {
                    ctx.fail(idx, key, format!("MultiSet over {}: first {} calls gave {} combinations (ended: {})", clip(&format!("{:?}", sets)), k, out.len(), ended));
                }
            }
            if out.len() >= 2 || degenerate {
                ctx.nontrivial(&format!("msd {:?}", sets));
            }
        }
    }
}

fn cfg_variant(e: &CompassConfigurationError) -> &'static str {
    match e {
        CompassConfigurationError::ExpectedFieldForComponent(_, _) => "ExpectedFieldForComponent",
        CompassConfigurationError::ExpectedFieldWithType(_, _) => "ExpectedFieldWithType",
        CompassConfigurationError::UnknownModelNameForComponent(_, _, _) => "UnknownModelNameForComponent",
        _ => "Other",
    }
}

fn pipe_line(r: &std::thread::Result<Result<Vec<Value>, Value>>) -> String {
    match r {
        Err(_) => "panic".to_string(),
        Ok(Ok(qs)) => {
            let mut s = format!("ok {}", qs.len());
            for x in qs {
                s.push(' ');
                s.push_str(&enc(x));
            }
            s
        }
        Ok(Err(resp)) => format!("perr {}", enc(resp.get("request").unwrap_or(&Value::Null))),
    }
}

/// the plugin section of a configuration -> plugins -> the pipeline on one query.
/// Only `grid_search` entries and unknown type names are generated (the other builders need files).
fn bld_case(ctx: &mut Ctx, cfg: &Value, q: &Value, branch: &str) {
    if matches!(shape(q), Shape::Degenerate { no_axis: true }) {
        return;
    }
    let Some(idx) = ctx.begin() else { return };
    let built = std::panic::catch_unwind(std::panic::AssertUnwindSafe(|| CompassAppBuilder::default().build_input_plugins(cfg)));
    ctx.count(&format!("builder:{}", branch));
    let case = format!("bld {} {}", enc(cfg), enc(q));
    // what a well-formed section asks for, read independently of the builder
    let wanted: Option<usize> = cfg.get("input_plugins").and_then(|v| v.as_array()).and_then(|a| {
        if a.iter().all(|e| e.get("type").and_then(|t| t.as_str()) == Some(GRID)) {
            Some(a.len())
        } else {
            None
        }
    });
    match built {
        Err(_) => {
            ctx.emit(idx, case, "panic".to_string());
            ctx.fail(idx, "builder/config", format!("build_input_plugins panicked on {}", clip(&cfg.to_string())));
        }
        Ok(Err(e)) => {
            ctx.emit(idx, case, format!("cerr {}", cfg_variant(&e)));
            if wanted.is_some() {
                ctx.fail(idx, "builder/config", format!("a well-formed plugin section was rejected ({}): {}", e, clip(&cfg.to_string())));
            }
        }
        Ok(Ok(plugins)) => {
            let r = std::panic::catch_unwind(std::panic::AssertUnwindSafe(|| apply_input_plugins(q, &plugins)));
            ctx.emit(idx, case, format!("built {} {}", plugins.len(), pipe_line(&r)));
            match wanted {
                None => ctx.fail(idx, "builder/config", format!("a malformed plugin section was accepted: {}", clip(&cfg.to_string()))),
                Some(n) if n != plugins.len() => ctx.fail(idx, "builder/config", format!("{} plugins built from {} entries", plugins.len(), n)),
                Some(n) => {
                    // whatever the parameters and however often it is listed, the answer is the one of a
                    // single GridSearchPlugin (a generated query has no grid section left); none listed:
                    // the query alone
                    let reference: Vec<Arc<dyn InputPlugin>> = if n == 0 { vec![] } else { vec![Arc::new(GridSearchPlugin {})] };
                    let want = std::panic::catch_unwind(std::panic::AssertUnwindSafe(|| apply_input_plugins(q, &reference)));
                    let same = match (&r, &want) {
                        (Ok(Ok(a)), Ok(Ok(b))) => a == b && a.iter().map(enc).collect::<Vec<_>>() == b.iter().map(enc).collect::<Vec<_>>(),
                        (Ok(Err(a)), Ok(Err(b))) => a.get("request") == b.get("request"),
                        _ => false,
                    };
                    if !same {
                        ctx.fail(idx, "builder/behaviour", format!("{} configured grid-search plugin(s) answer {} differently from GridSearchPlugin", n, clip(&q.to_string())));
                    }
                    if n >= 1 {
                        ctx.nontrivial(&format!("bld {} {}", n, enc(q)));
                    }
                }
            }
        }
    }
}

/// `GridSearchBuilder {}.build(params)` directly: never fails, whatever the parameters
fn direct_builder_case(ctx: &mut Ctx, params: &Value, q: &Value) {
    if matches!(shape(q), Shape::Degenerate { no_axis: true }) {
        return;
    }
    let Some(idx) = ctx.begin() else { return };
    let cfg = json!({"input_plugins": [params]});
    // same model arm as `bld` when params carries type = grid_search; the builder itself never looks
    let mut p = params.clone();
    if let Some(m) = p.as_object_mut() {
        m.insert("type".to_string(), json!(GRID));
    } else {
        p = json!({"type": GRID});
    }
    let _ = cfg;
    let cfg = json!({"input_plugins": [p]});
    let r = std::panic::catch_unwind(std::panic::AssertUnwindSafe(|| GridSearchBuilder {}.build(params)));
    ctx.count("builder:direct");
    match r {
        Ok(Ok(plugin)) => {
            let plugins = vec![plugin];
            let r = std::panic::catch_unwind(std::panic::AssertUnwindSafe(|| apply_input_plugins(q, &plugins)));
            ctx.emit(idx, format!("bld {} {}", enc(&cfg), enc(q)), format!("built 1 {}", pipe_line(&r)));
        }
        _ => {
            ctx.emit(idx, format!("bld {} {}", enc(&cfg), enc(q)), "cerr Other".to_string());
            ctx.fail(idx, "builder/config", format!("GridSearchBuilder::build failed on parameters {}", clip(&params.to_string())));
        }
    }
}

fn corpus() -> Vec<(&'static str, Value)> {
    vec![
        // witnesses of the fixed finding (90097cd): must be answered with an error, not panic / hang
        ("corpus_degenerate", json!({"grid_search": {"x": []}})),
        ("corpus_degenerate", json!({"grid_search": {}})),
        ("corpus_degenerate", json!({"grid_search": {"a": 1}})),
        ("corpus_degenerate", json!({"abc": 1, "grid_search": {"a": [1, 2], "x": [], "b": [3]}, "z": 2})),
        ("corpus_degenerate", json!({"grid_search": {"a": {"b": [1, 2]}}})),
        // the repository's own unit tests
        ("corpus_repo_test", json!({"grid_search": {"bar": ["a", "b", "c"], "foo": [1.2, 3.4]}})),
        ("corpus_repo_test", json!({"ignored_key": "ignored_value", "grid_search": {"bar": ["a", "b", "c"], "foo": [1.2, 3.4]}})),
        ("corpus_repo_test", json!({"ignored_key": "ignored_value", "grid_search": {"a": [1, 2], "ignored_inner_key": [{"x": 0, "y": 0}, {"x": 1, "y": 1}]}})),
        ("corpus_repo_test", json!({"abc": 123, "grid_search": {"model_name": ["2016_TOYOTA_Camry_4cyl_2WD", "2017_CHEVROLET_Bolt"], "_ignore": [
            {"name": "d1", "weights": {"distance": 1, "time": 0, "energy_electric": 0}},
            {"name": "t1", "weights": {"distance": 0, "time": 1, "energy_electric": 0}},
            {"name": "e1", "weights": {"distance": 0, "time": 0, "energy_electric": 1}}]}})),
        ("corpus_recursion", json!({"abc": 123, "grid_search": {"grid_search": {"foo": ["a", "b"]}}})),
        // the guard is a text test: a string value, a longer key, an option key, a nested value
        ("corpus_recursion", json!({"grid_search": {"a": [1, 2], "note": "uses grid_search"}})),
        ("corpus_recursion", json!({"grid_search": {"my_grid_search_axis": [1, 2]}})),
        ("corpus_recursion", json!({"grid_search": {"a": [{"grid_search": {"b": [1]}}, {"x": 1}]}})),
        ("corpus_recursion", json!({"grid_search": {"a": ["grid_search"]}})),
        ("corpus_recursion", json!({"grid_search": {"a": [[{"deep": ["xgrid_searchx"]}]]}})),
        ("corpus_recursion", json!({"grid_search": "grid_search"})),
        // near misses of the text test: accepted
        ("corpus_near_recursion", json!({"grid_search": {"a": ["grid", "_search", "grid_searc", "Grid_Search", "grid search"], "grid_": ["search"]}})),
        ("corpus_near_recursion", json!({"grid_search": {"a": ["grid_\nsearch", "grid\\_search", "grid_\"search"]}, "note": "grid_search outside the section is fine"})),
        // section that is not an object
        ("corpus_section_type", json!({"grid_search": [1, 2, 3]})),
        ("corpus_section_type", json!({"grid_search": null})),
        ("corpus_section_type", json!({"grid_search": 7, "a": 1})),
        ("corpus_section_type", json!({"grid_search": "abc"})),
        ("corpus_section_type", json!({"grid_search": [{"a": [1, 2]}]})),
        // swap_remove: the last field takes the grid key's slot
        ("corpus_order", json!({"a": 1, "grid_search": {"x": [1, 2]}, "b": 2, "c": 3})),
        ("corpus_order", json!({"grid_search": {"x": [1, 2]}, "b": 2, "c": 3})),
        ("corpus_order", json!({"a": 1, "b": 2, "grid_search": {"x": [1, 2]}})),
        // overriding: an option key hits an existing field (keeps its position), another axis, the axis name
        // witnesses of Props/C17 grid_outputs_distinct_counterexample{,_across_axes,_original_field}: two
        // combinations, one and the same query (index-level "none twice" holds, value-level does not)
        ("corpus_equal_queries", json!({"grid_search": {"x": [1, {"x": 1}]}})),
        ("corpus_equal_queries", json!({"grid_search": {"a": [{"x": 1}, {"x": 2}], "b": [{"x": 3}]}})),
        ("corpus_equal_queries", json!({"q": 2, "grid_search": {"a": [{"p": 1}, {"p": 1, "q": 2}]}})),
        // equal for serde_json (key order ignored), different as ordered objects
        ("corpus_equal_queries", json!({"grid_search": {"o": [{"p": null, "q": null}, {"q": null, "p": null}]}})),
        ("corpus_collision", json!({"abc": 1, "grid_search": {"a": [{"abc": 2}, {"abc": 3}]}, "k": 0})),
        ("corpus_collision", json!({"grid_search": {"a": [{"x": 1}, {"x": 2}], "b": [{"x": 3}]}})),
        ("corpus_collision", json!({"grid_search": {"a": [1, 2], "b": [{"a": 9}, {"c": 9}]}})),
        ("corpus_collision", json!({"grid_search": {"a": [{"b": 1}, 5], "b": [7, {"a": 8}]}})),
        ("corpus_collision", json!({"x": 0, "grid_search": {"x": [1, 2, 3], "y": [null, {}, [], [1], "s"]}})),
        // single-option axes, many axes
        ("corpus_shape", json!({"grid_search": {"a": [1], "b": [2], "c": [3]}})),
        ("corpus_shape", json!({"grid_search": {"a": [1, 3], "b": [2], "c": [5, 7, 9]}})),
        ("corpus_shape", json!({"q": true, "grid_search": {"a": [1], "b": [1, 2], "c": [1], "d": [1, 2, 3], "e": [1], "f": [1, 2]}})),
        // very many axes: 40 single-option axes (one query), 10 two-option axes (1024 queries)
        ("corpus_many_axes", Value::Object({
            let mut q = Map::new();
            q.insert("keep".to_string(), json!(1));
            let mut sec = Map::new();
            for i in 0..40 {
                sec.insert(format!("axis{:02}", i), if i % 3 == 0 { json!([{format!("o{}", i): i}]) } else { json!([i]) });
            }
            q.insert(GRID.to_string(), Value::Object(sec));
            q
        })),
        ("corpus_many_axes", Value::Object({
            let mut q = Map::new();
            let mut sec = Map::new();
            for i in 0..10 {
                sec.insert(format!("b{}", i), json!([0, 1]));
            }
            q.insert(GRID.to_string(), Value::Object(sec));
            q.insert("after".to_string(), json!("x"));
            q
        })),
        // no grid section / not an object
        ("corpus_passthrough", json!({"origin_x": 1.5, "destination_x": 2, "nested": {"grid_search": {"a": [1]}}})),
        ("corpus_passthrough", json!({})),
        ("corpus_passthrough", json!({"grid_search_2": {"a": [1, 2]}, "Grid_Search": {"a": [1, 2]}, "grid": 1})),
        ("corpus_passthrough", json!([{"grid_search": {"a": [1, 2]}}])),
        ("corpus_passthrough", json!("grid_search")),
        ("corpus_passthrough", json!(null)),
        ("corpus_passthrough", json!(3.25)),
    ]
}

/// `json_array_op` over a whole state, then the final `json_array_flatten`
fn jop_case(ctx: &mut Ctx, state: &Value, branch: &str) {
    if let Some(a) = state.as_array() {
        if a.iter().any(|q| matches!(shape(q), Shape::Degenerate { no_axis: true })) {
            return;
        }
    }
    let Some(idx) = ctx.begin() else { return };
    let r = std::panic::catch_unwind(std::panic::AssertUnwindSafe(|| {
        let mut st = state.clone();
        let plugin = GridSearchPlugin {};
        let r = json_array_op(&mut st, std::rc::Rc::new(move |q: &mut Value| plugin.process(q)));
        match r {
            Err(resp) => Err(resp),
            Ok(()) => {
                let after = st.clone();
                let fin = json_array_flatten(&mut st);
                Ok((after, fin))
            }
        }
    }));
    let req = |resp: &Value| enc(resp.get("request").unwrap_or(&Value::Null));
    let line = match &r {
        Err(_) => "panic".to_string(),
        Ok(Err(resp)) => format!("perr {}", req(resp)),
        Ok(Ok((after, fin))) => {
            let mut s = format!("ok {}", enc(after));
            match fin {
                Ok(qs) => {
                    s.push_str(&format!(" fok {}", qs.len()));
                    for x in qs {
                        s.push(' ');
                        s.push_str(&enc(x));
                    }
                }
                Err(resp) => s.push_str(&format!(" ferr {}", req(resp))),
            }
            s
        }
    };
    ctx.emit(idx, format!("jop {}", enc(state)), line.clone());
    ctx.count("state_op");
    ctx.count(&format!("state_op:{}", branch));
    // oracle: when every element is a query object the plugin accepts on its own, the new state is the
    // concatenation, in order, of each element's own expansion
    let Some(a) = state.as_array() else { return };
    let mut expected: Vec<Value> = vec![];
    for q in a {
        if !q.is_object() {
            return;
        }
        match (shape(q), call_plugin(q)) {
            (Shape::NoGrid, Real::Ok(v)) => expected.push(v),
            (_, Real::Ok(Value::Array(gen))) => expected.extend(gen),
            _ => return,
        }
    }
    ctx.nontrivial(&format!("state:{}:{}", a.len(), expected.len()));
    match &r {
        Ok(Ok((after, Ok(fin)))) => {
            if after.as_array() != Some(&expected) || fin != &expected {
                ctx.fail(
                    idx,
                    "pipeline/state-flatten",
                    format!("state of {} queries: expected {} queries after grid search, got {}", a.len(), expected.len(), clip(&after.to_string())),
                );
            }
        }
        _ => ctx.fail(idx, "pipeline/state-flatten", format!("state of {} valid queries was not processed: {}", a.len(), clip(&line))),
    }
}

pub fn run(ctx: &mut Ctx) -> &'static str {
    // hand-written cases first
    for (branch, q) in corpus() {
        proc_case(ctx, &q, branch, None);
        pipe_case(ctx, &q);
    }
    jop_case(ctx, &json!([{"a": 1}, {"b": 2, "grid_search": {"x": [1, 2], "y": ["p", "q"]}}]), "corpus_mixed");
    jop_case(ctx, &json!([{"grid_search": {"x": [1, 2]}}, {"a": 1}, {"grid_search": {"y": [{"k": 1}, {"k": 2}, 3]}}]), "corpus_mixed");
    jop_case(ctx, &json!([]), "corpus_empty");
    jop_case(ctx, &json!([[{"a": 1}], {"b": 2}]), "corpus_nested");
    jop_case(ctx, &json!([[[{"a": 1}]], {"b": 2}]), "corpus_nested");
    jop_case(ctx, &json!({"a": 1}), "corpus_not_array");
    jop_case(ctx, &json!([{"a": 1}, 5]), "corpus_scalar_element");
    // --- coverage follow-up: hand-written cases ---
    // MultiSet on every input: no set (witness: used to yield [] for ever), empty sets (witness: used to
    // panic), one set, a single combination, very many axes
    msd_case(ctx, &vec![], 50, "corpus_no_set");
    msd_case(ctx, &vec![vec![]], 50, "corpus_empty_set");
    msd_case(ctx, &vec![vec![1, 2], vec![]], 50, "corpus_empty_set");
    msd_case(ctx, &vec![vec![], vec![1, 2]], 50, "corpus_empty_set");
    msd_case(ctx, &vec![vec![1, 2], vec![], vec![3]], 50, "corpus_empty_set");
    msd_case(ctx, &vec![vec![7]], 50, "corpus_one_set");
    msd_case(ctx, &vec![vec![7, 8, 9]], 50, "corpus_one_set");
    msd_case(ctx, &vec![vec![7, 8, 9]], 2, "corpus_cut_off");
    msd_case(ctx, &vec![vec![0]; 64], 50, "corpus_many_axes");
    msd_case(ctx, &(0..40).map(|i| if i % 13 == 0 { vec![0, 1] } else { vec![i] }).collect(), 50, "corpus_many_axes");
    msd_case(ctx, &vec![vec![0, 1]; 200], 300, "corpus_many_axes");
    msd_case(ctx, &vec![vec![1, 1], vec![2, 2]], 50, "corpus_repeated_values");
    // input_plugin_ops on arbitrary values
    for v in [
        json!([]), json!([[]]), json!([[], []]), json!([{"a": 1}]), json!([[{"a": 1}], {"b": 2}]), json!([[[{"a": 1}]], 5, "s", null]),
        json!([1, [2, [3, [4]]]]), json!({"a": [1]}), json!(null), json!(7), json!("text"), json!(true),
        json!([{"a": 1}, [], {"b": 2}]), json!([null, {"a": 1}]), json!([{"a": 1}, 1.5, {"b": 2}, "last"]),
    ] {
        flat_cases(ctx, &v, "corpus");
    }
    for (q, sub) in [
        (json!({"origin_x": 1.5, "grid_search": {"a": [1, 2]}}), json!(5)),
        (json!([{"a": 1}, 2]), json!({"k": "v"})),
        (json!(null), json!(null)),
        (json!("a \"quoted\" string\nwith a new line"), json!([1, [2, {"x": []}]])),
        (json!({}), json!([])),
    ] {
        pkg_cases(ctx, &q, &sub);
    }
    // the builder from configuration
    let gq = json!({"k": 0, "grid_search": {"x": [1, 2], "y": ["p", {"z": 1}]}, "last": true});
    bld_case(ctx, &json!({"input_plugins": [{"type": "grid_search"}]}), &gq, "corpus_one");
    bld_case(ctx, &json!({"input_plugins": [{"type": "grid_search", "anything": [1, 2], "grid_search": {"a": [1]}}]}), &gq, "corpus_parameters");
    bld_case(ctx, &json!({"input_plugins": [{"type": "grid_search"}, {"type": "grid_search"}, {"type": "grid_search"}]}), &gq, "corpus_repeated");
    bld_case(ctx, &json!({"input_plugins": []}), &gq, "corpus_none");
    bld_case(ctx, &json!({"input_plugins": [{"type": "grid_search"}], "output_plugins": 5}), &json!({"a": 1}), "corpus_one");
    bld_case(ctx, &json!({"input_plugins": [{"type": "grid_search"}]}), &json!([1, 2]), "corpus_one");
    bld_case(ctx, &json!({}), &gq, "corpus_malformed");
    bld_case(ctx, &json!({"input_plugins": {"type": "grid_search"}}), &gq, "corpus_malformed");
    bld_case(ctx, &json!({"input_plugins": "grid_search"}), &gq, "corpus_malformed");
    bld_case(ctx, &json!({"input_plugins": null}), &gq, "corpus_malformed");
    bld_case(ctx, &json!([{"type": "grid_search"}]), &gq, "corpus_malformed");
    bld_case(ctx, &json!({"input_plugins": [{"kind": "grid_search"}]}), &gq, "corpus_malformed");
    bld_case(ctx, &json!({"input_plugins": [{"type": 5}]}), &gq, "corpus_malformed");
    bld_case(ctx, &json!({"input_plugins": [{"type": ["grid_search"]}]}), &gq, "corpus_malformed");
    bld_case(ctx, &json!({"input_plugins": ["grid_search"]}), &gq, "corpus_malformed");
    bld_case(ctx, &json!({"input_plugins": [{"type": "grid_search"}, {"type": "Grid_Search"}]}), &gq, "corpus_malformed");
    bld_case(ctx, &json!({"input_plugins": [{"type": "no_such_plugin"}, {"type": "grid_search"}]}), &gq, "corpus_malformed");
    bld_case(ctx, &json!({"input_plugins": [{"type": ""}]}), &gq, "corpus_malformed");
    direct_builder_case(ctx, &json!(null), &gq);
    direct_builder_case(ctx, &json!({"type": "something else", "x": [1]}), &gq);
    direct_builder_case(ctx, &json!([1, 2, 3]), &json!({"a": 1}));

    // --- coverage follow-up: generated cases ---
    let n_cov = ctx.n(1500, 15000);
    for k in 0..n_cov {
        let mut rng = Rng::for_case(ctx.seed, 171717, k as u64);
        match k % 6 {
            0 | 1 => {
                // MultiSet on any input
                let shape_kind = rng.below(10);
                let m = match shape_kind {
                    0 => 0,
                    1 => 1,
                    2 => 8 + rng.below(if ctx.quick() { 40 } else { 120 }),
                    _ => 1 + rng.below(6),
                };
                let many = shape_kind == 2;
                let mut sets: Vec<Vec<usize>> = (0..m)
                    .map(|_| {
                        let len = if many { 1 + (rng.below(8) == 0) as usize } else { 1 + rng.below(4) };
                        (0..len).map(|j| if rng.chance(1, 6) { rng.below(3) } else { 10 * j + rng.below(10) }).collect()
                    })
                    .collect();
                let mut branch = match shape_kind {
                    0 => "no_set",
                    1 => "one_set",
                    2 => "many_axes",
                    _ => "regular",
                };
                if m > 0 && rng.chance(1, 5) {
                    let e = 1 + rng.below(2.min(m));
                    for _ in 0..e {
                        let i = rng.below(m);
                        sets[i].clear();
                    }
                    branch = "empty_set";
                }
                let limit = if rng.chance(1, 6) { rng.below(6) } else { 300 };
                msd_case(ctx, &sets, limit, branch);
            }
            2 => {
                // flatten functions on arbitrary values: mostly arrays of objects / arrays / scalars
                let v = if rng.chance(1, 6) {
                    value(&mut rng, 2)
                } else {
                    let n = rng.below(5);
                    let flavour = rng.below(4);
                    Value::Array(
                        (0..n)
                            .map(|_| match if flavour == 0 { 0 } else { rng.below(flavour + 1) } {
                                0 => Value::Object(object(&mut rng, 1, 3)),
                                1 => Value::Array((0..rng.below(3)).map(|_| if rng.chance(2, 3) { Value::Object(object(&mut rng, 1, 2)) } else { value(&mut rng, 1) }).collect()),
                                _ => value(&mut rng, 2),
                            })
                            .collect(),
                    )
                };
                let branch = match &v {
                    Value::Array(a) if a.iter().all(|e| e.is_object()) => "array_of_objects",
                    Value::Array(a) if a.iter().any(|e| e.is_array()) => "nested_arrays",
                    Value::Array(_) => "array_with_scalars",
                    _ => "not_an_array",
                };
                flat_cases(ctx, &v, branch);
            }
            3 => {
                let q = value(&mut rng, 3);
                let sub = value(&mut rng, 2);
                pkg_cases(ctx, &q, &sub);
            }
            _ => {
                // plugin section of a configuration
                let n = rng.below(4);
                let mut entries: Vec<Value> = (0..n)
                    .map(|_| {
                        let mut m = object(&mut rng, 1, 3);
                        m.insert("type".to_string(), json!(GRID));
                        if rng.chance(1, 2) {
                            // keep `type` first, as a TOML table usually has it
                            let mut m2 = Map::new();
                            m2.insert("type".to_string(), json!(GRID));
                            for (k, v) in m.iter() {
                                m2.insert(k.clone(), v.clone());
                            }
                            m = m2;
                        }
                        Value::Object(m)
                    })
                    .collect();
                let mut cfg = Map::new();
                if rng.chance(1, 3) {
                    cfg.insert("output_plugins".to_string(), json!([]));
                }
                let mut branch = if n == 0 { "none" } else if n == 1 { "one" } else { "repeated" };
                match rng.below(12) {
                    0 => {
                        // no input_plugins key
                        branch = "malformed";
                        cfg.insert("input_plugin".to_string(), Value::Array(entries.clone()));
                    }
                    1 => {
                        branch = "malformed";
                        cfg.insert("input_plugins".to_string(), value(&mut rng, 1));
                        if cfg["input_plugins"].is_array() {
                            cfg.insert("input_plugins".to_string(), json!({"type": GRID}));
                        }
                    }
                    2 => {
                        branch = "malformed";
                        let bad = match rng.below(5) {
                            0 => json!({"type": rng.below(9)}),
                            1 => json!({"typ": GRID}),
                            2 => json!({"type": *rng.pick(&["gridsearch", "grid-search", "GRID_SEARCH", "grid_search ", "no_such_plugin", ""])}),
                            3 => scalar(&mut rng),
                            _ => json!({"type": null}),
                        };
                        let at = rng.below(entries.len() + 1);
                        entries.insert(at, bad);
                        cfg.insert("input_plugins".to_string(), Value::Array(entries.clone()));
                    }
                    _ => {
                        cfg.insert("input_plugins".to_string(), Value::Array(entries.clone()));
                    }
                }
                let sizes: Vec<usize> = (0..1 + rng.below(3)).map(|_| 1 + rng.below(3)).collect();
                let q = match rng.below(6) {
                    0 => Value::Object(object(&mut rng, 2, 4)),
                    1 => value(&mut rng, 2),
                    _ => {
                        let spec = GridSpec { sizes, fresh: rng.chance(1, 2), before: rng.below(3), after: rng.below(3), noise: rng.below(2) };
                        grid_query(&mut rng, &spec).0
                    }
                };
                bld_case(ctx, &Value::Object(cfg), &q, branch);
                if k % 30 == 4 {
                    let params = value(&mut rng, 2);
                    direct_builder_case(ctx, &params, &q);
                }
            }
        }
    }

    ms_case(ctx, &vec![vec![1, 3], vec![2], vec![5, 7, 9]], false);
    ms_case(ctx, &vec![vec![0]], true);
    ms_case(ctx, &vec![vec![0], vec![0], vec![0]], true);

    // exhaustive small shapes of the counter
    let max_len = if ctx.quick() { 3 } else { 4 };
    let max_axes = if ctx.quick() { 4 } else { 5 };
    for m in 1..=max_axes {
        let mut sizes = vec![1usize; m];
        loop {
            let sets: Vec<Vec<usize>> = sizes.iter().map(|n| (0..*n).collect()).collect();
            ms_case(ctx, &sets, true);
            let mut i = 0;
            while i < m {
                if sizes[i] < max_len {
                    sizes[i] += 1;
                    break;
                }
                sizes[i] = 1;
                i += 1;
            }
            if i == m {
                break;
            }
        }
    }

    // whole query states, as an earlier plugin may leave them
    let n_state = ctx.n(800, 8000);
    for k in 0..n_state {
        let mut rng = Rng::for_case(ctx.seed, 1717, k as u64);
        let len = if rng.chance(1, 12) { 0 } else { 1 + rng.below(5) };
        let malformed = rng.chance(1, 5);
        let mut grids = 0;
        let mut elems: Vec<Value> = vec![];
        for _ in 0..len {
            let pick = rng.below(if malformed { 8 } else { 5 });
            let e = match pick {
                0 | 1 => Value::Object(object(&mut rng, 2, 4)),
                2 | 3 | 4 => {
                    grids += 1;
                    let sizes: Vec<usize> = (0..1 + rng.below(3)).map(|_| 1 + rng.below(3)).collect();
                    let spec = GridSpec { sizes, fresh: rng.chance(1, 2), before: rng.below(3), after: rng.below(3), noise: rng.below(2) };
                    grid_query(&mut rng, &spec).0
                }
                5 => value(&mut rng, 2),
                6 => Value::Array((0..rng.below(3)).map(|_| value(&mut rng, 1)).collect()),
                _ => {
                    let mut o = object(&mut rng, 1, 3);
                    o.insert(GRID.to_string(), if rng.chance(1, 2) { json!({"x": []}) } else { value(&mut rng, 1) });
                    Value::Object(o)
                }
            };
            elems.push(e);
        }
        let branch = if malformed {
            "malformed_elements"
        } else if grids == 0 {
            "no_grid"
        } else if grids == len {
            "all_grid"
        } else {
            "mixed"
        };
        jop_case(ctx, &Value::Array(elems), branch);
    }

    let n = ctx.n(3000, 30000);
    for k in 0..n {
        // every random choice of iteration k derives from (seed, k): `--only` regenerates the same
        // inputs and executes just the selected case
        let mut rng = Rng::for_case(ctx.seed, 17, k as u64);
        let thorough = !ctx.quick();
        let sizes: Vec<usize> = if thorough && rng.chance(1, 2) {
            (0..1 + rng.below(4)).map(|_| 1 + rng.below(7)).collect()
        } else {
            (0..1 + rng.below(5)).map(|_| 1 + rng.below(5)).collect()
        };
        // keep the very large products rare (they dominate the run time, not the coverage)
        let sizes: Vec<usize> = if sizes.iter().product::<usize>() > 400 && !rng.chance(1, 10) {
            sizes.iter().map(|s| (*s).min(3)).collect()
        } else {
            sizes
        };
        match k % 12 {
            0 => {
                // MultiSet directly: index sets and value sets
                let sets: Vec<Vec<usize>> = sizes.iter().map(|n| (0..*n).collect()).collect();
                ms_case(ctx, &sets, true);
                let vals: Vec<Vec<usize>> = sizes.iter().map(|n| (0..*n).map(|_| rng.below(10)).collect()).collect();
                ms_case(ctx, &vals, false);
            }
            1 => {
                // no grid section: objects and non-objects
                let q = if rng.chance(2, 3) {
                    Value::Object(object(&mut rng, 3, 5))
                } else {
                    value(&mut rng, 2)
                };
                proc_case(ctx, &q, "no_grid_section", None);
                pipe_case(ctx, &q);
            }
            2 => {
                // malformed stream: section of another type, degenerate sections, recursion guard
                let spec = GridSpec { sizes: sizes.clone(), fresh: rng.chance(1, 2), before: rng.below(3), after: rng.below(3), noise: rng.below(2) };
                let (mut q, _) = grid_query(&mut rng, &spec);
                let branch;
                {
                    let obj = q.as_object_mut().unwrap();
                    match rng.below(7) {
                        0 => {
                            obj.insert(GRID.to_string(), value(&mut rng, 1));
                            branch = "mal_section_any_value";
                        }
                        1 => {
                            let sec = obj.get_mut(GRID).unwrap().as_object_mut().unwrap();
                            let ks: Vec<String> = sec.keys().cloned().collect();
                            let k = rng.pick(&ks).clone();
                            sec.insert(k, json!([]));
                            branch = "mal_empty_axis";
                        }
                        2 => {
                            let sec = obj.get_mut(GRID).unwrap().as_object_mut().unwrap();
                            let ks: Vec<String> = sec.keys().cloned().collect();
                            for k in ks {
                                if sec[&k].is_array() {
                                    if rng.chance(1, 2) {
                                        sec.insert(k, scalar(&mut rng));
                                    } else {
                                        sec.shift_remove(&k);
                                    }
                                }
                            }
                            branch = "mal_no_axis";
                        }
                        3 => {
                            let sec = obj.get_mut(GRID).unwrap().as_object_mut().unwrap();
                            let inner = json!({"foo": ["a", "b"]});
                            sec.insert(GRID.to_string(), inner);
                            branch = "mal_nested_grid_key";
                        }
                        4 => {
                            let sec = obj.get_mut(GRID).unwrap().as_object_mut().unwrap();
                            let ks: Vec<String> = sec.keys().cloned().collect();
                            let k = rng.pick(&ks).clone();
                            if let Some(a) = sec.get_mut(&k).and_then(|v| v.as_array_mut()) {
                                let j = rng.below(a.len());
                                a[j] = if rng.chance(1, 2) { json!("see grid_search docs") } else { json!({"grid_search": 1}) };
                            } else {
                                sec.insert(k, json!("grid_search"));
                            }
                            branch = "mal_text_in_option";
                        }
                        5 => {
                            let sec = obj.get_mut(GRID).unwrap().as_object_mut().unwrap();
                            sec.insert("xgrid_searchx".to_string(), json!([1, 2]));
                            branch = "mal_text_in_key";
                        }
                        _ => {
                            // near miss: accepted
                            let sec = obj.get_mut(GRID).unwrap().as_object_mut().unwrap();
                            sec.insert("grid_".to_string(), json!(["search", "grid_searc"]));
                            branch = "near_miss_text";
                        }
                    }
                }
                proc_case(ctx, &q, branch, None);
                pipe_case(ctx, &q);
            }
            3 | 4 | 5 => {
                // collision-free names: distinctness of the generated queries is decidable by the oracle
                let spec = GridSpec { sizes: sizes.clone(), fresh: true, before: rng.below(4), after: rng.below(4), noise: rng.below(3) };
                let (q, fp) = grid_query(&mut rng, &spec);
                proc_case(ctx, &q, "grid_fresh_names", Some(fp));
                if k % 12 == 3 {
                    pipe_case(ctx, &q);
                }
            }
            _ => {
                // names from a small pool: option keys hit other fields, other axes, axis names
                let spec = GridSpec { sizes: sizes.clone(), fresh: false, before: rng.below(5), after: rng.below(5), noise: rng.below(3) };
                let (q, fp) = grid_query(&mut rng, &spec);
                proc_case(ctx, &q, "grid_colliding_names", Some(fp));
                if k % 12 == 6 {
                    pipe_case(ctx, &q);
                }
            }
        }
        ctx.count_n(&format!("axes_{}", sizes.len()), 1);
    }
    "non-trivial: a grid expansion (or MultiSet run) that generated at least two queries; distinct by axis sizes, option kinds (scalar/object/mixed), number of fields before/after the grid key and naming mode"
}
