//! cvh — correspondence harness for /verif (see DESIGN.md §2.4).
//! `cvh <PROP> --seed S --tier quick|thorough --out DIR [--only IDX] [--n N]`
//! writes DIR/cases.txt (input lines for the Lean driver), DIR/impl.txt (what the real code did),
//! DIR/oracle.txt (direct violations of the property by the real code) and DIR/stats.json.
mod ctx;
mod rng;
mod watch;
mod c09;
mod search;
mod searchprops;
mod appbuild;
mod c20;
mod c16;
mod c17;
mod c19;
#[allow(dead_code)]
mod jsonproto;
mod c15;
mod c07;
mod c11;
mod c18;
mod c18_net;
mod c08;
mod c14;
mod c13;
mod c06;

use ctx::{Ctx, Tier};

fn main() {
    let args: Vec<String> = std::env::args().collect();
    if args.len() < 2 {
        eprintln!("usage: cvh <PROP> --seed S --tier quick|thorough --out DIR [--only IDX] [--n N]");
        std::process::exit(2);
    }
    let prop = args[1].clone();
    if prop == "C13-child" {
        // hidden sub-command: one Yen case in a resource-limited child process (see c13.rs)
        c13::child_main(&args[2..]);
        return;
    }
    let mut seed: u64 = 20260926;
    let mut tier = Tier::Quick;
    let mut out = String::from("work/tmp");
    let mut only = None;
    let mut n = None;
    let mut i = 2;
    while i < args.len() {
        match args[i].as_str() {
            "--seed" => {
                seed = args[i + 1].parse().expect("seed");
                i += 2;
            }
            "--tier" => {
                tier = if args[i + 1] == "thorough" { Tier::Thorough } else { Tier::Quick };
                i += 2;
            }
            "--out" => {
                out = args[i + 1].clone();
                i += 2;
            }
            "--only" => {
                only = Some(args[i + 1].parse().expect("only"));
                i += 2;
            }
            "--n" => {
                n = Some(args[i + 1].parse().expect("n"));
                i += 2;
            }
            other => {
                eprintln!("unknown argument {}", other);
                std::process::exit(2);
            }
        }
    }
    // panics inside the implementation are caught per case by the modules; keep the default hook quiet
    std::panic::set_hook(Box::new(|_| {}));
    if matches!(prop.as_str(), "C01" | "C02" | "C03" | "C04" | "C05" | "C10" | "C13") {
        watch::init(&out, &prop, seed, if tier == Tier::Thorough { "thorough" } else { "quick" });
    }
    let mut ctx = Ctx::new(seed, tier, only, n);
    let rule = match prop.as_str() {
        "C09" => c09::run(&mut ctx),
        "C01" => searchprops::run(&mut ctx, searchprops::Prop::C01),
        "C02" => searchprops::run(&mut ctx, searchprops::Prop::C02),
        "C03" => searchprops::run(&mut ctx, searchprops::Prop::C03),
        "C04" => searchprops::run(&mut ctx, searchprops::Prop::C04),
        "C05" => searchprops::run(&mut ctx, searchprops::Prop::C05),
        "C10" => searchprops::run(&mut ctx, searchprops::Prop::C10),
        "C15" => c15::run(&mut ctx),
        "C07" => c07::run(&mut ctx),
        "C11" => c11::run(&mut ctx),
        "C18" => c18::run(&mut ctx),
        "C20" => c20::run(&mut ctx),
        "C16" => c16::run(&mut ctx),
        "C08" => c08::run(&mut ctx),
        "C14" => c14::run(&mut ctx),
        "C17" => c17::run(&mut ctx),
        "C19" => c19::run(&mut ctx),
        "C13" => c13::run(&mut ctx),
        "C06" => c06::run(&mut ctx, c06::Profile::C06),
        "C12" => c06::run(&mut ctx, c06::Profile::C12),
        _ => {
            eprintln!("unknown property {}", prop);
            std::process::exit(2);
        }
    };
    ctx.write(&out, &prop, rule).expect("write outputs");
}
