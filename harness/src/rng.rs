//! SplitMix64: every random choice of the harness derives from one seed, so a case replays exactly.
#[derive(Clone)]
pub struct Rng(u64);

impl Rng {
    pub fn new(seed: u64) -> Rng {
        Rng(seed)
    }
    /// independent stream for case `idx` of property stream `tag`
    pub fn for_case(seed: u64, tag: u64, idx: u64) -> Rng {
        let mut r = Rng(seed ^ tag.wrapping_mul(0x9E3779B97F4A7C15) ^ idx.wrapping_mul(0xD1B54A32D192ED03));
        r.next();
        r.next();
        r
    }
    pub fn next(&mut self) -> u64 {
        self.0 = self.0.wrapping_add(0x9E3779B97F4A7C15);
        let mut z = self.0;
        z = (z ^ (z >> 30)).wrapping_mul(0xBF58476D1CE4E5B9);
        z = (z ^ (z >> 27)).wrapping_mul(0x94D049BB133111EB);
        z ^ (z >> 31)
    }
    /// uniform in 0..n (n > 0)
    pub fn below(&mut self, n: usize) -> usize {
        (self.next() % (n as u64)) as usize
    }
    /// uniform in lo..=hi
    pub fn range(&mut self, lo: i64, hi: i64) -> i64 {
        lo + (self.next() % ((hi - lo + 1) as u64)) as i64
    }
    pub fn chance(&mut self, num: u64, den: u64) -> bool {
        self.next() % den < num
    }
    /// uniform double in [0,1)
    pub fn unit(&mut self) -> f64 {
        (self.next() >> 11) as f64 / (1u64 << 53) as f64
    }
    pub fn uniform(&mut self, lo: f64, hi: f64) -> f64 {
        lo + (hi - lo) * self.unit()
    }
    pub fn pick<'a, T>(&mut self, xs: &'a [T]) -> &'a T {
        &xs[self.below(xs.len())]
    }
    /// a "nice" decimal with few digits (tie-prone) 
    pub fn small_decimal(&mut self, max_int: i64, digits: u32) -> f64 {
        let scale = 10i64.pow(digits);
        self.range(0, max_int * scale) as f64 / scale as f64
    }
    pub fn shuffle<T>(&mut self, xs: &mut [T]) {
        for i in (1..xs.len()).rev() {
            let j = self.below(i + 1);
            xs.swap(i, j);
        }
    }
}
